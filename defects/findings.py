"""Native demonstrations of the KNOWN FINDINGS (genuine defects recorded in known_findings.txt, not repaired).
Usage: PYTHONPATH=<tree> /venv/bin/python defects/findings.py [Dnn ...]  -> prints REPRODUCED / NOT-REPRODUCED per finding
(each function raises AssertionError while the defect is present)."""
import gc
import sys

import torch


def D16():
    """second trainer with the same monitor names redirects the eligibility monitors of the first one"""
    from inferno.learn import MSTDPET, STDP
    from inferno.neural import LIF, DeltaCurrent, LinearDense, Serial

    c = LinearDense((3,), (2,), 1.0, synapse=DeltaCurrent.partialconstructor(1.0))
    c.updater = c.defaultupdater()
    n = LIF((2,), 1.0, rest_v=-60, reset_v=-65, thresh_v=-50, refrac_t=2, time_constant=20, resistance=1)
    layer = Serial(c, n)
    t1, t2 = MSTDPET(1.0, -1.0, 20.0, 20.0, 30.0), STDP(1.0, -1.0, 10.0, 10.0)
    t1.register_cell("a", layer.cell)
    t2.register_cell("a", layer.cell)
    assert layer.cell.monitors["trace_pre"] is t1.get_monitor("a", "trace_pre"), "cell.monitors.trace_pre now is the STDP trainer's monitor"
    del t2
    gc.collect()
    layer(torch.ones(1, 3))  # raises AttributeError: the eligibility monitor reads a collected entry


if __name__ == "__main__":
    names = sys.argv[1:] or [k for k in sorted(globals()) if k.startswith("D") and k[1:].isdigit()]
    for n in names:
        try:
            globals()[n]()
            print(n, "NOT-REPRODUCED")
        except Exception as e:  # noqa: BLE001
            print(n, "REPRODUCED", type(e).__name__, str(e)[:160].replace("\n", " "))
