"""Native demonstrations of the KNOWN FINDINGS (genuine defects recorded in known_findings.txt, not repaired).
Usage: PYTHONPATH=<tree> /venv/bin/python defects/findings.py [Dnn ...]  -> prints REPRODUCED / NOT-REPRODUCED per finding
(each function raises AssertionError while the defect is present)."""
import gc
import sys

import torch


def D16():
    """second trainer with the same monitor names redirects the eligibility monitors of the first one"""
    from inferno.learn import MSTDPET, STDP
    from inferno.neural import LIF, DeltaCurrent, LinearDense, Serial

    c = LinearDense((3,), (2,), 1.0, synapse=DeltaCurrent.partialconstructor(1.0))
    c.updater = c.defaultupdater()
    n = LIF((2,), 1.0, rest_v=-60, reset_v=-65, thresh_v=-50, refrac_t=2, time_constant=20, resistance=1)
    layer = Serial(c, n)
    t1, t2 = MSTDPET(1.0, -1.0, 20.0, 20.0, 30.0), STDP(1.0, -1.0, 10.0, 10.0)
    t1.register_cell("a", layer.cell)
    t2.register_cell("a", layer.cell)
    assert layer.cell.monitors["trace_pre"] is t1.get_monitor("a", "trace_pre"), "cell.monitors.trace_pre now is the STDP trainer's monitor"
    del t2
    gc.collect()
    layer(torch.ones(1, 3))  # raises AttributeError: the eligibility monitor reads a collected entry


def D22():
    """SpikeRefractoryMixin.spike is `refrac == refrac_t`: with refrac_t = 0 every non-refractory neuron reports spike=True
    although forward returned no spike (C03); a RecurrentSerial built from such neurons drives its lateral connection with
    all-True "spikes" on silent input (C17)"""
    from inferno.neural import LIF, DeltaCurrent, LinearDense, RecurrentSerial

    mk = lambda: LIF((2,), 1.0, rest_v=-60.0, reset_v=-65.0, thresh_v=-55.0, refrac_t=0.0, time_constant=10.0, resistance=1.0)  # noqa: E731
    n = mk()
    out = n(torch.zeros(1, 2))
    c03 = bool(n.spike.any()) and not bool(out.any())
    mc = lambda i: LinearDense((i,), (2,), 1.0, synapse=DeltaCurrent.partialconstructor(20.0))  # noqa: E731
    cff, clat, cfb, nff, nfb = mc(3), mc(2), mc(2), mk(), mk()
    lay = RecurrentSerial(cff, clat, cfb, nff, nfb)
    seen = []
    clat.register_forward_pre_hook(lambda m, a: seen.append(a[0].clone()))
    ff, _fb = lay(torch.zeros(1, 3))
    c17 = bool(seen[-1].any()) and not bool(ff.any())
    assert not (c03 or c17), f"spike attribute True without a spike (C03: {c03}); lateral connection of RecurrentSerial driven by it (C17: {c17})"


if __name__ == "__main__":
    names = sys.argv[1:] or [k for k in sorted(globals()) if k.startswith("D") and k[1:].isdigit()]
    for n in names:
        try:
            globals()[n]()
            print(n, "NOT-REPRODUCED")
        except Exception as e:  # noqa: BLE001
            print(n, "REPRODUCED", type(e).__name__, str(e)[:160].replace("\n", " "))
