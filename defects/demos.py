"""Native demonstrations of the genuine defects repaired by `fix:` commits in /repo (DESIGN section 4).
Usage: PYTHONPATH=<tree> /venv/bin/python defects/demos.py [Dnn ...]   -> prints PASS/FAIL per defect."""
import sys, traceback
import torch
import inferno
from inferno import RecordTensor, Module

def D3():
    m = Module(); RecordTensor.create(m, "x", 1.0, 2.0, torch.zeros(3))
    m.x.push(torch.ones(3)); m.x.value = None
    assert m.x.pointer == 0
def D4():
    m = Module(); RecordTensor.create(m, "x", 1.0, 2.0, None)
    m.x.dt = 0.5; assert m.x.recordsz == 4, m.x.recordsz
    m.x.duration = 3.0; assert m.x.recordsz == 6
    m.x.inclusive = True; assert m.x.recordsz == 7
def D5():
    from inferno.neural import DeltaCurrent
    s = DeltaCurrent((3,), 1.0, spike_charge=1.0, delay=2.0, interp_tol=0.1, spike_overbound=False)
    for _ in range(4): s(torch.ones(1, 3).bool())
    r = s.spike_at(torch.full((1, 3, 1), 5.0))
    assert not bool(r.any()), r   # beyond supported delay -> overbound value False
    s2 = DeltaCurrent((3,), 1.0, spike_charge=1.0, delay=2.0, interp_tol=0.1, spike_overbound=None)
    for _ in range(4): s2(torch.ones(1, 3).bool())
    r2 = s2.spike_at(torch.full((1, 3, 1), 5.0))
    assert bool(r2.all())          # no overbound configured -> value at the limit


def D6():
    from inferno.neural import Conv2D, DeltaCurrent
    c = Conv2D(4, 4, 2, 3, 1.0, 2, synapse=DeltaCurrent.partialconstructor(1.0))
    x = torch.rand(1, 2, 4, 4)
    syn = c.like_synaptic(x)                      # B, C*kH*kW, L
    r = c.presyn_receptive(syn)
    assert tuple(r.shape) == (1, 1, 2, 2, 2, 9), r.shape
    assert torch.equal(r[0, 0].reshape(8, 9), syn[0])
    d = syn.unsqueeze(-1).expand(-1, -1, -1, 3)   # delayed form B, N, L, F
    r2 = c.presyn_receptive(d)
    assert tuple(r2.shape) == (1, 3, 2, 2, 2, 9), r2.shape


def D9():
    from inferno.functional import bound_power, bound_scaled_power
    p = torch.tensor([0.5]); u = torch.tensor([0.1])
    r = bound_power(p, u, u, 1.0, 0.0, upper_power=2.0, lower_power=2.0)
    assert torch.allclose(r, (1.0 - p) ** 2 * u - (p - 0.0) ** 2 * u)
    bound_scaled_power(p, u, u, 1.0, 0.0, upper_power=2.0, lower_power=2.0)


def D13():
    from inferno.neural import LinearDense, DeltaCurrent, SingleExponentialCurrent
    c = LinearDense((3,), (2,), 1.0, synapse=DeltaCurrent.partialconstructor(1.0))
    new = SingleExponentialCurrent((3,), 1.0, spike_charge=1.0, time_constant=5.0)
    c.synapse = new
    assert c.synapse is new
def D19():
    from inferno.neural.functional import homogeneous_poisson_exp_interval
    g = torch.Generator().manual_seed(0)
    r = homogeneous_poisson_exp_interval(torch.full((200,), 150.0), 400, 1.0, refrac=5.0, generator=g)
    idx = [r[:, i].nonzero().flatten() for i in range(200)]
    gaps = torch.cat([i[1:] - i[:-1] for i in idx if i.numel() > 1])
    assert gaps.min() >= 5, gaps.min()
def D20():
    from inferno.stats import LogNormal
    v = LogNormal.logcdf(torch.tensor([1.0]), torch.tensor([0.0]), torch.tensor([1.0]))
    assert abs(v.item() - torch.log(torch.tensor(0.5)).item()) < 1e-5
def D21():
    from inferno.stats import Poisson
    v = Poisson.logpmf(torch.tensor([3.0]), torch.tensor([1.0]))
    import math
    assert abs(v.item() - (-1 - math.log(6))) < 1e-5, v
def D17():
    from inferno.neural import Serial, LinearDense, DeltaCurrent, LIF
    c = LinearDense((3,), (2,), 1.0, synapse=DeltaCurrent.partialconstructor(1.0))
    n = LIF((2,), 1.0, rest_v=-60, reset_v=-65, thresh_v=-50, refrac_t=2, time_constant=20, resistance=1)
    l = Serial(c, n); l(torch.ones(1, 3)); l.clear()

def D18():
    from inferno.neural import Biclique, LinearDense, DeltaCurrent, LIF
    mk = lambda: LinearDense((3,), (2,), 1.0, synapse=DeltaCurrent.partialconstructor(1.0))
    n = LIF((2,), 1.0, rest_v=-60, reset_v=-65, thresh_v=-50, refrac_t=2, time_constant=20, resistance=1, batch_size=2)
    l = Biclique([("a", mk()), ("b", mk())], [("n", n)], combine="sum")
    out = l({"a": ((torch.ones(2, 3),), {}), "b": ((torch.ones(2, 3),), {})}, capture_intermediate=False) if False else None
    res = l._combine({"a": torch.ones(2, 2), "b": torch.ones(2, 2)})
    assert tuple(res.shape) == (2, 2), res.shape

def D11():
    from inferno.neural import DeltaCurrent
    a = DeltaCurrent((3,), 1.0, spike_charge=1.0, delay=3.0)
    b = DeltaCurrent((3,), 1.0, spike_charge=1.0, delay=1.0); b.delay = 3.0
    assert a.spike_.recordsz == b.spike_.recordsz, (a.spike_.recordsz, b.spike_.recordsz)
    assert a.spike_.duration == b.spike_.duration


def D12():
    from inferno.observe import PassthroughReducer
    r = PassthroughReducer(1.0, duration=2.0)
    r(torch.ones(2)); r.duration = 4.0
    assert r.duration == 4.0 and r.dt == 1.0, (r.duration, r.dt)
    assert r.data_.recordsz == 4 + int(r.data_.inclusive), r.data_.recordsz
    r.duration = 0.0
    assert r.duration == 0.0


def D15():
    from inferno.learn import STDP
    from inferno.neural import Serial, LinearDense, DeltaCurrent, LIF
    c = LinearDense((3,), (2,), 1.0, synapse=DeltaCurrent.partialconstructor(1.0))
    n = LIF((2,), 1.0, rest_v=-60, reset_v=-65, thresh_v=-50, refrac_t=2, time_constant=20, resistance=1)
    l = Serial(c, n)
    c.updater = c.defaultupdater()
    t = STDP(1.0, -1.0, 20.0, 20.0)
    t.register_cell("c", l.cell)
    ms = list(t.monitors); nm = list(t.named_monitors)
    assert len(ms) == len(nm) and len(ms) >= 2


def D10():
    from inferno.neural import LinearDense, DeltaCurrent
    from inferno.neural.modeling import Updater
    c = LinearDense((3,), (2,), 1.0, synapse=DeltaCurrent.partialconstructor(1.0))
    marker = lambda x, dim: x.amax(dim)  # noqa
    u = Updater(c, "weight", reduction=marker)
    u.weight.pos = torch.ones(2, 3); u.weight.pos = 3 * torch.ones(2, 3)
    assert torch.equal(u.weight.pos, 3 * torch.ones(2, 3)), u.weight.pos


def D7():
    from inferno.learn import TripletSTDP
    from inferno.neural import Serial, LinearDense, DeltaCurrent, LIF
    for cls in (TripletSTDP,):
        c = LinearDense((3,), (2,), 1.0, synapse=DeltaCurrent.partialconstructor(1.0), delay=3.0,
                        delay_init=lambda d: torch.ones_like(d))
        n = LIF((2,), 1.0, rest_v=-60, reset_v=-65, thresh_v=-50, refrac_t=2, time_constant=20, resistance=1)
        l = Serial(c, n)
        c.updater = c.defaultupdater()
        t = cls(1.0, 0.5, -1.0, -0.5, 20.0, 40.0, 20.0, 40.0, delayed=True)
        t.register_cell("c", l.cell)
        for _ in range(4):
            l(torch.ones(1, 3) * 100)
            t()


def D14():
    from inferno.learn import STDP
    from inferno.neural import Biclique, LinearDense, DeltaCurrent, LIF
    mk = lambda: LinearDense((3,), (2,), 1.0, synapse=DeltaCurrent.partialconstructor(1.0))
    n = LIF((2,), 1.0, rest_v=-60, reset_v=-65, thresh_v=-50, refrac_t=2, time_constant=20, resistance=1)
    a, b = mk(), mk()
    a.updater = a.defaultupdater(); b.updater = b.defaultupdater()
    l = Biclique([("a", a), ("b", b)], [("n", n)])
    ca, cb = l.get_cell("a", "n"), l.get_cell("b", "n")
    t = STDP(1.0, -1.0, 20.0, 20.0)
    t.register_cell("ca", ca); t.register_cell("cb", cb)
    shared = [k for k, m in t.named_monitors if sum(1 for _, m2 in t.named_monitors if m2 is m) > 1]
    t.del_cell("ca")
    assert all(m.registered for _, m in t.named_monitors), "a surviving cell's monitor was deregistered"


def D23():
    from inferno.neural import HomogeneousPoissonEncoder
    e = HomogeneousPoissonEncoder(50, 1.0, 100.0, refrac=3.0, generator=torch.Generator().manual_seed(0))
    out = list(e(torch.tensor([0.1, 0.5, 1.0]), online=True))
    assert len(out) == 50 and all(o.dtype == torch.bool and tuple(o.shape) == (3,) for o in out)


def D25():
    from inferno.learn import STDP
    from inferno.neural import Serial, LinearDense, DeltaCurrent, LIF
    c = LinearDense((3,), (2,), 1.0, synapse=DeltaCurrent.partialconstructor(1.0))
    c.updater = c.defaultupdater()
    n = LIF((2,), 1.0, rest_v=-60, reset_v=-65, thresh_v=-50, refrac_t=2, time_constant=20, resistance=1)
    l = Serial(c, n)
    t = STDP(1.0, -1.0, 20.0, 20.0)
    t.register_cell("c", l.cell)
    w0 = c.weight.clone()
    c.updater.weight = (torch.ones(2, 3), None)
    t.update()
    assert torch.equal(c.weight, w0 + 1)


def D26():
    from inferno.learn import STDP
    from inferno.neural import Serial, LinearDense, DeltaCurrent, LIF

    def mk():
        c = LinearDense((3,), (2,), 1.0, synapse=DeltaCurrent.partialconstructor(1.0))
        c.updater = c.defaultupdater()
        n = LIF((2,), 1.0, rest_v=-60, reset_v=-65, thresh_v=-50, refrac_t=2, time_constant=20, resistance=1)
        return Serial(c, n)

    l1, l2 = mk(), mk()
    t = STDP(1.0, -1.0, 20.0, 20.0)
    t.register_cell("a", l1.cell)
    t.register_cell("b", l2.cell)
    # drive only layer 2: cell b's presynaptic spike monitor must see it
    l2(torch.ones(1, 3))
    assert t.get_monitor("b", "spike_pre").peek().any()
    pa = t.get_monitor("a", "spike_pre").peek()
    assert pa is None or not pa.any()


if __name__ == "__main__":
    names = sys.argv[1:] or [k for k in sorted(globals()) if k.startswith("D") and k[1:].isdigit()]
    bad = 0
    for n in names:
        try:
            globals()[n](); print(n, "PASS")
        except Exception as e:
            bad += 1; print(n, "FAIL", type(e).__name__, str(e)[:150].replace("\n", " "))
    sys.exit(1 if bad else 0)
