"""Contracts as proof harnesses over the real code, VC generation and discharge.

A *contract* is a python function ``fn(c: Case)`` that (1) creates symbolic inputs and
pre-state, (2) states ``requires`` with ``c.require``, (3) runs the REAL function body
(extracted from /repo) with ``c.call`` / ``c.outcome`` and (4) states the named
postconditions with ``c.ensure``.  The explorer re-runs the contract once per execution
path of the real code; every ``ensure`` on every path is one proof obligation
``pc and requires => post`` discharged by z3 (cvc5 takes z3's unknowns).
"""
from __future__ import annotations

import os
import time
import traceback
from dataclasses import dataclass, field

import z3

from . import repo
from . import sym
from . import tensor as tz
from .interp import Interp, Obj
from .sym import SV, Explorer, PathAbort, SymRaise, Unsupported, as_bool


@dataclass
class Outcome:
    value: object = None
    raised: str | None = None
    detail: str = ""

    @property
    def ok(self):
        return self.raised is None


@dataclass
class Obligation:
    prop: str
    contract: str
    label: str
    path: int
    kind: str  # ensure | safety | canary | noexc | cover
    status: str = "pending"  # proved | refuted | unknown | expected-refuted | canary-survived
    backend: str = ""
    time_s: float = 0.0
    model: dict | None = None
    smt2: str | None = None
    note: str = ""

    @property
    def oid(self):
        return f"{self.prop}/{self.contract}/{self.label}/path{self.path}"


class ContractDef:
    def __init__(self, prop, name, fn, targets, cases=None, replay=None, min_obligations=1, tags=()):
        self.prop = prop
        self.name = name  # unique within property, e.g. "RecordTensor.read[offset:int]"
        self.fn = fn
        self.targets = targets  # list of (file, qualname) under contract
        self.replay = replay  # callable(model_dict) -> dict(reproduced=bool, ...)
        self.min_obligations = min_obligations
        self.tags = tuple(tags)


REGISTRY: dict[str, list[ContractDef]] = {}


def contract(prop, name, targets, replay=None, min_obligations=1, tags=()):
    if isinstance(targets, tuple) and len(targets) == 2 and isinstance(targets[0], str):
        targets = [targets]

    def deco(fn):
        REGISTRY.setdefault(prop, []).append(ContractDef(prop, name, fn, list(targets), replay=replay, min_obligations=min_obligations, tags=tags))
        return fn

    return deco


class Case:
    """Per-path context handed to a contract function."""

    def __init__(self, cdef: ContractDef, explorer: Explorer, interp: Interp, path_index: int):
        self.cdef = cdef
        self.ex = explorer
        self.interp = interp
        self.path = path_index
        self.pending: list = []  # (kind, label, formula, pc snapshot)
        self.symbols: dict = {}  # name -> z3 const / func  (for model extraction)
        self.extra_axioms: list = []
        self.info: dict = {}

    # ---- symbols
    def _reg(self, name, z):
        self.symbols[name] = z
        return z

    def int(self, name):
        return SV(self._reg(name, z3.Int(name)))

    def real(self, name):
        return SV(self._reg(name, z3.Real(name)))

    def bool(self, name):
        return SV(self._reg(name, z3.Bool(name)))

    def pw(self, name, dtype="float", nan=False, eshape=None):
        t = tz.fresh_pw(name, dtype, eshape, nan)
        self._reg(name, t.f)
        if nan:
            self._reg(name + "!isnan", t.nan)
        return t

    def seq(self, name, tlen, dtype="float", taxis="first", eshape=None):
        t, fn = tz.fresh_seq(name, tlen, dtype, taxis, eshape)
        self._reg(name, fn)
        return t

    def func(self, name, *sorts):
        f = z3.Function(name, *sorts)
        self._reg(name, f)
        return f

    def choice(self, name, options):
        """Finite case split over python values (each option is explored as separate paths)."""
        for i, o in enumerate(options[:-1]):
            if self.ex.branch(z3.Bool(f"choice!{name}!{i}")):
                self.info[name] = o
                return o
        self.info[name] = options[-1]
        return options[-1]

    # ---- assumptions
    def require(self, *fs):
        for f in fs:
            if f is True:
                continue
            if f is False:
                raise PathAbort()
            self.ex.assume(as_bool(f))
        if self.ex.feasible() == z3.unsat:
            raise PathAbort()

    assume = require

    def axiom(self, f):
        self.extra_axioms.append(as_bool(f))
        self.ex.assume(as_bool(f))

    # ---- running real code
    def function(self, file, qualname):
        fi = repo.find_function(file, qualname)
        return self.interp.make_closure(fi)

    def call(self, fn, *args, **kwargs):
        return self.interp.call(fn, list(args), dict(kwargs))

    def outcome(self, fn, *args, **kwargs) -> Outcome:
        try:
            v = self.interp.call(fn, list(args), dict(kwargs))
            return Outcome(value=v)
        except SymRaise as e:
            return Outcome(raised=e.exc_name, detail=e.detail)

    def getattr(self, obj, name):
        return self.interp.getattr(obj, name)

    def setattr(self, obj, name, value):
        return self.interp.setattr(obj, name, value)

    # ---- obligations
    def ensure(self, label, formula):
        self.pending.append(("ensure", label, _formula(formula), list(self.ex.pc)))

    def canary(self, label, formula):
        """A deliberately FALSE claim: must be refuted on at least one path (guards against a vacuous executor)."""
        self.pending.append(("canary", label, _formula(formula), list(self.ex.pc)))

    def expect_return(self, out: Outcome, label="no_exception"):
        """The path must not end in an exception (under the stated requires)."""
        if out.raised is not None:
            self.pending.append(("noexc", f"{label}[{out.raised}]", z3.BoolVal(False), list(self.ex.pc)))
            self.info["exception_detail"] = str(out.detail)[:200]
            raise _PathDone()

    def expect_raise(self, out: Outcome, exc, label="raises"):
        if out.raised is None:
            self.pending.append(("ensure", f"{label}[{exc}]", z3.BoolVal(False), list(self.ex.pc)))
            raise _PathDone()
        if out.raised != exc:
            self.pending.append(("ensure", f"{label}[{exc}!={out.raised}]", z3.BoolVal(False), list(self.ex.pc)))
            raise _PathDone()

    def done(self):
        raise _PathDone()


class _PathDone(Exception):
    pass


def _formula(f):
    if isinstance(f, bool):
        return z3.BoolVal(f)
    if isinstance(f, SV):
        return as_bool(f)
    if isinstance(f, tz.T):
        if f.tlen is not None:
            raise Unsupported("ensure() on a tensor with time axis")
        return as_bool(f.f)
    if isinstance(f, (list, tuple)):
        return z3.And(*[_formula(x) for x in f])
    return as_bool(f)


# ----------------------------------------------------------------------- discharge
def _collect_terms(fs):
    return list(fs)


def _model_to_dict(model, symbols, extra_ints=()):
    out = {}
    for name, z in symbols.items():
        try:
            if isinstance(z, z3.FuncDeclRef):
                # sample the function on a small window; concretisation happens in replay with real sizes
                fi = model[z]
                out[name] = {"__func__": True, "as_text": str(fi)[:2000]}
                vals = {}
                for i in range(-2, 14):
                    try:
                        vals[str(i)] = _val(model.eval(z(z3.IntVal(i)), model_completion=True))
                    except Exception:
                        break
                out[name]["samples"] = vals
            else:
                out[name] = _val(model.eval(z, model_completion=True))
        except Exception as e:  # pragma: no cover
            out[name] = f"<{e}>"
    return out


def _val(v):
    if z3.is_true(v):
        return True
    if z3.is_false(v):
        return False
    if z3.is_int_value(v):
        return v.as_long()
    if z3.is_rational_value(v):
        n, d = v.numerator_as_long(), v.denominator_as_long()
        return n / d if d != 1 else float(n)
    if z3.is_algebraic_value(v):
        return float(v.approx(12).as_fraction())
    return str(v)


def discharge(ob: Obligation, pc, formula, symbols, timeout_ms, use_cvc5=True, want_smt2=False):
    t0 = time.time()
    s = z3.Solver()
    s.set("timeout", timeout_ms)
    neg = z3.Not(formula)
    axioms = tz.exp_axioms(list(pc) + [formula])
    for a in pc:
        s.add(a)
    for a in axioms:
        s.add(a)
    s.add(neg)
    if want_smt2:
        try:
            ob.smt2 = s.to_smt2()[:6000]
        except Exception:
            ob.smt2 = None
    r = sym.hard_check(s, timeout_ms=timeout_ms)
    ob.backend = "z3-" + z3.get_version_string()
    if r == z3.unsat:
        ob.status = "proved"
    elif r == z3.sat:
        ob.status = "refuted"
        try:
            ob.model = _model_to_dict(s.model(), symbols)
        except Exception as e:  # pragma: no cover
            ob.model = {"error": str(e)}
    else:
        ob.status = "unknown"
        ob.note = s.reason_unknown()
        if use_cvc5:
            res = _cvc5_check(s, timeout_ms)
            if res == "unsat":
                ob.status = "proved"
                ob.backend = "cvc5"
            elif res == "sat":
                # a cvc5 'sat' carries no z3 model here; keep it undecided but flagged
                ob.note += " | cvc5: sat (no model extracted)"
    ob.time_s = round(time.time() - t0, 4)
    return ob


def _cvc5_check(solver, timeout_ms):
    try:
        import cvc5
    except Exception:
        return None
    try:
        smt = solver.to_smt2()
        slv = cvc5.Solver()
        slv.setOption("tlimit-per", str(timeout_ms))
        slv.setOption("nl-ext-tplanes", "true")
        slv.setLogic("ALL")
        parser = cvc5.InputParser(slv)
        parser.setStringInput(cvc5.InputLanguage.SMT_LIB_2_6, smt, "vc")
        sm = parser.getSymbolManager()
        res = None
        while True:
            cmd = parser.nextCommand()
            if cmd.isNull():
                break
            out = cmd.invoke(slv, sm)
            if "unsat" in out:
                res = "unsat"
            elif "sat" in out and "unsat" not in out:
                res = "sat"
        return res
    except Exception:
        return None


# ----------------------------------------------------------------------- verification of one contract
@dataclass
class ContractResult:
    prop: str
    name: str
    functions: list = field(default_factory=list)
    obligations: list = field(default_factory=list)
    paths: int = 0
    status: str = "ok"  # ok | unsupported | error
    reason: str = ""
    inlined: list = field(default_factory=list)
    trusted: list = field(default_factory=list)
    summaries: list = field(default_factory=list)
    wall_s: float = 0.0
    undecided_branches: int = 0


def verify_contract(cdef: ContractDef, timeout_ms=10000, want_smt2=1, stop_on_refuted=False) -> ContractResult:
    t0 = time.time()
    res = ContractResult(cdef.prop, cdef.name)
    try:
        for file, qn in cdef.targets:
            res.functions.append(repo.find_function(file, qn).describe())
    except (repo.ExtractionError, SyntaxError, FileNotFoundError) as e:
        res.status = "unsupported"
        res.reason = f"extraction: {e}"
        res.wall_s = round(time.time() - t0, 3)
        return res
    sym.reset_mod_caches()
    ex = Explorer(budget_s=(60 if stop_on_refuted else (None if timeout_ms <= 10000 else 900)))
    interp_box = {}
    smt_budget = [want_smt2]

    def run_path():
        interp = Interp()
        interp_box["i"] = interp
        tz.LAYOUT_FREE[0] = False
        tz.LOG_DEFINEDNESS[0] = False
        case = Case(cdef, ex, interp, ex.npaths)
        try:
            cdef.fn(case)
        except _PathDone:
            pass
        except SymRaise as e:
            # exception escaped the contract function itself (outside c.outcome): unexpected
            case.pending.append(("noexc", f"unexpected_exception[{e.exc_name}]", z3.BoolVal(False), list(ex.pc)))
            case.info["exception_detail"] = e.detail
        except (Unsupported, PathAbort, RecursionError):
            raise
        except (AttributeError, TypeError, KeyError, IndexError, ValueError) as e:
            # the postcondition could not even be evaluated on the value the real code produced (e.g. None where a
            # tensor is specified): the clause is false on this (feasible) path
            case.pending.append(("ensure", f"postcondition_not_evaluable[{type(e).__name__}]", z3.BoolVal(False), list(ex.pc)))
            case.info["exception_detail"] = f"{type(e).__name__}: {e}"[:200]
        for lab, f, pc in ex.side_obligations:
            case.pending.append(("safety", lab, f, pc))
        return case

    try:
        paths = ex.explore(run_path)
    except Unsupported as e:
        res.status = "unsupported"
        res.reason = f"Unsupported: {e}"
        if os.environ.get("PYVC_DEBUG"):
            traceback.print_exc()
        res.wall_s = round(time.time() - t0, 3)
        return res
    except RecursionError:
        res.status = "unsupported"
        res.reason = "python recursion limit in executor"
        res.wall_s = round(time.time() - t0, 3)
        return res
    res.paths = len(paths)
    res.undecided_branches = ex.undecided_branches
    seen_inl, seen_tr, seen_sum = set(), set(), set()
    for idx, _dec, case in paths:
        it = case.interp
        seen_inl |= it.inlined
        seen_tr |= it.used_trusted
        seen_sum |= it.used_summaries
        counts = {}
        for kind, label, formula, pc in case.pending:
            n = counts.get(label, 0)
            counts[label] = n + 1
            lab = label if n == 0 else f"{label}#{n}"
            ob = Obligation(cdef.prop, cdef.name, lab, idx, kind)
            if stop_on_refuted and any(o.kind != "canary" and o.status == "refuted" for o in res.obligations):
                break
            if time.time() > ex.deadline + (30 if stop_on_refuted else 120):
                ob.status = "unknown"
                ob.note = "per-contract time budget exhausted before discharge"
                res.obligations.append(ob)
                continue
            want = smt_budget[0] > 0
            discharge(ob, pc, formula, case.symbols, timeout_ms, want_smt2=want)
            if want and ob.smt2:
                smt_budget[0] -= 1
            if case.info:
                ob.note = (ob.note + " " if ob.note else "") + "case=" + ",".join(f"{k}={v}" for k, v in case.info.items() if not k.startswith("_"))
            res.obligations.append(ob)
    targets = set(cdef.targets)
    res.inlined = sorted(f"{f}:{q}" for f, q in seen_inl if (f, q) not in targets)
    res.trusted = sorted(f"{f}:{q}" for f, q in seen_tr)
    res.summaries = sorted(f"{f}:{q}" for f, q in seen_sum)
    res.wall_s = round(time.time() - t0, 3)
    return res


def verify_contract_safe(cdef, timeout_ms=10000, stop_on_refuted=False):
    try:
        return verify_contract(cdef, timeout_ms, stop_on_refuted=stop_on_refuted)
    except Exception as e:  # checker crash is never a violation
        r = ContractResult(cdef.prop, cdef.name, status="error", reason=f"{type(e).__name__}: {e}\n{traceback.format_exc()[-1500:]}")
        return r
