"""./check driver: runs the contracts of one property on /repo's current working tree, self-tests,
bounded stand-ins, replay of counterexamples, known-findings matching, evidence writing.

exit 0  property held on everything explored (possibly with KNOWN-FINDING lines)
exit 1  violation (VIOLATION property=<id> replay=<path>)
exit 3  checker broken (self-test failure, zero obligations, crash) -- never a property violation
"""
from __future__ import annotations

import argparse
import hashlib
import importlib
import json
import multiprocessing as mp
import os
import re
import sys
import time
import traceback

ROOT = os.path.dirname(os.path.dirname(os.path.abspath(__file__)))
sys.path.insert(0, ROOT)

from pyvc import repo  # noqa: E402
from pyvc import harness  # noqa: E402

PROP_MODULES = {
    "C01": ["contracts.c01_ring"],
}


def prop_modules(pid):
    import contracts

    return getattr(contracts, "PROP_MODULES", PROP_MODULES).get(pid, [])


def load_contracts(pid):
    for m in prop_modules(pid):
        importlib.import_module(m)
    return harness.REGISTRY.get(pid, [])


# ----------------------------------------------------------------------- worker
def _run_contract(args):
    pid, idx, timeout_ms, override = args
    try:
        if override:
            repo.set_source_override(override[0], override[1])
        cds = load_contracts(pid)
        cd = cds[idx]
        res = harness.verify_contract_safe(cd, timeout_ms, stop_on_refuted=bool(override))
        return _res_to_dict(res)
    except Exception as e:  # pragma: no cover
        return {"prop": pid, "name": f"#{idx}", "status": "error", "reason": f"{type(e).__name__}: {e}\n{traceback.format_exc()[-1200:]}", "obligations": [], "functions": [], "paths": 0, "inlined": [], "trusted": [], "summaries": [], "wall_s": 0, "undecided_branches": 0}
    finally:
        if override:
            repo.set_source_override(override[0], None)


def _res_to_dict(res):
    d = {k: getattr(res, k) for k in ("prop", "name", "functions", "paths", "status", "reason", "inlined", "trusted", "summaries", "wall_s", "undecided_branches")}
    d["obligations"] = [
        {"id": o.oid, "label": o.label, "path": o.path, "kind": o.kind, "status": o.status, "backend": o.backend, "time_s": o.time_s, "model": o.model, "smt2": o.smt2, "note": o.note}
        for o in res.obligations
    ]
    return d


def _child(conn, task):
    try:
        conn.send(_run_contract(task))
    except Exception as e:  # pragma: no cover
        try:
            conn.send({"prop": task[0], "name": f"#{task[1]}", "status": "error", "reason": f"{type(e).__name__}: {e}", "obligations": [], "functions": [], "paths": 0, "inlined": [], "trusted": [], "summaries": [], "wall_s": 0, "undecided_branches": 0})
        except Exception:
            pass
    finally:
        conn.close()


def run_tasks(tasks, jobs, hard_timeout_s):
    """One forked process per task, at most ``jobs`` at a time, each killed after ``hard_timeout_s`` of wall clock
    (z3 does not always honour its own timeout).  A killed or crashed task yields status 'unsupported' (undecided),
    never a violation."""
    ctx = mp.get_context("fork")
    results = [None] * len(tasks)
    pending = list(enumerate(tasks))
    running = {}
    while pending or running:
        while pending and len(running) < max(1, jobs):
            i, t = pending.pop(0)
            pr, pw = ctx.Pipe(duplex=False)
            p = ctx.Process(target=_child, args=(pw, t))
            p.daemon = True
            p.start()
            pw.close()
            running[i] = (p, pr, time.time(), t)
        done = []
        for i, (p, pr, t0, t) in running.items():
            got = None
            try:
                if pr.poll(0):
                    got = pr.recv()
            except (EOFError, OSError):
                got = None
                if not p.is_alive():
                    got = {"_dead": True}
            if got is None and not p.is_alive() and not pr.poll(0):
                got = {"_dead": True}
            if got is None and time.time() - t0 > hard_timeout_s:
                p.terminate()
                got = {"_timeout": True}
            if got is not None:
                if got.get("_dead") or got.get("_timeout"):
                    why = "hard wall-clock limit reached (solver did not return)" if got.get("_timeout") else "worker process died"
                    got = {"prop": t[0], "name": f"#{t[1]}", "status": "unsupported", "reason": why, "obligations": [], "functions": [], "paths": 0, "inlined": [], "trusted": [], "summaries": [], "wall_s": round(time.time() - t0, 1), "undecided_branches": 0, "_task": t[1]}
                results[i] = got
                done.append(i)
        for i in done:
            p, pr, _t0, _t = running.pop(i)
            try:
                pr.close()
            except Exception:
                pass
            p.join(timeout=1)
        if not done:
            time.sleep(0.05)
    return results


def run_contracts(pid, idxs, timeout_ms, jobs, override=None, hard_timeout_s=None):
    tasks = [(pid, i, timeout_ms, override) for i in idxs]
    if hard_timeout_s is None:
        hard_timeout_s = 900 if timeout_ms <= 10000 else 2400
    res = run_tasks(tasks, jobs, hard_timeout_s)
    cds = load_contracts(pid)
    for r, t in zip(res, tasks):
        if r.get("name", "").startswith("#"):
            r["name"] = cds[t[1]].name
    return res


# ----------------------------------------------------------------------- known findings
def load_known_findings(pid):
    path = os.path.join(ROOT, "known_findings.txt")
    out = {"finding": [], "fixed": []}
    if not os.path.exists(path):
        return out
    for line in open(path):
        line = line.strip()
        if not line or line.startswith("#"):
            continue
        m = re.match(r"^(finding|fixed):\s+property=(\S+)\s+(.*)$", line)
        if not m or m.group(2) != pid:
            continue
        kind, _, rest = m.groups()
        ent = {"raw": line, "text": rest}
        mo = re.search(r"obligation=(\S+)", rest)
        if mo:
            ent["obligation"] = mo.group(1)
        mw = re.search(r"witness=\{(.*?)\}", rest)
        if mw:
            ent["witness"] = mw.group(1)
        out[kind].append(ent)
    return out


def match_finding(findings, contract_name, label, model):
    """A refuted obligation is a known finding iff an entry names contract/label (prefix) and its witness predicate
    (a python expression over the counter-model's symbols) holds for the model."""
    for f in findings:
        ob = f.get("obligation")
        if not ob:
            continue
        cname, _, lab = ob.partition("/")
        if cname != contract_name:
            continue
        if lab and not (label == lab or label.startswith(lab + "#") or label.startswith(lab + "[")):
            continue
        w = f.get("witness")
        if w:
            try:
                env = {k: v for k, v in (model or {}).items() if isinstance(k, str) and k.isidentifier()}
                if not eval(w, {"__builtins__": {}}, env):
                    continue
            except Exception:
                continue
        return f
    return None


# ----------------------------------------------------------------------- mutants (in-memory self-test)
def apply_mutant(mut):
    """mut = dict(file, func (qualname or None), old, new). Textual replacement inside the function's source
    segment (must match exactly once) -> new file source, or None when stale."""
    if mut.get("edits"):
        # several cooperating hunks in one file: apply them one after another on the in-memory source
        src = repo.read_source(mut["file"])
        try:
            for e in mut["edits"]:
                one = dict(file=mut["file"], func=e.get("func"), old=e["old"], new=e["new"])
                repo.set_source_override(mut["file"], src)
                nxt = apply_mutant(one)
                if nxt is None:
                    return None
                src = nxt
        finally:
            repo.set_source_override(mut["file"], None)
        return src
    src = repo.read_source(mut["file"])
    if mut.get("func"):
        try:
            fi = repo.find_function(mut["file"], mut["func"])
        except Exception:
            return None
        lines = src.split("\n")
        seg = "\n".join(lines[fi.node.lineno - 1: fi.node.end_lineno])
        if seg.count(mut["old"]) != 1:
            return None
        seg2 = seg.replace(mut["old"], mut["new"])
        new = "\n".join(lines[: fi.node.lineno - 1] + seg2.split("\n") + lines[fi.node.end_lineno:])
    else:
        if src.count(mut["old"]) != 1:
            return None
        new = src.replace(mut["old"], mut["new"])
    try:
        import ast

        ast.parse(new)
    except SyntaxError:
        return None
    return new


def violated(res_dicts):
    """Non-canary obligations that are refuted."""
    out = []
    for r in res_dicts:
        for o in r["obligations"]:
            if o["kind"] != "canary" and o["status"] == "refuted":
                out.append((r, o))
    return out


# ----------------------------------------------------------------------- main
def main(argv=None):
    ap = argparse.ArgumentParser()
    ap.add_argument("prop")
    ap.add_argument("--tier", default=os.environ.get("VERIF_TIER", "quick"), choices=["quick", "thorough"])
    ap.add_argument("--replay")
    ap.add_argument("--only")
    ap.add_argument("--no-selftest", action="store_true")
    ap.add_argument("--no-native", action="store_true")
    ap.add_argument("--jobs", type=int, default=int(os.environ.get("VERIF_JOBS", "16")))
    args = ap.parse_args(argv)
    pid = args.prop
    seed = int(os.environ.get("VERIF_SEED", "0"))
    tier = args.tier
    t0 = time.time()
    try:
        return _main(pid, tier, seed, args, t0)
    except SystemExit:
        raise
    except Exception:
        traceback.print_exc()
        print(f"CHECKER-ERROR property={pid} (not a violation)")
        _write_evidence(pid, tier, seed, t0, None, error=traceback.format_exc()[-2000:])
        return 3


def _native_module(pid):
    try:
        return importlib.import_module(f"native.{pid.lower()}")
    except ModuleNotFoundError as e:
        if e.name and e.name.startswith("native"):
            return None
        raise


def _main(pid, tier, seed, args, t0):
    if args.replay:
        return do_replay(pid, args.replay)
    timeout_ms = 10000 if tier == "quick" else 60000
    cds = load_contracts(pid)
    if args.only:
        idxs = [i for i, c in enumerate(cds) if args.only in c.name]
    else:
        idxs = list(range(len(cds)))
    if not idxs:
        print(f"CHECKER-ERROR property={pid}: no contracts registered")
        _write_evidence(pid, tier, seed, t0, None, error="no contracts")
        return 3
    results = run_contracts(pid, idxs, timeout_ms, args.jobs)
    kf = load_known_findings(pid)
    native = None if args.no_native else _native_module(pid)

    broken = []
    violations = []
    known = []
    undecided = []
    unsupported = []
    n_ob = n_proved = 0
    canaries = {"expected": 0, "refuted": 0}
    by_backend = {}
    solver_time = 0.0
    for r, cd in zip(results, [cds[i] for i in idxs]):
        if r["status"] == "error":
            broken.append(f"{r['name']}: {r['reason'][:400]}")
            continue
        if r["status"] == "unsupported":
            unsupported.append({"contract": r["name"], "reason": r["reason"]})
            continue
        real = [o for o in r["obligations"] if o["kind"] != "canary"]
        if len(real) < cd.min_obligations:
            broken.append(f"{r['name']}: only {len(real)} obligations generated (< {cd.min_obligations}): vacuous")
        cans = [o for o in r["obligations"] if o["kind"] == "canary"]
        labels = {}
        for o in cans:
            labels.setdefault(o["label"].split("#")[0], []).append(o["status"])
        for lab, sts in labels.items():
            canaries["expected"] += 1
            if "refuted" in sts:
                canaries["refuted"] += 1
            elif "proved" in sts:
                broken.append(f"{r['name']}: canary '{lab}' was not refuted on any path (executor proves a false claim)")
            else:
                # neither refuted nor proved (solver budget on a loaded machine): vacuity is not established
                canaries["undecided"] = canaries.get("undecided", 0) + 1
        for o in real:
            solver_time += o["time_s"]
            by_backend[o["backend"]] = by_backend.get(o["backend"], 0) + 1
            if o["status"] == "proved":
                n_ob += 1
                n_proved += 1
            elif o["status"] == "refuted":
                f = match_finding(kf["finding"], r["name"], o["label"], o["model"])
                if f is not None:
                    known.append({"obligation": o["id"], "finding": f["raw"], "model": o["model"]})
                else:
                    n_ob += 1
                    violations.append((r, o, cd))
            else:
                n_ob += 1
                undecided.append({"obligation": o["id"], "note": o["note"]})

    # ---- self-tests: in-memory mutants
    mutants_report = []
    if not args.no_selftest and not args.only:
        muts = []
        for m in prop_modules(pid):
            muts.extend(getattr(importlib.import_module(m), "MUTANTS", []))
        if tier == "quick":
            muts = [m for m in muts if m.get("quick", True)][: int(os.environ.get("VERIF_QUICK_MUTANTS", "12"))]
        mutants_report = run_mutants(pid, cds, muts, timeout_ms, args.jobs, results)
        for mr in mutants_report:
            if mr["expect"] == "killed" and mr["outcome"] == "survived":
                broken.append(f"mutant survived (contract too weak): {mr['name']}")
            if mr["expect"] == "survives" and mr["outcome"] == "killed":
                broken.append(f"harmless-edit control was flagged: {mr['name']} by {mr.get('killed_by')}")

    # ---- bounded stand-ins / native cross-check (labelled bounded, never counted as proved)
    bounded = []
    native_fail = []
    if native is not None and hasattr(native, "sweep"):
        try:
            rep = native.sweep(tier=tier, seed=seed, unsupported=[u["contract"] for u in unsupported])
            bounded = rep.get("standins", [])
            for f in rep.get("failures", []):
                fk = match_native_finding(kf["finding"], f)
                if fk is not None:
                    known.append({"native": f.get("what"), "finding": fk["raw"], "input": f.get("input")})
                else:
                    native_fail.append(f)
        except Exception:
            broken.append("native harness crashed: " + traceback.format_exc()[-800:])

    # ---- induction lemmas (Lean 4): the meta-arguments from per-step contracts to whole histories
    lean_report = run_lean(pid, tier)
    for lr in lean_report:
        if lr["status"] == "proved":
            n_ob += 1
            n_proved += 1
            by_backend[lr["backend"]] = by_backend.get(lr["backend"], 0) + 1
        elif lr["status"] == "skipped":
            pass
        elif lr["status"] == "error":
            broken.append(f"lean lemma {lr['theorem']} ({lr['file']}) is not accepted: {lr.get('detail', '')[:300]}")
        else:
            undecided.append({"obligation": f"{pid}/lean/{lr['theorem']}", "note": lr.get("detail", "")[:200]})

    # ---- violations: replay each counter-model on the real code
    out_lines = []
    replay_dir = os.path.join(ROOT, "replays")
    nviol = 0
    seen_sig = set()
    for r, o, cd in violations:
        sig = (r["name"], o["label"].split("#")[0])
        if sig in seen_sig:
            continue
        seen_sig.add(sig)
        rp = {"property": pid, "obligation": o["id"], "contract": r["name"], "functions": r["functions"], "kind": o["kind"],
              "solver": {"backend": o["backend"], "verdict": "sat", "time_s": o["time_s"], "model": o["model"]}, "note": o["note"], "smt2": o.get("smt2")}
        reproduced = None
        if native is not None and hasattr(native, "replay"):
            try:
                rr = native.replay(r["name"], o["label"], o["model"] or {}, o["note"])
                if rr is not None:
                    fl = rr.get("failure")
                    if rr.get("reproduced") and isinstance(fl, dict) and match_native_finding(kf["finding"], fl) is not None:
                        # the replayer's search ran into a LISTED known finding: that input does not witness this
                        # obligation, so it must not be reported as its reproduction
                        rr = dict(rr, reproduced=False, note_replay="the only failing input found is a listed known finding (" + str(fl.get("what")) + "), not a witness of this obligation")
                    rp.update(rr)
                    reproduced = rr.get("reproduced")
            except Exception:
                rp["replay_error"] = traceback.format_exc()[-800:]
        rp["reproduced"] = bool(reproduced)
        os.makedirs(replay_dir, exist_ok=True)
        h = hashlib.sha256(o["id"].encode()).hexdigest()[:8]
        fn = os.path.join(replay_dir, f"{pid}-{re.sub(r'[^A-Za-z0-9_.]+', '_', r['name'])}-{o['label'].split('#')[0][:40].replace('/', '_')}-{h}.json")
        rp["replay_cmd"] = f"./check {pid} --replay {os.path.relpath(fn, ROOT)}"
        with open(fn, "w") as fh:
            json.dump(rp, fh, indent=1, default=str)
        nviol += 1
        out_lines.append(f"VIOLATION property={pid} replay={fn}" + ("" if reproduced else " no-failing-input-found"))
    for f in native_fail:
        os.makedirs(replay_dir, exist_ok=True)
        h = hashlib.sha256(json.dumps(f, default=str, sort_keys=True).encode()).hexdigest()[:8]
        fn = os.path.join(replay_dir, f"{pid}-native-{h}.json")
        f2 = dict(f)
        f2.update({"property": pid, "obligation": f"{pid}/bounded/{f.get('what')}", "reproduced": True, "replay_cmd": f"./check {pid} --replay {os.path.relpath(fn, ROOT)}"})
        with open(fn, "w") as fh:
            json.dump(f2, fh, indent=1, default=str)
        nviol += 1
        out_lines.append(f"VIOLATION property={pid} replay={fn}")

    seen_kf = set()
    for k in known:
        what = k.get("obligation") or k.get("native")
        if k["finding"] in seen_kf:
            continue
        seen_kf.add(k["finding"])
        out_lines.append(f"KNOWN-FINDING: property={pid} {what} :: {k['finding']}")

    # ---- evidence
    samples = []
    for r in results:
        for o in r["obligations"]:
            if o.get("smt2") and len(samples) < 3:
                samples.append({"obligation": o["id"], "verdict": o["status"], "backend": o["backend"], "time_s": o["time_s"], "smt2_head": o["smt2"][:1500]})
    if not samples:
        for r in results:
            for o in r["obligations"][:2]:
                samples.append({"obligation": o["id"], "verdict": o["status"], "backend": o["backend"], "time_s": o["time_s"]})
    functions = []
    for r in results:
        functions.append({"contract": r["name"], "status": r["status"], "reason": r["reason"][:300], "functions": r["functions"], "paths": r["paths"],
                          "obligations": len([o for o in r["obligations"] if o["kind"] != "canary"]),
                          "inlined_callees": r["inlined"], "trusted_callees": r["trusted"], "contract_callees": r["summaries"], "wall_s": r["wall_s"]})
    cov = {
        "obligations": n_ob,
        "discharged": n_proved,
        "checker_cmd": f"./check {pid} --tier {tier}",
        "trusted_base": trusted_base(pid, results),
        "samples": samples,
        "functions_under_contract": functions,
        "backends": by_backend,
        "solver_time_s": round(solver_time, 3),
        "vacuity": {"canaries_expected": canaries["expected"], "canaries_refuted": canaries["refuted"], "canaries_undecided": canaries.get("undecided", 0)},
        "mutants": mutants_report,
        "undecided": undecided,
        "out_of_reach": unsupported,
        "bounded_standins": bounded,
        "known_finding_obligations": known,
        "violations": [o["id"] for _r, o, _c in violations] + [f.get("what") for f in native_fail],
        "repo_root": repo.REPO,
        "lean_lemmas": lean_report,
    }
    ok_proof = n_ob >= 1 and not broken
    _write_evidence(pid, tier, seed, t0, cov, nviol=nviol, broken=broken, pid_assumptions=assumptions(pid))
    for l in out_lines:
        print(l)
    print(f"[{pid}] obligations={n_ob} discharged={n_proved} undecided={len(undecided)} out_of_reach={len(unsupported)} known={len(known)} violations={nviol} "
          f"mutants={sum(1 for m in mutants_report if m['outcome']=='killed')}/{len(mutants_report)} wall={round(time.time()-t0,1)}s")
    for u in unsupported:
        print(f"[{pid}] out of reach (bounded stand-in only): {u['contract']}: {u['reason'][:200]}")
    for u in undecided[:10]:
        print(f"[{pid}] undecided: {u['obligation']} {u['note'][:100]}")
    if nviol:
        return 1
    if broken or not ok_proof:
        for b in broken:
            print(f"CHECKER-ERROR property={pid}: {b}")
        if n_ob < 1:
            print(f"CHECKER-ERROR property={pid}: zero obligations")
        return 3
    return 0


def match_native_finding(findings, failure):
    for f in findings:
        mo = re.search(r"native=(\S+)", f["text"])
        if mo and failure.get("what", "").startswith(mo.group(1)):
            w = f.get("witness")
            if w:
                try:
                    if not eval(w, {"__builtins__": {}}, dict(failure.get("input", {}))):
                        continue
                except Exception:
                    continue
            return f
    return None


def run_mutants(pid, cds, muts, timeout_ms, jobs, base_results):
    """Each mutant: re-verify the contracts that target the mutated function with the mutated source installed in memory."""
    report = []
    base_bad = {(r["name"], o["label"]) for r in base_results for o in r["obligations"] if o["kind"] != "canary" and o["status"] == "refuted"}
    base_unsup = {r["name"] for r in base_results if r["status"] != "ok"}
    tasks = []
    for m in muts:
        new = apply_mutant(m)
        name = m.get("name") or f"{m['file']}:{m.get('func')}: {m.get('old')!r} -> {m.get('new')!r}"
        expect = m.get("expect", "killed")
        if new is None:
            report.append({"name": name, "expect": expect, "outcome": "stale"})
            continue
        idxs = [i for i, c in enumerate(cds) if any(t[0] == m["file"] and (m.get("func") is None or t[1] == m["func"] or m["func"] in m.get("also", [])) for t in c.targets) or c.name in m.get("contracts", [])]
        if m.get("contracts"):
            idxs = [i for i, c in enumerate(cds) if c.name in m["contracts"]]
        if not idxs:
            report.append({"name": name, "expect": expect, "outcome": "no-contract"})
            continue
        tasks.append((m, name, expect, new, idxs))
    flat = []
    for ti, (m, name, expect, new, idxs) in enumerate(tasks):
        for i in idxs:
            flat.append((ti, (pid, i, timeout_ms, (m["file"], new))))
    if flat:
        outs = run_tasks([f[1] for f in flat], jobs, 150)
        for o, f in zip(outs, flat):
            if o.get("name", "").startswith("#"):
                o["name"] = cds[f[1][1]].name
    else:
        outs = []
    per = {}
    for (ti, _), o in zip(flat, outs):
        per.setdefault(ti, []).append(o)
    for ti, (m, name, expect, new, idxs) in enumerate(tasks):
        killed_by = []
        demoted = []
        unknowns = []
        for r in per.get(ti, []):
            if r["status"] != "ok":
                # out of reach under the mutant - or already out of reach on the tree under test (then nothing about
                # this contract's strength can be concluded from the mutant)
                demoted.append(f"{r['name']}: {r['reason'][:120]}" + (" (base contract out of reach too)" if r["name"] in base_unsup else ""))
                continue
            for o in r["obligations"]:
                if o["kind"] != "canary" and o["status"] == "refuted" and (r["name"], o["label"]) not in base_bad:
                    killed_by.append(o["id"])
                elif o["kind"] != "canary" and o["status"] not in ("proved", "refuted"):
                    unknowns.append(o["id"])
        # a mutant whose obligations could not be decided (solver budget, loaded machine) is NOT a surviving mutant
        outcome = "killed" if killed_by else ("out-of-reach" if demoted else ("undecided" if unknowns else "survived"))
        report.append({"name": name, "expect": expect, "outcome": outcome, "killed_by": killed_by[:3], "demoted": demoted[:2]})
    return report


LEAN_LEMMAS = {
    # property -> [(file, theorem, what it lifts)]
    "C01": [("lean/Induction.lean", "refinement_fold", "per-operation refinement of M(k) => every finite operation sequence refines the list model")],
    "C05": [("lean/Induction.lean", "invariant_fold", "diagonal invariant re-established by every assignment => holds after every assignment / update history")],
    "C06": [("lean/Induction.lean", "delay_is_time_shift", "newest-sample + history-shift + rest-state step contracts => the sample k steps back is the value of step t-k (rest before the start)")],
    "C07": [("lean/ClosedForms.lean", "cumulative_trace_closed_form", "one-step recurrence => sum over past matching events of amplitude*decay^age"),
            ("lean/ClosedForms.lean", "nearest_trace_closed_form", "no event yet => nearest trace is 0"),
            ("lean/ClosedForms.lean", "nearest_trace_since_last", "one-step recurrence => amplitude*decay^(steps since the last event)")],
    "C08": [("lean/ClosedForms.lean", "pair_sum", "per-step term spike x trace + trace recurrence => documented sum over spike pairs")],
    "C10": [("lean/Induction.lean", "invariant_fold", "one bounded update keeps the parameter in range => any update history does")],
    "C11": [("lean/Induction.lean", "batch_projection_fold", "per-step batch projection => whole input sequences")],
    "C13": [("lean/Induction.lean", "refinement_fold", "per-setter refinement => any sequence of reconfigurations")],
    "C19": [("lean/ClosedForms.lean", "prefix_sum_gap", "offline refractory raster: every interval >= rho (proved on the real code at an arbitrary bin) => cumulative times k bins apart differ by >= k*rho"),
            ("lean/ClosedForms.lean", "prefix_sum_lower", "offline refractory raster: cumulative times are >= (bin + 1)*rho, in particular never negative"),
            ("lean/Induction.lean", "invariant_fold", "online encoders: invariant at loop entry + preserved by one arbitrary iteration of the real loop body => holds at every iteration, for any number of steps")],
    "C20": [("lean/Induction.lean", "grid_invariant", "Victor-Purpura table: invariant on row 0 / column 0 + per-cell step on the real loop body => invariant on every cell, so on the returned cell")],
    "C15": [("lean/Induction.lean", "invariant_fold", "representation invariant re-established by every operation => holds after every operation sequence")],
}
_LEAN_CACHE = {}


def run_lean(pid, tier):
    """Check the Lean files cited by this property (one `lean` run per file per process) and read the axioms each
    theorem depends on from the `#print axioms` lines.  A missing `lean`, a timeout or an unavailable Mathlib is
    `undecided`; an error or a `sorry` is a checker error."""
    import shutil
    import subprocess

    out = []
    for file, thm, what in LEAN_LEMMAS.get(pid, []):
        path = os.path.join(ROOT, file)
        if tier == "quick" and file.endswith("ClosedForms.lean") and not os.environ.get("VERIF_LEAN_MATHLIB"):
            # needs `import Mathlib` (up to ~2 min on a cold cache): thorough tier only
            out.append({"file": file, "theorem": thm, "lifts": what, "backend": "lean-4", "status": "skipped", "detail": "Mathlib lemma: checked in the thorough tier"})
            continue
        if file not in _LEAN_CACHE:
            exe = shutil.which("lean")
            if exe is None or not os.path.exists(path):
                _LEAN_CACHE[file] = ("undecided", "lean not available", "")
            else:
                try:
                    t0 = time.time()
                    pr = subprocess.run([exe, path], capture_output=True, text=True, timeout=900)
                    txt = pr.stdout + pr.stderr
                    if pr.returncode != 0 or "error" in txt.lower():
                        # an import failure (Mathlib not loadable) is an environment limit, not a refuted lemma
                        st = "undecided" if "unknown module prefix" in txt or "object file" in txt else "error"
                        _LEAN_CACHE[file] = (st, txt[-600:], "")
                    else:
                        _LEAN_CACHE[file] = ("ok", txt, f"{time.time() - t0:.1f}s")
                except subprocess.TimeoutExpired:
                    _LEAN_CACHE[file] = ("undecided", "lean timed out", "")
        st, txt, tm = _LEAN_CACHE[file]
        rec = {"file": file, "theorem": thm, "lifts": what, "backend": "lean-4", "time": tm}
        if st == "ok":
            m = re.search(r"'" + re.escape(thm) + r"' (does not depend on any axioms|depends on axioms: \[([^\]]*)\])", txt)
            if m is None:
                rec.update(status="error", detail="theorem not found in lean output")
            elif m.group(2) and "sorryAx" in m.group(2):
                rec.update(status="error", detail="depends on sorry")
            else:
                rec.update(status="proved", axioms=(m.group(2) or "none"))
        else:
            rec.update(status=st, detail=txt)
        out.append(rec)
    return out


def trusted_base(pid, results):
    tb = [
        "A1 floats/floating tensors are mathematical reals (no rounding, inf, nan except explicit NaN flags)",
        "A2 torch/einops/math library rules of pyvc/models.py, pyvc/torchmodel.py, pyvc/tensor.py (assumed contracts on dependencies)",
        "A3 Python-subset semantics as implemented by pyvc/interp.py (self-tested by canaries and in-memory mutants)",
        "A5 z3 5.1 / cvc5 1.4 soundness",
        "A6 single device, no autograd",
    ]
    tr = sorted({t for r in results for t in r["trusted"]})
    if tr:
        tb.append("trusted repo functions (modelled, not verified): " + ", ".join(tr))
    return tb


def assumptions(pid):
    out = []
    for m in prop_modules(pid):
        out.extend(getattr(importlib.import_module(m), "ASSUMPTIONS", []))
    return out


def _write_evidence(pid, tier, seed, t0, cov, nviol=0, broken=None, error=None, pid_assumptions=None):
    os.makedirs(os.path.join(ROOT, "evidence"), exist_ok=True)
    if cov is None:
        cov = {"obligations": 0, "discharged": 0, "checker_cmd": f"./check {pid} --tier {tier}", "trusted_base": [], "samples": [], "explanation": "checker error: " + (error or "")}
    ev = {
        "property_id": pid,
        "tier": tier,
        "seed": seed,
        "level": "proof",
        "coverage": cov,
        "assumptions": (pid_assumptions or []) + ["see coverage.trusted_base"],
        "wall_s": round(time.time() - t0, 2),
        "violations": nviol,
    }
    if broken:
        ev["coverage"]["checker_errors"] = broken
    with open(os.path.join(ROOT, "evidence", f"{pid}.json"), "w") as fh:
        json.dump(ev, fh, indent=1, default=str)


def do_replay(pid, path):
    p = path if os.path.isabs(path) else os.path.join(ROOT, path)
    rp = json.load(open(p))
    native = _native_module(pid)
    if "input" in rp and native is not None and hasattr(native, "replay_native"):
        rr = native.replay_native(rp)
    elif native is not None and hasattr(native, "replay"):
        rr = native.replay(rp.get("contract"), rp.get("obligation", "").split("/")[-2] if rp.get("obligation") else "", (rp.get("solver") or {}).get("model") or {}, rp.get("note", ""))
    else:
        rr = None
    print(json.dumps(rr, indent=1, default=str))
    if rr and rr.get("reproduced"):
        print(f"VIOLATION property={pid} replay={p}")
        return 1
    print(f"[{pid}] replay did not reproduce a failing input on the current tree")
    return 0


if __name__ == "__main__":
    sys.exit(main())
