"""torch / torch.nn / einops namespaces for the symbolic executor (assumed library contracts, A2)."""
from __future__ import annotations

import z3

from . import tensor as tz
from .sym import SV, SymRaise, Unsupported, as_bool, cur, num, wrap
from .tensor import T


def _mkparam(data):
    if not isinstance(data, T):
        raise Unsupported("nn.Parameter of a non-tensor")
    r = data.clone()
    r.is_param = True
    return r


def _t(x):
    if isinstance(x, T):
        return x
    z = as_bool(x) if isinstance(x, bool) or (isinstance(x, SV) and x.is_bool) else num(x)
    return T(z, tz.tag_of_term(z))


def install(interp):
    from .interp import ExtType, Namespace
    from . import models

    class CallableType(ExtType):
        def __init__(self, name, ctor, bases=()):
            super().__init__(name, bases)
            self.ctor = ctor

        def __call__(self, *a, **k):
            return self.ctor(*a, **k)

    E = ExtType

    def unary(name):
        def f(x, *a, **k):
            if isinstance(x, T):
                return getattr(x, name)(*a, **k)
            x = _t(x)
            return getattr(x, name)(*a, **k)

        return f

    def t_exp(x):
        if isinstance(x, T):
            return x.exp()
        return SV(tz.f_exp(models._real(x)))

    def t_log(x):
        if isinstance(x, T):
            return x.log()
        return SV(tz.f_log(models._real(x)))

    def t_sqrt(x):
        if isinstance(x, T):
            return x.sqrt()
        return SV(tz.f_sqrt(models._real(x)))

    def t_where(c, a=None, b=None):
        if a is None:
            raise Unsupported("torch.where(cond)")
        return tz.where(c, a, b)

    def t_clamp(x, min=None, max=None):
        return x.clamp(min=min, max=max)

    def t_full(shape, fill=None, *, fill_value=None, dtype=None, device=None, layout=None, requires_grad=False, **kw):
        return tz.full(shape, fill if fill_value is None else fill_value, dtype=dtype)

    def t_zeros(*shape, dtype=None, device=None, layout=None, requires_grad=False, **kw):
        if len(shape) == 1 and not isinstance(shape[0], (int, SV)):
            shape = shape[0]
        return tz.full(shape, 0.0, dtype=dtype if dtype is not None else "float")

    def t_ones(*shape, dtype=None, device=None, layout=None, requires_grad=False, **kw):
        if len(shape) == 1 and not isinstance(shape[0], (int, SV)):
            shape = shape[0]
        return tz.full(shape, 1.0, dtype=dtype if dtype is not None else "float")

    def t_empty(*shape, dtype=None, device=None, layout=None, requires_grad=False, **kw):
        if len(shape) == 1 and not isinstance(shape[0], (int, SV)):
            shape = shape[0]
        shp = tz.mkshape(shape) if not isinstance(shape, int) else tz.Shape((shape,))
        if len(shp.items) == 1 and shp.items[0] == 0:
            r = T(lambda t: z3.RealVal(0), dtype if dtype is not None else "float", 0, "first", tz.Shape(()))
            r._numel = 0
            r.is_empty0 = True
            return r
        ex = cur()
        tag = tz.tag_of(dtype) if dtype is not None else "float"
        r = tz.full(shp, 0, dtype=tag)
        # contents arbitrary
        nm = ex.fresh_name("empty")
        if r.tlen is None:
            r.f = {"bool": z3.Bool, "int": z3.Int, "float": z3.Real}[tag](nm)
        else:
            fn = z3.Function(nm, z3.IntSort(), tz._sort_for(tag))
            r.f = lambda t: fn(t)
        return r

    def t_zeros_like(x, **kw):
        r = x._map(lambda v: tz.coerce(z3.IntVal(0), x.dtype), nan=None)
        return r

    def t_ones_like(x, **kw):
        return x._map(lambda v: tz.coerce(z3.IntVal(1), x.dtype), nan=None)

    def t_full_like(x, fill, **kw):
        zv = num(fill)
        return x._map(lambda v: tz.coerce(zv, x.dtype), nan=None)

    def t_tensor(data, dtype=None, device=None, requires_grad=False):
        if isinstance(data, (int, float, bool, SV)):
            r = _t(data)
            if dtype is not None:
                r = r.to(dtype=dtype)
            r.scalar_like = True
            r.eshape = tz.Shape(())
            return r
        if isinstance(data, (list, tuple)) and all(isinstance(v, (int, float, bool, SV)) for v in data):
            vals = [num(v) if not isinstance(v, bool) else z3.BoolVal(v) for v in data]
            tag = tz.tag_of(dtype) if dtype is not None else ("float" if any(z3.is_real(v) for v in vals) else ("bool" if vals and all(z3.is_bool(v) for v in vals) else "int"))
            vals = [tz.coerce(v, tag) for v in vals]
            if not vals:
                return t_empty(0, dtype=tag)

            def f(t, vals=vals):
                r = vals[-1]
                for i in range(len(vals) - 2, -1, -1):
                    r = z3.If(t == i, vals[i], r)
                return r

            r = T(f, tag, len(vals), "first", tz.Shape(()))
            r.pure_time = True
            return r
        raise Unsupported("torch.tensor of a nested sequence")

    def t_heaviside(x, values):
        v = _t(values)
        return tz.where(x > 0, _t(1.0).to(dtype=x.dtype), tz.where(x < 0, _t(0.0).to(dtype=x.dtype), v))

    def t_abs(x):
        return abs(x)

    def t_maximum(a, b):
        return tz.where(_t(a) >= _t(b), a, b)

    def t_minimum(a, b):
        return tz.where(_t(a) <= _t(b), a, b)

    def t_is_tensor(x):
        return isinstance(x, T)

    _eq_count = [0]

    def t_equal(a, b):
        """torch.equal: one boolean for the whole tensors.  The same tensor object (or the same value term) is equal to
        itself; otherwise a fresh boolean that, when true, forces the arbitrary elements to agree"""
        import z3 as _z3
        from .sym import SV as _SV, cur as _cur

        if not (isinstance(a, T) and isinstance(b, T)):
            raise Unsupported("torch.equal of non-tensors")
        if a is b:
            return True
        if a.tlen is None and b.tlen is None:
            try:
                if a.f.eq(b.f):
                    return True
            except Exception:
                pass
            _eq_count[0] += 1
            e = _z3.Bool(_cur().fresh_name("tensors_equal"))
            _cur().assume(_z3.Implies(e, tz.coerce(a.f, "float") == tz.coerce(b.f, "float")))
            return _SV(e)
        raise Unsupported("torch.equal of tensors with a time axis")

    def t_sign(x):
        return x.sign()

    def t_nan_to_num(x, nan=0.0, posinf=None, neginf=None):
        return x.nan_to_num(nan, posinf, neginf)

    def t_sum(x, dim=None, **kw):
        """Reduction over the trailing (adaptation) axis only: its value is an uninterpreted constant tied to the
        summed tensor object (the step contracts never depend on the value of the sum, only on its identity)."""
        if isinstance(x, T) and x.tlen is not None and x.taxis == "last" and dim == -1:
            key = getattr(x, "_sum_const", None)
            if key is None:
                key = z3.Real(f"sum_last[{x.name}]") if x.dtype == "float" else z3.Int(f"sum_last[{x.name}]")
                x._sum_const = key
            return T(key, x.dtype if x.dtype != "bool" else "int", None, None, x.eshape)
        if isinstance(x, T) and x.tlen is not None and x.taxis == "first" and dim == 0 and isinstance(x.tlen, int):
            tot = None
            for i in range(x.tlen):
                v = tz.coerce(x.f(z3.IntVal(i)), "float" if x.dtype == "float" else "int")
                tot = v if tot is None else tot + v
            return T(tot if tot is not None else z3.RealVal(0), x.dtype if x.dtype != "bool" else "int", None, None, x.eshape)
        raise Unsupported("torch.sum over a non-adaptation axis")

    def t_mean(x, dim=None, **kw):
        if isinstance(x, T) and x.tlen is not None and x.taxis == "first" and dim == 0 and isinstance(x.tlen, int) and x.tlen > 0:
            sm = t_sum(x, 0)
            return T(tz.coerce(sm.f, "float") / x.tlen, "float", None, None, x.eshape)
        raise Unsupported("torch.mean over this axis")

    def t_no_grad():
        raise Unsupported("torch.no_grad() outside a with statement")

    def _cmp(opname):
        """torch.lt / le / gt / ge / eq / ne (a, b, *, out=None): element-wise comparison; with ``out`` the result is written IN
        PLACE into that tensor object (every reference to it sees the new values) and the same object is returned"""
        import operator as _op

        fn = {"lt": _op.lt, "le": _op.le, "gt": _op.gt, "ge": _op.ge, "eq": _op.eq, "ne": _op.ne}[opname]

        def cmp(a, b, *, out=None):
            res = fn(a if isinstance(a, T) else _t(a), b)
            if out is None:
                return res
            if not isinstance(out, T) or not isinstance(res, T):
                raise Unsupported(f"torch.{opname}(out=...) on a non-tensor")
            out.f, out.dtype, out.nan = res.f, res.dtype, res.nan
            if res.tlen is not None or out.tlen is not None:
                out.tlen, out.taxis = res.tlen, res.taxis
            return out

        return cmp

    table = dict(
        lt=_cmp("lt"), le=_cmp("le"), gt=_cmp("gt"), ge=_cmp("ge"), less=_cmp("lt"), greater=_cmp("gt"),
        exp=t_exp, log=t_log, sqrt=t_sqrt, where=t_where, clamp=t_clamp, clip=t_clamp,
        clamp_min=lambda x, m: x.clamp_min(m), clamp_max=lambda x, m: x.clamp_max(m),
        logical_and=tz.logical_and, logical_or=tz.logical_or, logical_not=tz.logical_not,
        abs=t_abs, cat=tz.cat, concat=tz.cat, stack=tz.stack, tensor_split=tz.tensor_split, arange=tz.arange,
        gather=tz.gather, scatter=tz.scatter, full=t_full, zeros=t_zeros, ones=t_ones, empty=t_empty,
        zeros_like=t_zeros_like, ones_like=t_ones_like, full_like=t_full_like, tensor=t_tensor,
        heaviside=t_heaviside, maximum=t_maximum, minimum=t_minimum, is_tensor=t_is_tensor, sign=t_sign, equal=t_equal,
        nan_to_num=t_nan_to_num, isnan=lambda x: x.isnan(), round=lambda x: x.round(), ceil=lambda x: x.ceil(),
        floor=lambda x: x.floor(), lgamma=lambda x: x.lgamma(), erf=lambda x: x.erf(), roll=lambda x, s, d=None: x.roll(s, d),
        flip=lambda x, d: x.flip(d), neg=lambda x: -x, square=lambda x: x * x,
        mul=lambda a, b: a * b, add=lambda a, b: a + b, sub=lambda a, b: a - b, div=lambda a, b: a / b,
        pow=lambda a, b: a ** b,
        Tensor=E("torch.Tensor"), Size=E("torch.Size"), dtype=E("torch.dtype"), device=E("torch.device"), Generator=E("torch.Generator"),
        no_grad=t_no_grad, sum=t_sum, mean=t_mean, nansum=lambda x, dim=None, **kw: x.nansum(dim, **kw),
        pi=3.141592653589793,
    )
    for n, d in tz.DT.items():
        table[n] = d
    nn_table = dict(
        Module=models._NN_MODULE,
        Parameter=CallableType("nn.Parameter", lambda data=None, requires_grad=True: _mkparam(data)),
        UninitializedBuffer=E("nn.UninitializedBuffer"),
        UninitializedParameter=E("nn.UninitializedParameter"),
        ModuleDict=CallableType("nn.ModuleDict", lambda init=None: models.ModuleDictV(init), bases=(models._NN_MODULE,)),
        ModuleList=E("nn.ModuleList", bases=(models._NN_MODULE,)),
        ParameterList=CallableType("nn.ParameterList", lambda init=None: models.ParamListV(init), bases=(models._NN_MODULE,)),
    )
    f_gammaincc = z3.Function("gammaincc", z3.RealSort(), z3.RealSort(), z3.RealSort())

    def sp_xlogy(x, y):
        x, y = _t(x), _t(y)
        return tz.where(x == 0, _t(0.0), x * y.log())

    def sp_gammaincc(a, x):
        a, x = _t(a).float(), _t(x).float()
        return a._binop(x, lambda p, q: f_gammaincc(p, q), "arith")

    def sp_log_ndtr(x):
        """log of the standard normal cdf: log(1/2 (1 + erf(x / sqrt 2))) (sqrt 2 as its IEEE double, like math.sqrt(2))"""
        import math as _m

        x = _t(x).float()
        return ((x / _m.sqrt(2)).erf() * 0.5 + 0.5).log()

    table["special"] = Namespace("torch.special", dict(
        log_ndtr=sp_log_ndtr, ndtr=lambda x: (_t(x).float() / __import__("math").sqrt(2)).erf() * 0.5 + 0.5,
        xlogy=sp_xlogy, gammaincc=sp_gammaincc, erf=lambda x: _t(x).erf(), expm1=lambda x: _t(x).exp() - 1,
        log1p=lambda x: (_t(x) + 1).log(), gammaln=lambda x: _t(x).lgamma(),
    ))
    table["get_default_dtype"] = lambda: tz.DT["float32"]
    nn_ns = Namespace("torch.nn", nn_table)
    f_ns = Namespace("torch.nn.functional", {})
    nn_table["functional"] = f_ns
    table["nn"] = nn_ns
    torch_ns = Namespace("torch", table)
    interp.namespaces["torch"] = torch_ns
    interp.namespaces["torch.nn"] = nn_ns
    interp.namespaces["torch.nn.functional"] = f_ns
    interp.torch_ns = torch_ns
    interp.nn_ns = nn_ns
    interp.F_ns = f_ns

    # inferno.exp / inferno.sqrt are functools.singledispatch wrappers over math/torch/numpy exp and sqrt:
    # modelled (trusted) as the real exponential / square root
    interp.trusted[("inferno/core/math.py", "exp")] = lambda it, x: t_exp(x) if isinstance(x, (T, SV)) else t_exp(SV(num(x)))
    interp.trusted[("inferno/core/math.py", "sqrt")] = lambda it, x: t_sqrt(x) if isinstance(x, (T, SV)) else t_sqrt(SV(num(x)))

    # ---- einops (time-axis moves only)
    def rearrange(x, pattern, **axes):
        pat = " ".join(pattern.split())
        if not isinstance(x, T):
            raise Unsupported("rearrange of non-tensor")
        if pat in ("t ... -> ... t",):
            if x.tlen is None or x.taxis != "first":
                raise Unsupported(f"rearrange {pat!r} on tensor without leading time axis")
            return T(x.f, x.dtype, x.tlen, "last", x.eshape, x.nan)
        if pat in ("... t -> t ...",):
            if x.tlen is None or x.taxis != "last":
                raise Unsupported(f"rearrange {pat!r} on tensor without trailing time axis")
            r = T(x.f, x.dtype, x.tlen, "first", x.eshape, x.nan)
            return r
        raise Unsupported(f"einops pattern {pattern!r}")

    def einsum(*args):
        """einops.einsum for contractions over a trailing axis of length ONE ('b ... r, b ... r -> b ...'): the receptive
        axis is represented by one arbitrary element (linearity of the sum), so the contraction is the product."""
        *ops, pattern = args
        pat = " ".join(pattern.split())
        if pat == "b ... r, b ... r -> b ..." and len(ops) == 2 and all(isinstance(o, T) and o.tlen is not None and o.taxis == "last" and tz._is_one(o.tlen) for o in ops):
            a, b = ops
            pr = a * b if a.dtype != "bool" else b * a
            return T(pr.f(z3.IntVal(0)), pr.dtype, None, None, pr.eshape, pr.nan_at(z3.IntVal(0)))
        raise Unsupported(f"einops.einsum pattern {pattern!r}")

    def erepeat(x, pattern, **axes):
        pat = " ".join(pattern.split())
        if pat == "... -> t ..." and isinstance(x, T) and x.tlen is None and "t" in axes:
            v, n = x.f, x.nan
            return T(lambda t: v, x.dtype, axes["t"], "first", x.eshape, (lambda t: n) if n is not None else None)
        raise Unsupported(f"einops.repeat pattern {pattern!r}")

    def t_bernoulli(p, generator=None):
        """torch.bernoulli: the draw is an arbitrary boolean except that p = 0 never fires and p = 1 always fires."""
        ex = cur()
        nm = ex.fresh_name("bernoulli_draw")
        if p.tlen is None:
            b = z3.Bool(nm)
            ex.assume(z3.And(z3.Implies(p.f <= 0, z3.Not(b)), z3.Implies(p.f >= 1, b)))
            return T(z3.If(b, z3.RealVal(1), z3.RealVal(0)), "float", None, None, p.eshape)
        fn = z3.Function(nm, z3.IntSort(), z3.BoolSort())
        pf = p.f
        tq = z3.Int(ex.fresh_name("tq"))
        ex.keepalive.append(fn)
        p._bern = (fn, pf)
        r = T(lambda t: z3.If(z3.And(fn(t), z3.Not(pf(t) <= 0)) if True else fn(t), z3.RealVal(1), z3.RealVal(0)), "float", p.tlen, p.taxis, p.eshape)
        r._bern_fn = fn
        return r

    table["bernoulli"] = t_bernoulli

    def ereduce(x, pattern, reduction, **axes):
        """einops.reduce over the leading axis of a LIST of equally shaped tensors ('s ... -> ...'): element-wise
        combination; the variant 's ... -> () ...' additionally inserts a unit axis in front."""
        pat = " ".join(pattern.split())
        if isinstance(x, (list, tuple)) and pat in ("s ... -> ...", "s ... -> () ...") and x and all(isinstance(t, T) and t.tlen is None for t in x):
            vals = [tz.coerce(t.f, "float") for t in x]
            if reduction == "sum":
                r = vals[0]
                for v in vals[1:]:
                    r = r + v
            elif reduction == "mean":
                r = vals[0]
                for v in vals[1:]:
                    r = r + v
                r = r / len(vals)
            elif reduction == "prod":
                r = vals[0]
                for v in vals[1:]:
                    r = r * v
            elif reduction in ("min", "max"):
                r = vals[0]
                for v in vals[1:]:
                    r = z3.If(v < r, v, r) if reduction == "min" else z3.If(v > r, v, r)
            else:
                raise Unsupported(f"einops.reduce reduction {reduction!r}")
            es = x[0].eshape
            if pat.endswith("() ...") and es is not None:
                es = tz.Shape((1,) + es.items)
            return T(r, "float", None, None, es)
        if isinstance(x, T) and x.tlen is None and pat == "s ... -> ..." and reduction in ("sum", "mean", "prod", "min", "max"):
            # a TENSOR reduced over its leading axis: for the element-shaped tensors of this theory that axis is the
            # batch axis - a whole-batch reduction (mixes samples: C11 taint) whose result has lost the leading dimension
            r = tz._full_reduce(x, {"sum": "sum", "mean": "sum", "prod": "prod", "min": "amin", "max": "amax"}[reduction])
            es = x.eshape
            r.eshape = tz.Shape(tuple(es.items[1:])) if isinstance(es, tz.Shape) and len(es.items) >= 1 else es
            r.scalar_like = False
            if isinstance(es, tz.Shape) and len(es.items) >= 1:
                # the result is handed on as per-sample data although every sample went into it
                tz.note_batch_event("data", "einops.reduce over the leading (batch) axis of a tensor: its result, used as a per-sample tensor, depends on every sample")
            return r
        raise Unsupported(f"einops.reduce pattern {pattern!r}")

    interp.namespaces["einops"] = Namespace("einops", dict(rearrange=rearrange, einsum=einsum, reduce=ereduce, repeat=erepeat))
