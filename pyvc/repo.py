"""Mechanical extraction of the code under verification from /repo's working tree.

Every run re-reads the real source files, parses them with ``ast`` and locates
functions / classes by qualified name.  Nothing from /repo is copied into /verif.
The only thing dropped by extraction is listed in DESIGN.md section 2.1
(docstrings, annotations, f-string contents of raise messages, no_grad).
"""
from __future__ import annotations

import ast
import hashlib
import os
from dataclasses import dataclass, field

REPO = os.environ.get("VERIF_REPO", "/repo")


class ExtractionError(Exception):
    pass


@dataclass
class FuncInfo:
    file: str  # repo relative path
    qualname: str  # e.g. RecordTensor.readrange, RecordTensor.dt@setter, f.<locals>.g
    node: ast.FunctionDef
    cls: str | None  # defining class name (for private name mangling) or None
    module: "ModuleInfo"
    kind: str = "function"  # function | method | staticmethod | classmethod | getter | setter | deleter

    @property
    def lines(self):
        return [self.node.lineno, self.node.end_lineno]

    def body_hash(self):
        body = strip_docstring(self.node.body)
        dumped = "".join(ast.dump(s) for s in body) + ast.dump(self.node.args)
        return hashlib.sha256(dumped.encode()).hexdigest()

    def describe(self):
        return {
            "file": self.file,
            "qualname": self.qualname,
            "lines": self.lines,
            "body_sha256": self.body_hash()[:16],
        }


@dataclass
class ClassInfo:
    name: str
    file: str
    node: ast.ClassDef
    module: "ModuleInfo"
    bases: list  # list of ast expr
    members: dict = field(default_factory=dict)  # name -> ("func", FuncInfo) | ("prop", {fget,fset,fdel}) | ("assign", ast expr)


@dataclass
class ModuleInfo:
    file: str  # repo-relative, e.g. inferno/core/infrastructure.py
    tree: ast.Module
    functions: dict = field(default_factory=dict)  # name -> FuncInfo (module level; singledispatch first def only)
    classes: dict = field(default_factory=dict)  # name -> ClassInfo
    imports: dict = field(default_factory=dict)  # local name -> ("module", dotted) | ("from", dotted_module, name, level)
    assigns: dict = field(default_factory=dict)  # name -> ast expr (module-level simple assignments)

    @property
    def package(self):
        parts = self.file[:-3].split("/")
        if parts[-1] == "__init__":
            return parts[:-1]
        return parts[:-1]

    @property
    def dotted(self):
        parts = self.file[:-3].split("/")
        if parts[-1] == "__init__":
            parts = parts[:-1]
        return ".".join(parts)


def strip_docstring(body):
    if (
        body
        and isinstance(body[0], ast.Expr)
        and isinstance(body[0].value, ast.Constant)
        and isinstance(body[0].value.value, str)
    ):
        return body[1:]
    return body


_modules: dict[str, ModuleInfo] = {}
_source_override: dict[str, str] = {}  # file -> source text (in-memory mutants)


def set_source_override(file: str, src: str | None):
    """Install (or remove) an in-memory replacement for a repo file (mutation self-tests)."""
    if src is None:
        _source_override.pop(file, None)
    else:
        _source_override[file] = src
    _modules.pop(file, None)


def clear_cache():
    _modules.clear()


def read_source(file: str) -> str:
    if file in _source_override:
        return _source_override[file]
    with open(os.path.join(REPO, file)) as fh:
        return fh.read()


def _decorator_names(node):
    out = []
    for d in node.decorator_list:
        if isinstance(d, ast.Name):
            out.append(d.id)
        elif isinstance(d, ast.Attribute):
            out.append(ast.unparse(d))
        elif isinstance(d, ast.Call):
            out.append(ast.unparse(d.func))
        else:
            out.append(ast.unparse(d))
    return out


def load_module(file: str) -> ModuleInfo:
    if file in _modules:
        return _modules[file]
    if not file.endswith(".py"):
        raise ExtractionError(f"not a python file: {file}")
    src = read_source(file)
    tree = ast.parse(src, filename=file)
    mod = ModuleInfo(file=file, tree=tree)
    _modules[file] = mod
    for node in tree.body:
        if isinstance(node, ast.FunctionDef):
            decos = _decorator_names(node)
            if any(d.endswith(".register") for d in decos):
                continue  # singledispatch overloads: modelled as library axioms
            if node.name not in mod.functions:
                mod.functions[node.name] = FuncInfo(file, node.name, node, None, mod)
        elif isinstance(node, ast.ClassDef):
            mod.classes[node.name] = _load_class(mod, node)
        elif isinstance(node, ast.Import):
            for a in node.names:
                mod.imports[a.asname or a.name.split(".")[0]] = ("module", a.name if a.asname else a.name.split(".")[0])
        elif isinstance(node, ast.ImportFrom):
            for a in node.names:
                mod.imports[a.asname or a.name] = ("from", node.module or "", a.name, node.level)
        elif isinstance(node, ast.Assign) and len(node.targets) == 1 and isinstance(node.targets[0], ast.Name):
            mod.assigns[node.targets[0].id] = node.value
        elif isinstance(node, ast.AnnAssign) and isinstance(node.target, ast.Name) and node.value is not None:
            mod.assigns[node.target.id] = node.value
    return mod


def _mangle(cname: str, name: str) -> str:
    if name.startswith("__") and not name.endswith("__"):
        return f"_{cname.lstrip('_')}{name}"
    return name


def _load_class(mod: ModuleInfo, node: ast.ClassDef) -> ClassInfo:
    ci = ClassInfo(node.name, mod.file, node, mod, list(node.bases))
    mg = lambda n: _mangle(node.name, n)  # noqa: E731
    for item in node.body:
        if isinstance(item, ast.FunctionDef):
            decos = _decorator_names(item)
            kind = "method"
            if "staticmethod" in decos:
                kind = "staticmethod"
            elif "classmethod" in decos:
                kind = "classmethod"
            if "property" in decos or "abstractproperty" in decos:
                fi = FuncInfo(mod.file, f"{node.name}.{item.name}", item, node.name, mod, "getter")
                ci.members[mg(item.name)] = ("prop", {"fget": fi, "fset": None, "fdel": None})
                continue
            acc = [d for d in decos if d.endswith(".setter") or d.endswith(".deleter") or d.endswith(".getter")]
            if acc:
                pname, what = acc[0].rsplit(".", 1)
                pname = mg(pname)
                slot = {"setter": "fset", "deleter": "fdel", "getter": "fget"}[what]
                fi = FuncInfo(mod.file, f"{node.name}.{item.name}@{what}", item, node.name, mod, what)
                ent = ci.members.get(pname)
                if ent is None or ent[0] != "prop":
                    # property inherited from a base and extended here (rare) -> own table
                    ent = ("prop", {"fget": None, "fset": None, "fdel": None, "inherit": True})
                    ci.members[pname] = ent
                ent[1][slot] = fi
                continue
            fi = FuncInfo(mod.file, f"{node.name}.{item.name}", item, node.name, mod, kind)
            ci.members[mg(item.name)] = ("func", fi)
        elif isinstance(item, ast.ClassDef):
            # nested class (e.g. IndependentCellTrainer.Unit): a class-valued attribute of the outer class
            ci.members[item.name] = ("nested", _load_class(mod, item))
        elif isinstance(item, ast.Assign) and len(item.targets) == 1 and isinstance(item.targets[0], ast.Name):
            ci.members[mg(item.targets[0].id)] = ("assign", item.value)
        elif isinstance(item, ast.AnnAssign) and isinstance(item.target, ast.Name) and item.value is not None:
            ci.members[mg(item.target.id)] = ("assign", item.value)
    return ci


def resolve_relative(mod: ModuleInfo, module: str, level: int) -> str | None:
    """Return the repo-relative file for an import target, or None when external."""
    if level == 0:
        parts = module.split(".")
        if parts[0] != "inferno":
            return None
    else:
        base = mod.package
        if level > 1:
            base = base[: len(base) - (level - 1)]
        parts = base + (module.split(".") if module else [])
    cand = "/".join(parts) + ".py"
    if os.path.exists(os.path.join(REPO, cand)) or cand in _source_override:
        return cand
    cand = "/".join(parts) + "/__init__.py"
    if os.path.exists(os.path.join(REPO, cand)) or cand in _source_override:
        return cand
    return None


def find_function(file: str, qualname: str) -> FuncInfo:
    """Locate ``qualname`` in ``file``.  Forms: ``f``; ``C.m``; ``C.p`` (getter);
    ``C.p@setter`` / ``@deleter``; ``f.<locals>.g`` / ``C.m.<locals>.g``."""
    mod = load_module(file)
    if ".<locals>." in qualname:
        outer, inner = qualname.split(".<locals>.", 1)
        fo = find_function(file, outer)
        for n in ast.walk(fo.node):
            if isinstance(n, ast.FunctionDef) and n.name == inner and n is not fo.node:
                return FuncInfo(file, qualname, n, fo.cls, mod, "closure")
        raise ExtractionError(f"{file}: no nested function {qualname}")
    if "." not in qualname:
        if qualname in mod.functions:
            return mod.functions[qualname]
        raise ExtractionError(f"{file}: no function {qualname}")
    cname, rest = qualname.split(".", 1)
    if cname not in mod.classes:
        raise ExtractionError(f"{file}: no class {cname}")
    ci = mod.classes[cname]
    what = None
    if "@" in rest:
        rest, what = rest.split("@")
    ent = ci.members.get(rest) or ci.members.get(_mangle(cname, rest))
    if ent is None:
        raise ExtractionError(f"{file}: no member {cname}.{rest}")
    if ent[0] == "func":
        return ent[1]
    if ent[0] == "prop":
        slot = {None: "fget", "getter": "fget", "setter": "fset", "deleter": "fdel"}[what]
        fi = ent[1][slot]
        if fi is None:
            raise ExtractionError(f"{file}: property {cname}.{rest} has no {slot}")
        return fi
    raise ExtractionError(f"{file}: {cname}.{rest} is not a function")


_class_index: dict[str, list] | None = None


def class_index():
    """Name -> [ClassInfo] over all of inferno/ (built lazily, used for MRO resolution)."""
    global _class_index
    if _class_index is not None and not _source_override:
        return _class_index
    idx: dict[str, list] = {}
    for root, _dirs, files in os.walk(os.path.join(REPO, "inferno")):
        for f in files:
            if f.endswith(".py"):
                rel = os.path.relpath(os.path.join(root, f), REPO)
                try:
                    mod = load_module(rel)
                except SyntaxError:
                    continue
                for c in mod.classes.values():
                    idx.setdefault(c.name, []).append(c)
    if not _source_override:
        _class_index = idx
    return idx


def find_class(name: str, prefer_file: str | None = None) -> ClassInfo | None:
    cands = class_index().get(name, [])
    if not cands:
        return None
    if prefer_file:
        for c in cands:
            if c.file == prefer_file:
                # reload to honour overrides
                return load_module(c.file).classes[name]
    c = cands[0]
    return load_module(c.file).classes[name]
