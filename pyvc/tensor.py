"""Symbolic tensors.

A tensor is represented by its value at ONE arbitrary, fixed element position (the
implicit Skolem position eps), optionally as a function of an index ``t`` along a
single distinguished *time axis* (first or last dimension):

  * no time axis  -> "pointwise" (PW) tensor: one z3 term
  * time axis     -> "ring"/sequence tensor: python callable  t |-> z3 term, plus its length

Element-wise torch operations act identically at every element position, so a VC proved
at eps holds for every position, batch size and shape (DESIGN 2.3).  Operations that mix
element positions (reductions, matmul, permutations other than moving the time axis)
are NOT admitted here: they raise Unsupported.
"""
from __future__ import annotations

import itertools

import z3

from .sym import (
    SV,
    Explorer,
    SymRaise,
    Unsupported,
    as_bool,
    ceil_real,
    cur,
    floor_real,
    num,
    round_half_even,
    trunc_real,
    wrap,
    zabs,
    norm_cmp,
    zpow,
)

_ids = itertools.count()

# ----------------------------------------------------------------------- uninterpreted math
RealS = z3.RealSort()
f_exp = z3.Function("exp", RealS, RealS)
f_log = z3.Function("log", RealS, RealS)
f_sqrt = z3.Function("sqrt", RealS, RealS)
f_lgamma = z3.Function("lgamma", RealS, RealS)
f_erf = z3.Function("erf", RealS, RealS)
f_cos = z3.Function("cos", RealS, RealS)
f_tanh = z3.Function("tanh", RealS, RealS)

UF = {"exp": f_exp, "log": f_log, "sqrt": f_sqrt, "lgamma": f_lgamma, "erf": f_erf, "cos": f_cos, "tanh": f_tanh}


def exp_axioms(terms):
    """Ground instances of the exp/log/sqrt axioms (DESIGN 2.6) for the applications occurring in ``terms``."""
    apps = {}

    def walk(e, seen):
        if e.get_id() in seen:
            return
        seen.add(e.get_id())
        if z3.is_app(e):
            d = e.decl()
            if d.kind() == z3.Z3_OP_UNINTERPRETED and d.name() in UF and e.num_args() == 1:
                apps.setdefault(d.name(), {})[e.get_id()] = e
            for c in e.children():
                walk(c, seen)
        elif z3.is_quantifier(e):
            walk(e.body(), seen)

    seen = set()
    for t in terms:
        walk(t, seen)
    ax = []
    exps = list(apps.get("exp", {}).values())
    for e in exps:
        a = e.arg(0)
        ax.append(e > 0)
        ax.append(z3.Implies(a == 0, e == 1))
        ax.append(z3.Implies(a <= 0, e <= 1))
        ax.append(z3.Implies(a >= 0, e >= 1))
        ax.append(z3.Implies(a < 0, e < 1))
        ax.append(f_exp(-a) * e == 1)
    for e1, e2 in itertools.combinations(exps, 2):
        a, b = e1.arg(0), e2.arg(0)
        ax.append(z3.Implies(a == b, e1 == e2))
        ax.append(z3.Implies(a < b, e1 < e2))
        ax.append(f_exp(a + b) == e1 * e2)
        ax.append(f_exp(a - b) * e2 == e1)
    for e in apps.get("sqrt", {}).values():
        a = e.arg(0)
        ax.append(z3.Implies(a >= 0, z3.And(e >= 0, e * e == a)))
    for e in apps.get("log", {}).values():
        a = e.arg(0)
        ax.append(z3.Implies(a > 0, f_exp(e) == a))
        ax.append(z3.Implies(a == 1, e == 0))
    for e in exps:
        ax.append(f_log(e) == e.arg(0))
    return ax


# ----------------------------------------------------------------------- dtypes
class DType:
    def __init__(self, tag, name):
        self.tag = tag  # 'bool' | 'int' | 'float'
        self.name = name

    def __repr__(self):
        return f"torch.{self.name}"

    def __eq__(self, o):
        return isinstance(o, DType) and o.name == self.name

    def __ne__(self, o):
        return not self.__eq__(o)

    def __hash__(self):
        return hash(self.name)

    @property
    def is_floating_point(self):
        return self.tag == "float"


DT = {
    n: DType(t, n)
    for n, t in [
        ("bool", "bool"),
        ("int64", "int"),
        ("long", "int"),
        ("int32", "int"),
        ("int", "int"),
        ("uint8", "int"),
        ("float32", "float"),
        ("float", "float"),
        ("float64", "float"),
        ("double", "float"),
        ("float16", "float"),
    ]
}
CANON = {"bool": DT["bool"], "int": DT["int64"], "float": DT["float32"]}


def tag_of(d):
    if d is None:
        return None
    if isinstance(d, DType):
        return d.tag
    if isinstance(d, str):
        return d
    if d is bool:
        return "bool"
    if d is int:
        return "int"
    if d is float:
        return "float"
    raise Unsupported(f"dtype {d!r}")


_ORDER = {"bool": 0, "int": 1, "float": 2}


def promote(a, b):
    return a if _ORDER[a] >= _ORDER[b] else b


# ----------------------------------------------------------------------- shapes
class Star:
    """An unknown run of dimensions (e.g. the shape of one observation)."""

    def __init__(self, tag):
        self.tag = tag
        self.len = z3.Int(f"ndim_{tag}")

    def __repr__(self):
        return f"*{self.tag}"


class Shape:
    """tuple-like shape: items are ints / SV ints / Star."""

    def __init__(self, items):
        self.items = tuple(items)

    def __repr__(self):
        return f"Shape{self.items}"

    def __iter__(self):
        for it in self.items:
            if isinstance(it, Star):
                yield StarItem(it)
            else:
                yield it

    def numel_term(self):
        """z3 Int that is > 0 iff all dims are > 0 (abstract product; only its sign is meaningful)."""
        pos = []
        for i in self.items:
            if isinstance(i, Star):
                pos.append(z3.Int(f"numel_{i.tag}") > 0)
            else:
                pos.append(num(i) > 0)
        if not pos:
            return z3.IntVal(1)
        return z3.If(z3.And(*pos), z3.IntVal(1), z3.IntVal(0))

    def ndim(self):
        fixed = sum(1 for i in self.items if not isinstance(i, Star))
        stars = [i for i in self.items if isinstance(i, Star)]
        if not stars:
            return fixed
        z = z3.IntVal(fixed)
        for s in stars:
            z = z + s.len
        return SV(z)

    def __len__(self):
        n = self.ndim()
        if isinstance(n, int):
            return n
        raise Unsupported("len() of a shape with unknown rank")

    def __bool__(self):
        n = self.ndim()
        if isinstance(n, int):
            return n > 0
        return cur().branch(num(n) > 0)

    def __getitem__(self, k):
        items = self.items
        if isinstance(k, slice):
            if k.step is not None:
                raise Unsupported("shape slice step")
            lo, hi = k.start, k.stop
            # only slices that do not cut through a Star
            n = len(items)
            lo = 0 if lo is None else lo
            hi_none = hi is None
            if not isinstance(lo, int) or not (hi_none or isinstance(hi, int)):
                raise Unsupported("symbolic shape slice")
            if lo >= 0:
                if any(isinstance(i, Star) for i in items[:lo]):
                    raise Unsupported("shape slice through unknown rank")
                start = lo
            else:
                if any(isinstance(i, Star) for i in items[lo:]):
                    raise Unsupported("shape slice through unknown rank")
                start = n + lo
            if hi_none:
                stop = n
            elif hi >= 0:
                if any(isinstance(i, Star) for i in items[:hi]):
                    raise Unsupported("shape slice through unknown rank")
                stop = hi
            else:
                if any(isinstance(i, Star) for i in items[hi:]):
                    raise Unsupported("shape slice through unknown rank")
                stop = n + hi
            return Shape(items[start:stop])
        if isinstance(k, int):
            if k >= 0:
                if any(isinstance(i, Star) for i in items[: k + 1]):
                    raise Unsupported("shape index through unknown rank")
                if k >= len(items):
                    raise SymRaise("IndexError")
                return items[k]
            if any(isinstance(i, Star) for i in items[k:]):
                raise Unsupported("shape index through unknown rank")
            if -k > len(items):
                raise SymRaise("IndexError")
            return items[k]
        raise Unsupported("symbolic shape index")

    def eq(self, other):
        """z3 Bool: shapes equal (Stars are equal iff same tag; different tags -> named unknown)."""
        if not isinstance(other, Shape):
            other = Shape(tuple(other))
        a, b = self.items, other.items
        if len(a) != len(b):
            sa = [i for i in a if isinstance(i, Star)]
            sb = [i for i in b if isinstance(i, Star)]
            if not sa and not sb:
                return z3.BoolVal(False)
            return z3.Bool("shape_eq[%s|%s]" % (a, b))
        conj = []
        for x, y in zip(a, b):
            if isinstance(x, Star) or isinstance(y, Star):
                if isinstance(x, Star) and isinstance(y, Star):
                    if x.tag == y.tag:
                        continue
                    p, q = sorted([x.tag, y.tag])
                    conj.append(z3.Bool(f"shape_eq[{p}|{q}]"))
                else:
                    return z3.Bool("shape_eq[%s|%s]" % (a, b))
            else:
                conj.append(num(x) == num(y))
        return z3.simplify(z3.And(*conj)) if conj else z3.BoolVal(True)

    def __eq__(self, other):  # noqa
        if isinstance(other, (Shape, tuple, list)):
            return wrap(self.eq(other))
        return False

    def __ne__(self, other):  # noqa
        if isinstance(other, (Shape, tuple, list)):
            return wrap(z3.Not(self.eq(other)))
        return True

    def __hash__(self):
        return id(self)

    def __add__(self, other):
        return Shape(self.items + tuple(other.items if isinstance(other, Shape) else other))

    def __radd__(self, other):
        return Shape(tuple(other) + self.items)


class StarItem:
    """Result of iterating / star-unpacking a Shape through a Star."""

    def __init__(self, star):
        self.star = star


def mkshape(seq):
    if isinstance(seq, Shape):
        return seq
    items = []
    for s in seq:
        if isinstance(s, StarItem):
            items.append(s.star)
        else:
            items.append(s)
    return Shape(items)


# ----------------------------------------------------------------------- tensor
def _sort_for(tag):
    return {"bool": z3.BoolSort(), "int": z3.IntSort(), "float": z3.RealSort()}[tag]


def coerce(z, tag):
    """Convert z3 term to the sort of dtype ``tag`` (value-preserving promotions only)."""
    if tag == "bool":
        if z3.is_bool(z):
            return z
        return z != 0
    if tag == "int":
        if z3.is_bool(z):
            return z3.If(z, z3.IntVal(1), z3.IntVal(0))
        if z3.is_int(z):
            return z
        return trunc_real(z)
    if tag == "float":
        if z3.is_bool(z):
            return z3.If(z, z3.RealVal(1), z3.RealVal(0))
        if z3.is_int(z):
            return z3.ToReal(z)
        return z
    raise Unsupported(tag)


def tag_of_term(z):
    if z3.is_bool(z):
        return "bool"
    if z3.is_int(z):
        return "int"
    return "float"


class T:
    """Symbolic tensor (see module docstring)."""

    _is_symbolic_tensor = True

    def __init__(self, f, dtype, tlen=None, taxis=None, eshape=None, nan=None, is_param=False, name=None, uninit=False):
        self.f = f
        self.dtype = tag_of(dtype)
        self.tlen = tlen
        self.taxis = taxis if tlen is not None else None
        self.eshape = eshape  # Shape of the element part (None = unknown/unchecked)
        self.nan = nan  # None, z3 Bool, or callable(t)->z3 Bool
        self.is_param = is_param
        self.name = name or f"t{next(_ids)}"
        self.uninit = uninit  # torch.nn.Uninitialized{Buffer,Parameter}
        self.requires_grad = False
        self.device = "cpu"
        self.layout = "strided"
        self.pure_time = False  # 1-D tensor that has only the time axis (e.g. arange)

    # -- basics
    def __repr__(self):
        return f"T<{self.name}:{self.dtype}{'' if self.tlen is None else ':t'+self.taxis}>"

    def at(self, t=None):
        if self.tlen is None:
            return self.f
        return self.f(num(t))

    def nan_at(self, t=None):
        if self.nan is None:
            return None
        if callable(self.nan):
            return self.nan(num(t))
        return self.nan

    def like(self, f, dtype=None, nan="same"):
        return T(
            f,
            dtype or self.dtype,
            self.tlen,
            self.taxis,
            self.eshape,
            self.nan if isinstance(nan, str) else nan,
        )

    def __hash__(self):
        return id(self)

    def __bool__(self):
        # only legal for one-element tensors; we accept PW tensors produced by full reductions (amin etc.)
        if self.tlen is not None:
            raise Unsupported("truth value of a tensor with a time axis")
        if not getattr(self, "scalar_like", False):
            raise Unsupported("truth value of a multi-element tensor")
        if getattr(self, "batch_mixed", False) and not VALIDATION_TEST[0]:
            note_batch_event("control", "control flow depends on a reduction over all elements (other batch samples)")
        return cur().branch(as_bool(self.f))

    # -- shape protocol
    @property
    def shape(self):
        es = self.eshape if self.eshape is not None else Shape((Star(f"shape_{self.name}"),))
        if self.tlen is None:
            return es
        tl = self.tlen
        if self.taxis == "first":
            return Shape((tl,) + es.items)
        return Shape(es.items + (tl,))

    @property
    def ndim(self):
        return self.shape.ndim()

    def dim(self):
        return self.ndim

    def size(self, d=None):
        if d is None:
            return self.shape
        return self.shape[d]

    def numel(self):
        """Exact for truthiness (the only use in the verified code): numel > 0 iff every dim > 0."""
        if getattr(self, "_numel", None) is not None:
            return self._numel
        es = self.eshape
        if es is None:
            e = z3.Int(f"numel_shape_{self.name}")
        else:
            e = es.numel_term()
        if self.tlen is None:
            return wrap(e)
        return wrap(z3.If(z3.And(num(self.tlen) > 0, e > 0), num(self.tlen) + e - 1, z3.IntVal(0)))

    # -- element-wise machinery
    def _lift(self, other):
        """Return (tlen, taxis, fa, fb, nana, nanb, tagb) for a binary op."""
        a = self
        if isinstance(other, T):
            b = other
            if a.tlen is None and b.tlen is None:
                return None, None, (lambda t: a.f), (lambda t: b.f), a.nan, b.nan, b.dtype
            if a.tlen is not None and b.tlen is None:
                return a.tlen, a.taxis, a.f, (lambda t: b.f), a.nan, b.nan, b.dtype
            if a.tlen is None and b.tlen is not None:
                return b.tlen, b.taxis, (lambda t: a.f), b.f, a.nan, b.nan, b.dtype
            ax = a.taxis
            if a.pure_time and not b.pure_time:
                # a 1-D tensor broadcasts against the LAST dimension
                if b.taxis != "last":
                    raise Unsupported("1-D tensor broadcast against a time-first tensor")
                ax = "last"
            elif b.pure_time and not a.pure_time:
                if a.taxis != "last":
                    raise Unsupported("1-D tensor broadcast against a time-first tensor")
                ax = "last"
            elif a.taxis != b.taxis:
                raise Unsupported("element-wise op between time-first and time-last tensors")
            la, lb = a.tlen, b.tlen
            if _same_len(la, lb):
                return la, ax, a.f, b.f, a.nan, b.nan, b.dtype
            if _is_one(la):
                return lb, ax, (lambda t: a.f(z3.IntVal(0))), b.f, _nan_bcast(a.nan), b.nan, b.dtype
            if _is_one(lb):
                return la, ax, a.f, (lambda t: b.f(z3.IntVal(0))), a.nan, _nan_bcast(b.nan), b.dtype
            ex = Explorer.current
            if ex is not None and ex.implied(num(la) == num(lb)):
                return la, ax, a.f, b.f, a.nan, b.nan, b.dtype
            raise Unsupported("element-wise op between time axes of different length")
        # python / symbolic scalar
        zb = num(other) if not (isinstance(other, SV) and other.is_bool) and not isinstance(other, bool) else as_bool(other)
        tagb = "py" + tag_of_term(zb)
        if a.tlen is None:
            return None, None, (lambda t: a.f), (lambda t: zb), a.nan, None, tagb
        return a.tlen, a.taxis, a.f, (lambda t: zb), a.nan, None, tagb

    def _binop(self, other, fn, kind, swap=False):
        """kind: 'arith' | 'div' | 'cmp' | 'logic'."""
        if other is None:
            raise SymRaise("TypeError", "tensor op with None")
        if not isinstance(other, (T, SV, int, float, bool)):
            return NotImplemented
        tlen, taxis, fa, fb, nana, nanb, tagb = self._lift(other)
        taga = self.dtype
        scalar_b = tagb.startswith("py")
        tb = tagb[2:] if scalar_b else tagb
        if kind == "logic":
            rt = "bool" if (taga == "bool" and tb == "bool") else None
            if rt is None:
                raise Unsupported("bitwise op on non-bool tensors")
        elif kind == "cmp":
            rt = "bool"
        elif kind == "div":
            rt = "float"
        else:
            if scalar_b:
                # python scalars do not promote within a category
                rt = taga if _ORDER[taga] >= _ORDER[tb] else tb
            else:
                rt = promote(taga, tb)
            if rt == "bool":
                rt = "bool" if kind == "logic" else "int" if fn in ("-",) else "bool"
        ct = "float" if (kind in ("div",) or promote(taga, tb) == "float") else "int"
        if kind == "cmp":
            ct = promote(promote(taga, tb), "int")
        if kind == "logic":
            ct = "bool"

        def val(t):
            x, y = coerce(fa(t), ct), coerce(fb(t), ct)
            if swap:
                x, y = y, x
            return fn(x, y) if callable(fn) else None

        def nanf(t):
            fl = []
            for n in (nana, nanb):
                if n is None:
                    continue
                fl.append(n(t) if callable(n) else n)
            return z3.Or(*fl) if fl else None

        has_nan = nana is not None or nanb is not None
        if kind == "cmp" and has_nan:
            base = val
            neq = getattr(fn, "_is_ne", False)

            def val2(t, base=base):
                n = nanf(t)
                return z3.Or(n, base(t)) if neq else z3.And(z3.Not(n), base(t))

            out_f, out_nan = val2, None
        else:
            out_f, out_nan = val, (nanf if has_nan else None)
        if kind == "arith" and rt == "bool":
            rt = "int"
        if kind == "arith":
            res_tag = rt

            def val3(t, base=out_f):
                return coerce(base(t), res_tag)

            out_f = val3
        if tlen is None:
            r = T(out_f(None), rt, None, None, _merge_eshape(self, other), out_nan(None) if out_nan else None)
        else:
            r = T(out_f, rt, tlen, taxis, _merge_eshape(self, other), out_nan)
        r.pure_time = self.pure_time and (not isinstance(other, T) or other.pure_time)
        if getattr(self, "scalar_like", False) and (not isinstance(other, T) or getattr(other, "scalar_like", False)):
            r.scalar_like = True
        ma, mb = getattr(self, "batch_mixed", False), getattr(other, "batch_mixed", False)
        if ma or mb:
            r.batch_mixed = True
            if not getattr(r, "scalar_like", False):
                # a whole-tensor reduction (over the batch as well) flows into per-element data
                note_batch_event("data", "a reduction over all elements flows into a per-element tensor")
        return r

    # arithmetic
    def __add__(self, o):
        return self._binop(o, lambda x, y: x + y, "arith")

    __radd__ = __add__

    def __sub__(self, o):
        return self._binop(o, lambda x, y: x - y, "arith")

    def __rsub__(self, o):
        return self._binop(o, lambda x, y: x - y, "arith", swap=True)

    def __mul__(self, o):
        if isinstance(o, T) and o.dtype == "bool" and self.dtype != "bool" and self.nan is None and o.nan is None:
            # x * mask  ==  where(mask, x, 0) for finite x (A1): keeps the product out of the nonlinear fragment
            r = where(o, self, 0)
            if r.dtype == self.dtype:
                return r
        if isinstance(o, T) and self.dtype == "bool" and o.dtype != "bool" and self.nan is None and o.nan is None:
            r = where(self, o, 0)
            if r.dtype == o.dtype:
                return r
        return self._binop(o, lambda x, y: x * y, "arith")

    __rmul__ = __mul__

    def __truediv__(self, o):
        _div_guard(o)
        from .sym import cancel_div

        return self._binop(o, lambda x, y: cancel_div(x, y), "div")

    def __rtruediv__(self, o):
        from .sym import cancel_div

        _div_guard(self)
        return self._binop(o, lambda x, y: cancel_div(x, y), "div", swap=True)

    def __pow__(self, o):
        return self._binop(o, lambda x, y: zpow(x, y), "arith")

    def __rpow__(self, o):
        return self._binop(o, lambda x, y: zpow(x, y), "arith", swap=True)

    def __mod__(self, o):
        def md(x, y):
            if z3.is_int(x) and z3.is_int(y):
                from .sym import pymod_int

                return pymod_int(x, y)
            if (z3.is_rational_value(y) and y.numerator_as_long() == y.denominator_as_long()) or (z3.is_int_value(y) and y.as_long() == 1):
                return x - z3.ToReal(floor_real(x))
            ex = Explorer.current
            if ex is not None and ex.implied(y > 0):
                return x - y * z3.ToReal(floor_real(x / y))
            raise Unsupported("tensor % with non-positive divisor")

        return self._binop(o, md, "arith")

    def __neg__(self):
        return self._map(lambda x: -x, self.dtype if self.dtype != "bool" else "int")

    def __pos__(self):
        return self

    def __abs__(self):
        return self._map(lambda x: zabs(x))

    def abs(self):
        return self.__abs__()

    def __invert__(self):
        if self.dtype != "bool":
            raise Unsupported("~ on non-bool tensor")
        return self._map(lambda x: z3.Not(x), "bool", nan=None)

    def __and__(self, o):
        return self._binop(o, lambda x, y: z3.And(x, y), "logic")

    __rand__ = __and__

    def __or__(self, o):
        return self._binop(o, lambda x, y: z3.Or(x, y), "logic")

    __ror__ = __or__

    def __xor__(self, o):
        return self._binop(o, lambda x, y: z3.Xor(x, y), "logic")

    def __lt__(self, o):
        return self._binop(o, lambda x, y: norm_cmp("<", x, y), "cmp")

    def __le__(self, o):
        return self._binop(o, lambda x, y: norm_cmp("<=", x, y), "cmp")

    def __gt__(self, o):
        return self._binop(o, lambda x, y: norm_cmp(">", x, y), "cmp")

    def __ge__(self, o):
        return self._binop(o, lambda x, y: norm_cmp(">=", x, y), "cmp")

    def __eq__(self, o):  # noqa
        if o is None or isinstance(o, (str, tuple, list)):
            return False
        return self._binop(o, lambda x, y: norm_cmp("==", x, y), "cmp")

    def __ne__(self, o):  # noqa
        if o is None or isinstance(o, (str, tuple, list)):
            return True
        fn = lambda x, y: x != y  # noqa
        fn._is_ne = True
        return self._binop(o, fn, "cmp")

    def eq(self, o):
        return self.__eq__(o)

    def ne(self, o):
        return self.__ne__(o)

    def _map(self, fn, dtype=None, nan="same"):
        dtype = dtype or self.dtype
        if self.tlen is None:
            return T(fn(self.f), dtype, None, None, self.eshape, self.nan if isinstance(nan, str) else nan)
        f = self.f
        r = T(lambda t: fn(f(t)), dtype, self.tlen, self.taxis, self.eshape, self.nan if isinstance(nan, str) else nan)
        r.pure_time = self.pure_time
        return r

    # -- conversions
    def to(self, *args, dtype=None, device=None, **kw):
        for a in args:
            if isinstance(a, DType):
                dtype = a
        if dtype is None:
            return self
        tag = tag_of(dtype)
        if tag == self.dtype:
            return self
        return self._map(lambda x: coerce(x, tag), tag)

    def type(self, dtype=None):
        return self.to(dtype=dtype)

    def bool(self):
        return self.to(dtype="bool")

    def float(self):
        return self.to(dtype="float")

    def double(self):
        return self.to(dtype="float")

    def long(self):
        return self.to(dtype="int")

    def int(self):
        return self.to(dtype="int")

    def clone(self):
        return T(self.f, self.dtype, self.tlen, self.taxis, self.eshape, self.nan)

    def detach(self):
        return self

    def contiguous(self):
        return self

    def cpu(self):
        return self

    def requires_grad_(self, *a, **k):
        return self

    @property
    def data(self):
        return self

    @data.setter
    def data(self, value):
        if not isinstance(value, T):
            raise Unsupported("assigning non-tensor to .data")
        self.f, self.tlen, self.taxis, self.dtype, self.eshape, self.nan = (
            value.f,
            value.tlen,
            value.taxis,
            value.dtype,
            value.eshape,
            value.nan,
        )
        self._numel = getattr(value, "_numel", None)

    @property
    def dtype_obj(self):
        return CANON[self.dtype]

    def is_floating_point(self):
        return self.dtype == "float"

    def is_complex(self):
        return False

    # -- element-wise torch methods
    def clamp(self, min=None, max=None):
        r = self
        if min is not None:
            r = r.clamp_min(min)
        if max is not None:
            r = r.clamp_max(max)
        return r

    clip = clamp

    def clamp_min(self, m):
        return self._binop(m, lambda x, y: z3.If(x >= y, x, y), "arith")

    def clamp_max(self, m):
        return self._binop(m, lambda x, y: z3.If(x <= y, x, y), "arith")

    def where(self, cond, other):
        return where(cond, self, other)

    def exp(self):
        return self.float()._map(lambda x: f_exp(x), "float")

    def log(self):
        x = self.float()
        if not LOG_DEFINEDNESS[0]:
            return x._map(lambda v: f_log(v), "float")
        # definedness mode: log of a non-positive number is not a finite real (-inf / NaN); the result carries the
        # "not a finite number" flag there, which propagates through arithmetic like NaN (0 * -inf = NaN, x - inf = -inf)
        old = x.nan
        if x.tlen is None:
            bad = x.f <= 0 if old is None else z3.Or(x.f <= 0, old)
        else:
            f, on = x.f, (old if callable(old) else (lambda t, v=old: v))
            bad = (lambda t: f(t) <= 0) if old is None else (lambda t: z3.Or(f(t) <= 0, on(t)))
        return x._map(lambda v: f_log(v), "float", nan=bad)

    def sqrt(self):
        return self.float()._map(lambda x: f_sqrt(x), "float")

    def lgamma(self):
        return self.float()._map(lambda x: f_lgamma(x), "float")

    def erf(self):
        return self.float()._map(lambda x: f_erf(x), "float")

    def round(self):
        if self.dtype != "float":
            return self
        return self._map(lambda x: z3.ToReal(round_half_even(x)))

    def ceil(self):
        if self.dtype != "float":
            return self
        return self._map(lambda x: z3.ToReal(ceil_real(x)))

    def floor(self):
        if self.dtype != "float":
            return self
        return self._map(lambda x: z3.ToReal(floor_real(x)))

    def trunc(self):
        if self.dtype != "float":
            return self
        return self._map(lambda x: z3.ToReal(trunc_real(x)))

    def sign(self):
        return self._map(lambda x: z3.If(x > 0, 1, z3.If(x < 0, -1, 0)))

    def neg(self):
        return -self

    def logical_not(self):
        return self.bool()._map(lambda x: z3.Not(x), "bool")

    def logical_and(self, o):
        return logical_and(self, o)

    def logical_or(self, o):
        return logical_or(self, o)

    def isnan(self):
        if self.nan is None:
            return self._map(lambda x: z3.BoolVal(False), "bool")
        if self.tlen is None:
            return T(self.nan, "bool", None, None, self.eshape)
        n = self.nan
        return T((lambda t: n(t)) if callable(n) else (lambda t: n), "bool", self.tlen, self.taxis, self.eshape)

    def nan_to_num(self, nan=0.0, posinf=None, neginf=None):
        if self.nan is None:
            return self
        n = self.nan
        v = num(nan)
        if self.tlen is None:
            return T(z3.If(n, coerce(v, self.dtype), self.f), self.dtype, None, None, self.eshape)
        f = self.f
        return T(lambda t: z3.If(n(t) if callable(n) else n, coerce(v, self.dtype), f(t)), self.dtype, self.tlen, self.taxis, self.eshape)

    def _inplace(self, r):
        self.f, self.dtype, self.nan = r.f, r.dtype, r.nan
        self._write_back()
        return self

    def _write_back(self):
        """this tensor is a view (basic index / slice of a time-axis tensor) that was just mutated in place: the base
        tensor - e.g. the ring-buffer storage behind RecordTensor.peek() - sees the new values"""
        link = getattr(self, "view_of", None)
        if link is None:
            return
        base, kind, a = link
        old_f, old_nan = base.f, base.nan
        if kind == "index":
            i, newv, newn = a, self.f, self.nan
            if self.tlen is not None:
                return
            base.f = lambda t, i=i, newv=newv, old_f=old_f: z3.If(t == i, coerce(newv, base.dtype), old_f(t))
            if newn is not None or old_nan is not None:
                on = old_nan if callable(old_nan) else (lambda t, v=old_nan: v if v is not None else z3.BoolVal(False))
                nn = newn if newn is not None else z3.BoolVal(False)
                base.nan = lambda t, i=i, nn=nn, on=on: z3.If(t == i, nn, on(t))
        else:
            lo, n = a
            nf = self.f
            if self.tlen is None:
                return
            base.f = lambda t, lo=lo, n=n, nf=nf, old_f=old_f: z3.If(z3.And(t >= lo, t < lo + n), coerce(nf(t - lo), base.dtype), old_f(t))
        base._write_back()

    def _inplace_full(self, r):
        """torch in-place arithmetic (x *= y, x.mul_(y), ...): the OBJECT is mutated, every alias sees the new value;
        the dtype of the target is kept"""
        if not isinstance(r, T):
            raise Unsupported("in-place result is not a tensor")
        if r.dtype != self.dtype:
            r = r.to(CANON[self.dtype]) if self.dtype in CANON else r
        if self.tlen is None and r.tlen is not None:
            raise Unsupported("in-place op would add a time axis")
        self.f, self.nan = r.f, r.nan
        if r.tlen is not None:
            self.tlen, self.taxis = r.tlen, r.taxis
        self._write_back()
        return self

    def mul_(self, o):
        return self._inplace_full(self * o)

    def add_(self, o, alpha=1):
        return self._inplace_full(self + (o * alpha if alpha != 1 else o))

    def sub_(self, o, alpha=1):
        return self._inplace_full(self - (o * alpha if alpha != 1 else o))

    def div_(self, o):
        return self._inplace_full(self / o)

    def copy_(self, o):
        return self._inplace_full(o if isinstance(o, T) else self * 0 + o)

    def zero_(self):
        return self._inplace_full(self * 0)

    def clamp_max_(self, m):
        return self._inplace(self.clamp_max(m))

    def clamp_min_(self, m):
        return self._inplace(self.clamp_min(m))

    def clamp_(self, min=None, max=None):
        return self._inplace(self.clamp(min=min, max=max))

    def new_empty(self, *shape, dtype=None, **kw):
        from .interp import StarArg

        shape = [x for x in shape]
        first = shape[0]
        ex = cur()
        tag = tag_of(dtype) if dtype is not None else self.dtype
        fn = z3.Function(ex.fresh_name("new_empty"), z3.IntSort(), _sort_for(tag))
        return T(lambda t: fn(t), tag, first, "first", self.eshape)

    def new_zeros(self, *shape, dtype=None, **kw):
        tag = tag_of(dtype) if dtype is not None else self.dtype
        zv = coerce(z3.IntVal(0), tag)
        return T(lambda t: zv, tag, shape[0], "first", self.eshape)

    def cumsum(self, dim=0):
        raise Unsupported("cumsum (needs an inductive summary)")

    def fill_(self, v):
        zv = coerce(num(v) if not isinstance(v, bool) else z3.BoolVal(v), self.dtype)
        if self.tlen is None:
            self.f = zv
        else:
            self.f = lambda t: zv
        self.nan = None
        return self

    def zero_(self):
        return self.fill_(0)

    # full reductions producing a one-element tensor usable in `if`
    def _reduce_time_axis(self, a, k, op):
        """amin / amax over the time axis only, when its length is a small concrete number: an element-wise fold"""
        dim = a[0] if a else k.get("dim")
        if dim is None or isinstance(dim, (tuple, list)) or self.tlen is None:
            return None
        z = z3.simplify(num(self.tlen))
        d = z3.simplify(num(dim)) if not isinstance(dim, int) else z3.IntVal(dim)
        if not (z3.is_int_value(z) and 1 <= z.as_long() <= 8 and z3.is_int_value(d)):
            return None
        if not ((d.as_long() == 0 and self.taxis == "first") or (d.as_long() == -1 and self.taxis == "last")):
            return None
        n, f = z.as_long(), self.f
        r = f(z3.IntVal(0))
        for i in range(1, n):
            v = f(z3.IntVal(i))
            r = z3.If(v < r, v, r) if op == "amin" else z3.If(v > r, v, r)
        nan = None
        if self.nan is not None:
            nan = z3.Or([self.nan_at(z3.IntVal(i)) for i in range(n)])
        return T(r, self.dtype, None, None, self.eshape, nan)

    def amin(self, *a, **k):
        r = self._reduce_time_axis(a, k, "amin")
        return r if r is not None else _full_reduce(self, "amin")

    def amax(self, *a, **k):
        r = self._reduce_time_axis(a, k, "amax")
        return r if r is not None else _full_reduce(self, "amax")

    def min(self, *a, **k):
        if a or k:
            raise Unsupported("min(dim)")
        return _full_reduce(self, "amin")

    def max(self, *a, **k):
        if a or k:
            raise Unsupported("max(dim)")
        return _full_reduce(self, "amax")

    def item(self):
        if getattr(self, "scalar_like", False):
            return SV(self.f)
        raise Unsupported("item() of a multi-element tensor")

    # -- time-axis operations
    def unsqueeze(self, dim):
        if self.tlen is not None:
            raise Unsupported("unsqueeze on a tensor that already has a time axis")
        v = self.f
        n = self.nan
        if dim == 0:
            return T(lambda t: v, self.dtype, 1, "first", self.eshape, (lambda t: n) if n is not None else None)
        if dim == -1:
            return T(lambda t: v, self.dtype, 1, "last", self.eshape, (lambda t: n) if n is not None else None)
        raise Unsupported(f"unsqueeze({dim})")

    def squeeze(self, dim=None):
        if self.tlen is None:
            raise Unsupported("squeeze on a tensor without time axis")
        ok = (dim == 0 and self.taxis == "first") or (dim == -1 and self.taxis == "last")
        if not ok:
            raise Unsupported("squeeze of a non-time axis")
        if not _is_one(self.tlen):
            ex = Explorer.current
            if not (ex is not None and ex.implied(num(self.tlen) == 1)):
                raise Unsupported("squeeze of a time axis whose length is not known to be 1")
        n = self.nan
        return T(self.f(z3.IntVal(0)), self.dtype, None, None, self.eshape, n(z3.IntVal(0)) if callable(n) else n)

    def roll(self, shifts, dims=None):
        if self.tlen is None or self.taxis != "first" or dims not in (0, (0,)):
            raise Unsupported("roll on a non-time axis")
        s, L, f = num(shifts), num(self.tlen), self.f
        from .sym import pymod_int

        ex = cur()
        if not ex.implied(L > 0):
            raise Unsupported("roll on a possibly empty time axis")
        return T(lambda t: f(pymod_int(t - s, L)), self.dtype, self.tlen, "first", self.eshape)

    def flip(self, *dims):
        if len(dims) == 1 and isinstance(dims[0], (tuple, list)):
            dims = tuple(dims[0])
        if self.tlen is None or self.taxis != "first" or dims != (0,):
            raise Unsupported("flip on a non-time axis")
        L, f = num(self.tlen), self.f
        return T(lambda t: f(L - 1 - t), self.dtype, self.tlen, "first", self.eshape)

    def repeat(self, *sizes):
        if len(sizes) == 1 and not isinstance(sizes[0], (int, SV)):
            sizes = tuple(sizes[0])
        # pattern: (size, 1, 1, ..., 1) on a time-first tensor of length 1
        from .interp import SymSeq

        first = sizes[0]
        rest = sizes[1:]
        for r in rest:
            if isinstance(r, SymSeq):
                if not (isinstance(r.elem, int) and r.elem == 1):
                    raise Unsupported("repeat along non-time axes")
            elif not (isinstance(r, int) and r == 1):
                raise Unsupported("repeat along non-time axes")
        if self.tlen is None or self.taxis != "first" or not _is_one(self.tlen):
            raise Unsupported("repeat on a tensor without unit time axis")
        f = self.f
        return T(lambda t: f(z3.IntVal(0)), self.dtype, first, "first", self.eshape)

    # -- indexing along the time axis
    def _norm_key(self, key):
        """Split key into (time_key, rest_ok). Only keys that address the time axis (dim 0) are admitted."""
        from .interp import SymSeq, StarArg

        if isinstance(key, tuple):
            if len(key) == 0:
                raise Unsupported("empty index")
            first, rest = key[0], key[1:]
            if isinstance(first, StarArg):
                seq = first.seq
                if not isinstance(seq, SymSeq):
                    raise Unsupported("star index")
                for k, v in seq.over.items():
                    if k != 0 and not _full_slice(v):
                        raise Unsupported("slicing of a non-time axis")
                if not _full_slice(seq.elem):
                    raise Unsupported("slicing of a non-time axis")
                return seq.over.get(0, seq.elem)
            for r in rest:
                if r is Ellipsis or _full_slice(r):
                    continue
                raise Unsupported("indexing of non-time axes")
            return first
        return key

    def _elem_slice(self, key):
        """Slicing of a NON-time dimension (batch resize): the fixed element position eps is taken among the kept
        elements, so values are unchanged and only the element shape is updated.  Returns None when not applicable."""
        from .interp import SymSeq, StarArg

        if isinstance(key, tuple) and len(key) == 1 and isinstance(key[0], StarArg) and isinstance(key[0].seq, SymSeq):
            over = {k: v for k, v in key[0].seq.over.items() if not _full_slice(v)}
        elif isinstance(key, tuple) and all(isinstance(x, slice) for x in key):
            over = {i: v for i, v in enumerate(key) if not _full_slice(v)}
        elif isinstance(key, slice):
            over = {0: key} if not _full_slice(key) else {}
        else:
            return None
        tdim = 0 if (self.tlen is not None and self.taxis == "first") else None
        if not over or any(k == tdim for k in over) or self.eshape is None:
            return None
        items = list(self.eshape.items)
        off = 1 if tdim == 0 else 0
        for k, sl in over.items():
            i = k - off
            if not (isinstance(k, int) and 0 <= i < len(items)) or isinstance(items[i], Star) or any(isinstance(x, Star) for x in items[: i + 1]):
                return None
            if sl.step is not None:
                return None
            n = num(items[i])
            lo = _norm_bound(sl.start, n, 0)
            hi = _norm_bound(sl.stop, n, None)
            items[i] = wrap(z3.If(hi - lo > 0, hi - lo, z3.IntVal(0)))
        r = T(self.f, self.dtype, self.tlen, self.taxis, Shape(tuple(items)), self.nan)
        return r

    def __getitem__(self, key):
        if isinstance(key, T) and key.dtype == "bool" and key.tlen is None and self.tlen is None:
            # x[mask] (boolean mask over all dimensions): in the pointwise theory the selected elements are the
            # arbitrary element itself, meaningful where the mask holds; remembered so that x[mask] = f(y[mask]) is
            # the element-wise where(mask, f(y), x)
            r = T(self.f, self.dtype, None, None, None, self.nan)
            r.masked_by = key
            return r
        es = self._elem_slice(key)
        if es is not None:
            return es
        k = self._norm_key(key)
        if k is Ellipsis or _full_slice(k):
            return self
        if self.tlen is None or self.taxis != "first":
            raise Unsupported("indexing a tensor without leading time axis")
        L, f, nan = num(self.tlen), self.f, self.nan
        if isinstance(k, slice):
            if k.step is not None:
                raise Unsupported("slice step")
            lo = _norm_bound(k.start, L, 0)
            hi = _norm_bound(k.stop, L, None)
            n = z3.If(hi - lo > 0, hi - lo, z3.IntVal(0))
            n = z3.simplify(n)
            r = T(lambda t: f(lo + t), self.dtype, wrap(n), "first", self.eshape, (lambda t: nan(lo + t)) if callable(nan) else nan)
            r.view_of = (self, "slice", (lo, n))
            return r
        if isinstance(k, T):
            if k.dtype == "bool":
                raise Unsupported("boolean mask indexing")
            if k.tlen is None:
                raise Unsupported("index tensor without time axis")
            if k.pure_time:
                # 1-D index tensor: data[indices, ...]
                kf = k.f
                cur().obligation("index_in_bounds", _forall_t(k.tlen, lambda t: z3.And(kf(t) >= 0, kf(t) < L)))
                return T(lambda t: f(kf(t)), self.dtype, k.tlen, "first", self.eshape)
            raise Unsupported("advanced indexing with a non-1D index tensor")
        # scalar index
        i = num(py_index(k))
        ex = cur()
        if not ex.implied(z3.And(i >= -L, i < L)):
            if ex.branch(z3.Not(z3.And(i >= -L, i < L))):
                raise SymRaise("IndexError")
        if not ex.implied(i >= 0):
            i = z3.If(i >= 0, i, i + L)
        r = T(f(i), self.dtype, None, None, self.eshape, nan(i) if callable(nan) else nan)
        # basic indexing returns a VIEW: an in-place operation on the result writes through to this tensor
        r.view_of = (self, "index", i)
        return r

    def __setitem__(self, key, value):
        if isinstance(key, T) and key.dtype == "bool" and key.tlen is None and self.tlen is None:
            v = value.f if isinstance(value, T) else num(value)
            if isinstance(value, T) and value.tlen is not None:
                raise Unsupported("masked assignment of a tensor with a time axis")
            self.f = z3.If(key.f, coerce(v, self.dtype), self.f)
            if self.nan is not None or (isinstance(value, T) and value.nan is not None):
                vn = value.nan if isinstance(value, T) and value.nan is not None else z3.BoolVal(False)
                sn = self.nan if self.nan is not None else z3.BoolVal(False)
                self.nan = z3.If(key.f, vn, sn)
            return
        k = self._norm_key(key)
        if self.tlen is None or self.taxis != "first":
            if (k is Ellipsis or _full_slice(k)) and self.tlen is None:
                v = value.f if isinstance(value, T) else num(value)
                self.f = coerce(v, self.dtype)
                return
            raise Unsupported("index assignment on a tensor without leading time axis")
        L, f = num(self.tlen), self.f
        tag = self.dtype
        if isinstance(k, slice) or k is Ellipsis:
            raise Unsupported("slice assignment")
        if isinstance(k, T):
            if not k.pure_time:
                raise Unsupported("advanced index assignment with a non-1D index tensor")
            if not isinstance(value, T) or value.tlen is None or value.taxis != "first":
                raise Unsupported("index assignment value")
            # data[idx[j], ...] = value[j, ...]  == scatter along dim 0 with an index that is the same for every element
            r = _put(self, k.f, num(k.tlen), value.f, value.dtype, "index_put")
            self.f = r
            return
        i = num(py_index(k))
        ex = cur()
        if not ex.implied(z3.And(i >= -L, i < L)):
            if ex.branch(z3.Not(z3.And(i >= -L, i < L))):
                raise SymRaise("IndexError")
        if not ex.implied(i >= 0):
            i = z3.If(i >= 0, i, i + L)
        if isinstance(value, T):
            if value.tlen is not None:
                raise Unsupported("assigning a time tensor to one slot")
            v = coerce(value.f, tag)
        else:
            v = coerce(num(value), tag)
        if getattr(self, "stride0", False):
            # an EXPANDED tensor (x.expand(n, ...)) has one underlying row: writing one row in place writes them all
            self.f = lambda t: v
            return
        self.f = lambda t: z3.If(t == i, v, f(t))

    # gather / scatter along time axis (dim 0)
    def gather(self, dim, index):
        return gather(self, dim, index)

    def scatter(self, dim, index, src):
        return scatter(self, dim, index, src)

    def scatter_(self, dim, index, src):
        r = scatter(self, dim, index, src)
        self.f = r.f
        return self

    def any(self, *a, **k):
        if a or k:
            raise Unsupported("any(dim)")
        return _full_bool_reduce(self, "any")

    def all(self, *a, **k):
        if a or k:
            raise Unsupported("all(dim)")
        return _full_bool_reduce(self, "all")

    def sum(self, *a, **k):
        if not a and not k and self.tlen is None:
            ex = cur()
            v = z3.Real(ex.fresh_name("sum_all")) if self.dtype == "float" else z3.Int(ex.fresh_name("sum_all"))
            r = T(v, self.dtype if self.dtype != "bool" else "int", None, None, Shape(()))
            r.scalar_like = True
            r.batch_mixed = True
            return r
        raise Unsupported("reduction sum")

    def mean(self, dim=None, **k):
        if dim == -1 and self.tlen is not None and self.taxis == "last" and _is_one(self.tlen):
            n = self.nan
            return T(self.f(z3.IntVal(0)), "float" if self.dtype != "float" else self.dtype, None, None, self.eshape, n(z3.IntVal(0)) if callable(n) else n)
        raise Unsupported("reduction mean")

    def nansum(self, dim=None, **k):
        """nansum over a trailing axis of length 1 (the receptive-field axis represented by ONE arbitrary element:
        the reduction is linear, so a per-term identity implies the identity of the sums)."""
        if dim == -1 and self.tlen is not None and self.taxis == "last" and _is_one(self.tlen):
            v = self.f(z3.IntVal(0))
            n = self.nan_at(z3.IntVal(0))
            if n is not None:
                v = z3.If(n, coerce(z3.IntVal(0), self.dtype), v)
            return T(v, self.dtype, None, None, self.eshape)
        raise Unsupported("reduction nansum")

    def _layout_free(self, what):
        """LAYOUT-FREE mode (connection contracts): a tensor without time axis is its value at ONE arbitrary index
        tuple; pure re-layouts (view / reshape / expand / flatten / permutations) keep that value, the element shape
        is forgotten.  What is lost: a wrong permutation of axes is not detected here (bounded stand-in)."""
        if not LAYOUT_FREE[0] or self.tlen is not None:
            raise Unsupported(what)
        return T(self.f, self.dtype, None, None, None, self.nan)

    def view(self, *a):
        return self._layout_free("view")

    def reshape(self, *a):
        return self._layout_free("reshape")

    def expand(self, *a):
        if len(a) == 1 and isinstance(a[0], (tuple, list, Shape)):
            a = tuple(a[0])
        if not LAYOUT_FREE[0] and self.tlen is None and isinstance(self.eshape, Shape) and len(a) == len(self.eshape.items) + 1:
            # x.expand(n, *x.shape): one new leading axis of length n along which the tensor is repeated - a time axis
            v, n = self.f, self.nan
            r = T(lambda t: v, self.dtype, wrap(num(a[0])), "first", self.eshape, (lambda t: n) if n is not None else None)
            r.stride0 = True  # a view with stride 0 along the new axis: see __setitem__
            return r
        if not LAYOUT_FREE[0] and self.tlen is not None and self.taxis == "first" and _is_one(self.tlen) and len(a) >= 1:
            # x.unsqueeze(0).expand(n, *shape): the unit leading axis is broadcast to n rows that share one underlying row
            f0, n0 = self.f, self.nan
            r = T(lambda t: f0(z3.IntVal(0)), self.dtype, wrap(num(a[0])), "first", self.eshape, (lambda t: n0(z3.IntVal(0)) if callable(n0) else n0) if n0 is not None else None)
            r.stride0 = True
            return r
        return self._layout_free("expand")

    def flatten(self, *a):
        return self._layout_free("flatten")

    def contiguous(self):
        return self

    def t(self):
        if self.tlen is not None and isinstance(self.eshape, Shape) and len(self.eshape.items) == 0:
            return self  # torch: .t() of a 1-D tensor is the tensor itself
        raise Unsupported("transpose")


LAYOUT_FREE = [False]
LOG_DEFINEDNESS = [False]  # opt-in (contracts over domains where log(0) is reachable): see T.log
VALIDATION_TEST = [0]  # > 0 while the interpreter evaluates the test of an `if ...: raise` / assert statement


def note_batch_event(kind, text):
    ex = Explorer.current
    if ex is not None:
        ex.batch_events.append((kind, text))


# ----------------------------------------------------------------------- helpers
def py_index(k):
    if isinstance(k, bool):
        return int(k)
    if isinstance(k, int):
        return k
    if isinstance(k, SV):
        if k.is_int:
            return k
        raise SymRaise("TypeError", "non-integer index")
    if isinstance(k, float):
        raise SymRaise("TypeError", "float index")
    if isinstance(k, T) and k.tlen is None and k.dtype == "int" and getattr(k, "scalar_like", False):
        return SV(k.f)
    raise Unsupported(f"index of type {type(k).__name__}")


def _full_slice(k):
    return isinstance(k, slice) and k.start is None and k.stop is None and k.step is None


def _is_one(l):
    return isinstance(l, int) and not isinstance(l, bool) and l == 1


def _same_len(a, b):
    if isinstance(a, int) and isinstance(b, int):
        return a == b
    za, zb = num(a), num(b)
    return za.eq(zb) or z3.is_true(z3.simplify(za == zb))


def _nan_bcast(n):
    if n is None:
        return None
    if callable(n):
        return lambda t: n(z3.IntVal(0))
    return n


def _merge_eshape(a, b):
    ea = getattr(a, "eshape", None)
    eb = getattr(b, "eshape", None) if isinstance(b, T) else None
    if ea is None or eb is None:
        return ea if ea is not None else eb
    # torch broadcasting of the element shapes (right-aligned; a size-1 dimension stretches) when both ranks are
    # known and the time axes are laid out alike; otherwise the left operand's shape (sizes assumed compatible)
    ta, tb = getattr(a, "taxis", None), getattr(b, "taxis", None)
    if getattr(a, "pure_time", False):  # a 1-D tensor broadcasts against the LAST dimension
        ta = "last"
    if getattr(b, "pure_time", False):
        tb = "last"
    same_layout = ta == tb or ta is None and tb == "first" or tb is None and ta == "first"
    if not same_layout or any(isinstance(i, Star) for i in ea.items + eb.items):
        return ea
    xa, xb = list(ea.items), list(eb.items)
    n = max(len(xa), len(xb))
    xa = [None] * (n - len(xa)) + xa
    xb = [None] * (n - len(xb)) + xb

    def one(v):
        return isinstance(v, int) and v == 1

    out = []
    for p, q in zip(xa, xb):
        if p is None:
            out.append(q)
        elif q is None:
            out.append(p)
        elif one(p):
            out.append(q)
        else:
            out.append(p)
    return Shape(out)


def _norm_bound(b, L, default_lo):
    """Python slice bound normalisation (clamping, negative wrap) as a z3 Int term."""
    if b is None:
        return z3.IntVal(0) if default_lo == 0 else L
    zb = num(py_index(b))
    return ctx_simplify(z3.simplify(z3.If(zb < 0, z3.If(zb + L < 0, z3.IntVal(0), zb + L), z3.If(zb > L, L, zb))))


def ctx_simplify(t, depth=0):
    """resolve top-level if-then-else conditions that the path condition already decides (keeps index terms such as
    slice bounds syntactically small, so that equal positions are equal TERMS and share definitional constants)"""
    ex = Explorer.current
    if ex is None or depth > 4 or not (z3.is_app(t) and t.decl().kind() == z3.Z3_OP_ITE):
        return t
    c, a, b = t.children()
    if ex.implied(c):
        return ctx_simplify(a, depth + 1)
    if ex.implied(z3.Not(c)):
        return ctx_simplify(b, depth + 1)
    return z3.If(c, ctx_simplify(a, depth + 1), ctx_simplify(b, depth + 1))


def _forall_t(tlen, body):
    """forall t in [0, tlen): body(t)  as a proof GOAL: Skolemised with a fresh constant (valid iff the forall is)."""
    t = z3.Int(cur().fresh_name("tq"))
    return z3.Implies(z3.And(t >= 0, t < num(tlen)), body(t))


def _div_guard(o):
    # tensor division by zero yields inf/nan in torch: outside assumption A1. We require divisor != 0
    # as an *assumption of the real-number encoding*; callers that care add explicit requires.
    return


def _full_reduce(x, what):
    if x.tlen is None:
        r = T(x.f, x.dtype, None, None, Shape(()))
        r.scalar_like = True
        r.reduced_from = (what, x)
        r.batch_mixed = True
        return r
    if _is_one(x.tlen):
        # a time axis of length one adds nothing to the reduction over the (arbitrary-element) value
        r = T(x.f(z3.IntVal(0)), x.dtype, None, None, Shape(()))
        r.scalar_like = True
        r.reduced_from = (what, x)
        r.batch_mixed = True
        return r
    # reduction over elements and time: an uninterpreted bound constrained at the time points we can name
    ex = cur()
    name = ex.fresh_name(what)
    v = z3.Real(name) if x.dtype == "float" else z3.Int(name)
    f = x.f
    tl = x.tlen
    if not isinstance(tl, int) or tl > 8:
        # symbolic length: the bound is a fresh constant v; the universally quantified fact
        #     forall t in [0, L): v <= f(t)          (>= for amax)
        # is instantiated lazily at EVERY index term at which the tensor is subsequently evaluated (the tensor's
        # value function is wrapped in place).  Every instance is a true fact about the minimum, so this is sound;
        # a common positive factor g (f = g*h) is pulled out, v = g*v', so that comparisons stay linear.
        from .sym import _monomials

        probe = z3.Int(ex.fresh_name("probe"))
        g = None
        try:
            mons = _monomials(f(probe))
            common = None
            for _c, fs in mons:
                ids = {q.get_id(): q for q in fs if z3.is_const(q) and q.decl().kind() == z3.Z3_OP_UNINTERPRETED}
                common = ids if common is None else {k: q for k, q in common.items() if k in ids}
            for q in (common or {}).values():
                if ex.implied(q > 0):
                    g = q
                    break
        except Exception:
            g = None
        vp = z3.Real(name + "!scaled") if g is not None else None
        if g is not None:
            v = g * vp
        seen = set()
        Lz = num(tl)

        def wrapped(t, f=f):
            val = f(t)
            tid = t.get_id() if z3.is_expr(t) else ("c", t)
            if tid not in seen:
                seen.add(tid)
                tz_ = t if z3.is_expr(t) else z3.IntVal(t)
                if g is not None:
                    from .sym import remove_factor

                    h = remove_factor(val, g)
                    if h is None:
                        h = val / g
                    fact = (vp <= h) if what == "amin" else (vp >= h)
                else:
                    fact = (v <= val) if what == "amin" else (v >= val)
                ex.assume(z3.Implies(z3.And(tz_ >= 0, tz_ < Lz), fact))
            return val

        x.f = wrapped
    else:
        for i in range(tl):
            ex.assume(v <= f(z3.IntVal(i)) if what == "amin" else v >= f(z3.IntVal(i)))
    r = T(v, x.dtype, None, None, Shape(()))
    r.scalar_like = True
    r.reduced_from = (what, x)
    r.batch_mixed = True
    return r


def _full_bool_reduce(x, what):
    """x.any() / x.all() over ALL elements: a fresh boolean tied to the arbitrary element (element true => any true;
    all true => element true); the result depends on every batch sample (batch_mixed)"""
    ex = cur()
    b = z3.Bool(ex.fresh_name(what + "_all_elements"))
    xb = x.bool() if x.dtype != "bool" else x
    if xb.tlen is None:
        ex.assume(z3.Implies(xb.f, b) if what == "any" else z3.Implies(b, xb.f))
    r = T(b, "bool", None, None, Shape(()))
    r.scalar_like = True
    r.batch_mixed = True
    return r


def as_tensor_like(x, ref: T):
    if isinstance(x, T):
        return x
    z = num(x) if not isinstance(x, bool) and not (isinstance(x, SV) and x.is_bool) else as_bool(x)
    return T(z, tag_of_term(z))


def where(cond, a, b):
    if not isinstance(cond, T):
        if isinstance(cond, (SV, bool)):
            cond = T(as_bool(cond), "bool")
        else:
            raise Unsupported("where condition")
    cond = cond.bool() if cond.dtype != "bool" else cond
    ta = a if isinstance(a, T) else None
    tb = b if isinstance(b, T) else None
    # result dtype
    if ta is not None and tb is not None:
        rt = promote(ta.dtype, tb.dtype)
    elif ta is not None:
        tg = tag_of_term(num(b) if not isinstance(b, bool) else z3.BoolVal(b))
        rt = ta.dtype if _ORDER[ta.dtype] >= _ORDER[tg] or ta.dtype != "bool" and tg == "int" else tg
        if ta.dtype == "int" and tg == "float":
            rt = "float"
    elif tb is not None:
        tg = tag_of_term(num(a) if not isinstance(a, bool) else z3.BoolVal(a))
        rt = tb.dtype if _ORDER[tb.dtype] >= _ORDER[tg] else tg
    else:
        za = num(a)
        zb = num(b)
        rt = promote(tag_of_term(za), tag_of_term(zb))
    parts = []
    for x in (cond, a, b):
        if isinstance(x, T):
            parts.append(x)
        else:
            z = as_bool(x) if isinstance(x, bool) or (isinstance(x, SV) and x.is_bool) else num(x)
            parts.append(T(z, tag_of_term(z)))
    c, x, y = parts
    # broadcast time axes pairwise via _lift
    tl, ta_, fc, fx, nc, nx, _ = c._lift(x)
    tmp = T(fc if tl is not None else fc(None), "bool", tl, ta_)
    tl2, ta2, fc2, fy, _n, ny, _ = tmp._lift(y)
    if tl2 is not None and tl is None:
        fx0 = fx

        def fx(t, fx0=fx0):  # noqa
            return fx0(None)

    elif tl2 is not None and tl is not None and not _same_len(tl, tl2):
        if _is_one(tl):
            fx0 = fx

            def fx(t, fx0=fx0):  # noqa
                return fx0(z3.IntVal(0))

    def val(t):
        return z3.If(fc2(t), coerce(fx(t), rt), coerce(fy(t), rt))

    def nanf(t):
        nxv = (nx(t) if callable(nx) else nx) if nx is not None else z3.BoolVal(False)
        nyv = (ny(t) if callable(ny) else ny) if ny is not None else z3.BoolVal(False)
        return z3.If(fc2(t), nxv, nyv)

    has_nan = nx is not None or ny is not None
    es = _merge_eshape(x, y)
    if es is None:
        es = getattr(c, "eshape", None)
    elif isinstance(c, T) and c.eshape is not None:
        # the condition broadcasts too
        holder = T(z3.BoolVal(True), "bool", tl2, ta2, es)
        es = _merge_eshape(holder, c)
    if tl2 is None:
        return T(val(None), rt, None, None, es, nanf(None) if has_nan else None)
    return T(val, rt, tl2, ta2, es, nanf if has_nan else None)


def logical_and(a, b):
    a = a if isinstance(a, T) else as_tensor_like(a, b)
    return a.bool()._binop(b.bool() if isinstance(b, T) else b, lambda x, y: z3.And(x, y), "logic")


def logical_or(a, b):
    a = a if isinstance(a, T) else as_tensor_like(a, b)
    return a.bool()._binop(b.bool() if isinstance(b, T) else b, lambda x, y: z3.Or(x, y), "logic")


def logical_not(a):
    return a.logical_not()


def _cat_elem(tensors, dim):
    """cat along a non-time dimension: eps lies in exactly one of the parts (fresh selector booleans)."""
    a = tensors[0]
    off = 1 if (a.tlen is not None and a.taxis == "first") else 0
    i = dim - off
    if any(x.eshape is None for x in tensors) or i < 0:
        return None
    for x in tensors:
        if x.tlen != a.tlen and not (x.tlen is not None and a.tlen is not None and _same_len(x.tlen, a.tlen)):
            return None
        its = x.eshape.items
        if i >= len(its) or any(isinstance(y, Star) for y in its[: i + 1]):
            return None
    ex = cur()
    total = num(tensors[0].eshape.items[i])
    for x in tensors[1:]:
        total = total + num(x.eshape.items[i])
    rt = tensors[0].dtype
    for x in tensors[1:]:
        rt = promote(rt, x.dtype)
    sels = [z3.Bool(ex.fresh_name("cat_part")) for _ in tensors[:-1]]
    items = list(a.eshape.items)
    items[i] = wrap(total)

    def pick(vals):
        r = vals[-1]
        for j in range(len(vals) - 2, -1, -1):
            r = z3.If(sels[j], vals[j], r)
        return r

    if a.tlen is None:
        return T(pick([coerce(x.f, rt) for x in tensors]), rt, None, None, Shape(tuple(items)))
    fs = [x.f for x in tensors]
    return T(lambda t: pick([coerce(f(t), rt) for f in fs]), rt, a.tlen, a.taxis, Shape(tuple(items)))


def _as_time_first(tensors):
    """a constant tensor created with an explicit full shape (n, ...) next to time-first tensors has the same layout"""
    ref = next((x for x in tensors if isinstance(x, T) and x.tlen is not None and x.taxis == "first" and x.eshape is not None), None)
    if ref is None:
        return tensors
    conv = []
    for x in tensors:
        if isinstance(x, T) and x.tlen is None and x.eshape is not None and len(x.eshape.items) == len(ref.eshape.items) + 1 and not any(isinstance(i, Star) for i in x.eshape.items[:1]):
            v = x.f
            conv.append(T(lambda t, v=v: v, x.dtype, x.eshape.items[0], "first", Shape(x.eshape.items[1:])))
        else:
            conv.append(x)
    return conv


def cat(tensors, dim=0):
    tensors = list(tensors)
    if not tensors:
        raise Unsupported("cat of nothing")
    tensors = _as_time_first(tensors)
    if all(isinstance(x, T) for x in tensors) and isinstance(dim, int):
        a = tensors[0]
        tdim = 0 if (a.tlen is not None and a.taxis == "first") else None
        if dim >= 0 and dim != tdim:
            r = _cat_elem(tensors, dim)
            if r is not None:
                return r
    for x in tensors:
        if not isinstance(x, T) or x.tlen is None:
            raise Unsupported("cat of tensors without time axis")
    ax = tensors[0].taxis
    if any(x.taxis != ax for x in tensors):
        raise Unsupported("cat with mixed time axes")
    if not ((dim == 0 and ax == "first") or (dim == -1 and ax == "last")):
        raise Unsupported("cat along a non-time axis")
    rt = tensors[0].dtype
    for x in tensors[1:]:
        rt = promote(rt, x.dtype)
    lens = [num(x.tlen) for x in tensors]
    fs = [x.f for x in tensors]
    total = lens[0]
    for l in lens[1:]:
        total = total + l
    offs = [z3.IntVal(0)]
    for l in lens[:-1]:
        offs.append(offs[-1] + l)

    def f(t):
        r = coerce(fs[-1](t - offs[-1]), rt)
        for i in range(len(fs) - 2, -1, -1):
            r = z3.If(t < offs[i] + lens[i], coerce(fs[i](t - offs[i]), rt), r)
        return r

    return T(f, rt, wrap(total), ax, tensors[0].eshape)


def stack(tensors, dim=0):
    tensors = list(tensors)
    for x in tensors:
        if not isinstance(x, T) or x.tlen is not None:
            raise Unsupported("stack of tensors that already have a time axis")
    ax = "first" if dim == 0 else "last" if dim == -1 else None
    if ax is None:
        raise Unsupported("stack along a non-time axis")
    rt = tensors[0].dtype
    for x in tensors[1:]:
        rt = promote(rt, x.dtype)
    vals = [coerce(x.f, rt) for x in tensors]

    def f(t):
        r = vals[-1]
        for i in range(len(vals) - 2, -1, -1):
            r = z3.If(t == i, vals[i], r)
        return r

    return T(f, rt, len(tensors), ax, tensors[0].eshape)


def tensor_split(x, spec, dim=0):
    if not isinstance(x, T) or x.tlen is None or x.taxis != "first" or dim != 0:
        raise Unsupported("tensor_split on non-time axis")
    L = num(x.tlen)
    if isinstance(spec, (tuple, list)):
        cuts = [num(py_index(s)) for s in spec]
        bounds = [z3.IntVal(0)] + cuts + [L]
        out = []
        for lo, hi in zip(bounds[:-1], bounds[1:]):
            out.append(x[slice(wrap(lo), wrap(hi))])
        return tuple(out)
    if isinstance(spec, int):
        n = spec
        # sizes: first (L % n) pieces have size L//n + 1
        if n == 2:
            ex = cur()
            if ex.implied(L % 2 == 0):
                h = z3.simplify(L / 2)
                return (x[slice(0, wrap(h))], x[slice(wrap(h), None)])
        raise Unsupported("tensor_split into n sections with unknown divisibility")
    raise Unsupported("tensor_split spec")


def arange(*args, dtype=None, device=None, **kw):
    if len(args) == 1:
        lo, hi = 0, args[0]
    elif len(args) == 2:
        lo, hi = args
    else:
        raise Unsupported("arange with step")
    zlo = num(lo)
    n = wrap(num(hi) - zlo)
    r = T(lambda t: zlo + t, "int" if dtype is None else tag_of(dtype), n, "first", Shape(()))
    r.pure_time = True
    return r


def gather(x, dim, index):
    if not (isinstance(x, T) and x.tlen is not None and x.taxis == "first" and dim == 0):
        raise Unsupported("gather on a non-time axis")
    if not (isinstance(index, T) and index.tlen is not None and index.taxis == "first"):
        raise Unsupported("gather index must be time-first")
    if index.dtype != "int":
        raise SymRaise("RuntimeError", "gather(): Expected dtype int64 for index")
    L, f, kf = num(x.tlen), x.f, index.f
    cur().obligation("gather_index_in_bounds", _forall_t(index.tlen, lambda t: z3.And(kf(t) >= 0, kf(t) < L)))  # Skolemised
    return T(lambda t: f(kf(t)), x.dtype, index.tlen, "first", x.eshape)


def scatter(x, dim, index, src):
    if not (isinstance(x, T) and x.tlen is not None and x.taxis == "first" and dim == 0):
        raise Unsupported("scatter on a non-time axis")
    if not (isinstance(index, T) and index.tlen is not None and index.taxis == "first"):
        raise Unsupported("scatter index must be time-first")
    if not (isinstance(src, T) and src.tlen is not None and src.taxis == "first"):
        raise Unsupported("scatter src must be time-first")
    if index.dtype != "int":
        raise SymRaise("RuntimeError", "scatter(): Expected dtype int64 for index")
    if src.dtype != x.dtype:
        raise SymRaise("RuntimeError", "scatter(): Expected self.dtype to be equal to src.dtype")
    r = T(_put(x, index.f, num(index.tlen), src.f, src.dtype, "scatter"), x.dtype, x.tlen, "first", x.eshape)
    return r


def _put(x, kf, kl, vf, vtag, label):
    """Functional update  x[kf(j)] := vf(j)  for j in [0, kl)  along the time axis (at the fixed element eps).

    Safety obligations: indices in bounds; duplicate indices carry equal sources (torch leaves the winner
    unspecified otherwise).  The result is quantifier free:
      * concrete small kl: explicit expansion;
      * symbolic kl: the index function must be *invertible* -- the executor proves on the spot (two Skolemised
        lemma queries) that  inv(p) = (s*(p - kf(0))) mod len  is a two-sided inverse of kf on [0, kl) for
        s = +1 or -1 (affine ring indices), which makes kf injective and gives
            x'(p) = inv(p) < kl ? vf(inv(p)) : x(p).
    """
    from .sym import smod

    ex = cur()
    L, f, tag = num(x.tlen), x.f, x.dtype
    t0 = z3.Int(ex.fresh_name("tq"))
    ex.obligation(label + "_index_in_bounds", z3.Implies(z3.And(t0 >= 0, t0 < kl), z3.And(kf(t0) >= 0, kf(t0) < L)))
    klv = z3.simplify(kl) if z3.is_expr(kl) else z3.IntVal(kl)
    if z3.is_int_value(klv) and klv.as_long() <= 8:
        n = klv.as_long()
        ks = [kf(z3.IntVal(j)) for j in range(n)]
        vs = [coerce(vf(z3.IntVal(j)), tag) for j in range(n)]
        for i in range(n):
            for j in range(i + 1, n):
                ex.obligation(label + "_deterministic", z3.Implies(ks[i] == ks[j], vs[i] == vs[j]))

        def g(t):
            r = f(t)
            for j in range(n):
                r = z3.If(t == ks[j], vs[j], r)
            return r

        return g
    if not ex.implied(L > 0):
        raise Unsupported("scatter into a possibly empty time axis")
    base = kf(z3.IntVal(0))
    for sgn in (1, -1):
        def inv(p, sgn=sgn):
            return smod(sgn * (p - base), L)

        j0 = z3.Int(ex.fresh_name("j0"))
        p0 = z3.Int(ex.fresh_name("p0"))
        left = ex.prove([j0 >= 0, j0 < kl], lambda: inv(kf(j0)) == j0)
        if not left:
            continue
        right = ex.prove([p0 >= 0, p0 < L], lambda: z3.Implies(inv(p0) < kl, kf(inv(p0)) == p0))
        if not right:
            continue
        ex.notes.append(f"{label}: index inverted with sign {sgn}")

        def g(t, inv=inv):
            it = inv(t)
            return z3.If(z3.And(t >= 0, t < L, it < kl), coerce(vf(it), tag), f(t))

        return g
    raise Unsupported(f"{label} with a symbolic-length index that the executor could not invert")


def full(shape, fill, dtype=None, **kw):
    """torch.full / zeros / ones with a leading time axis taken from shape[0] when shape is (N, *S)."""
    shp = mkshape(shape) if not isinstance(shape, Shape) else shape
    if dtype is None:
        if isinstance(fill, bool):
            tag = "bool"
        elif isinstance(fill, int) or (isinstance(fill, SV) and fill.is_int):
            tag = "int"  # torch.full(shape, 0) -> int64  (axiom full_dtype_inference)
        else:
            tag = "float"
    else:
        tag = tag_of(dtype)
    zv = coerce(as_bool(fill) if isinstance(fill, bool) or (isinstance(fill, SV) and fill.is_bool) else num(fill), tag)
    items = shp.items
    if items and not isinstance(items[0], Star) and (len(items) == 1 or isinstance(items[1], Star) or True) and getattr(shape, "_time_first", True) and _looks_time_first(items):
        r = T(lambda t: zv, tag, items[0], "first", Shape(items[1:]))
        return r
    return T(zv, tag, None, None, shp)


# sizes a contract has declared to be the length of a record's time axis: a tensor created with such a leading dimension
# has a time axis also when the observations are 0-dimensional, i.e. the shape is just (N,)
TIME_SIZES = []


def _is_time_size(d):
    try:
        dz = z3.simplify(num(d))
    except Exception:
        return False
    return any(z3.eq(dz, z3.simplify(t)) for t in TIME_SIZES)


def _looks_time_first(items):
    # (N, *S): first item is a dim, remaining is exactly one Star
    if len(items) >= 1 and not isinstance(items[0], Star) and not any(isinstance(i, Star) for i in items[1:]) and _is_time_size(items[0]):
        return True
    return len(items) >= 1 and not isinstance(items[0], Star) and len(items) == 2 and isinstance(items[1], Star)


def fresh_pw(name, dtype="float", eshape=None, nan=False):
    tag = tag_of(dtype)
    z = {"bool": z3.Bool, "int": z3.Int, "float": z3.Real}[tag](name)
    return T(z, tag, None, None, eshape, z3.Bool(name + "!isnan") if nan else None, name=name)


def fresh_seq(name, tlen, dtype="float", taxis="first", eshape=None):
    tag = tag_of(dtype)
    fn = z3.Function(name, z3.IntSort(), _sort_for(tag))
    return T(lambda t: fn(t), tag, tlen, taxis, eshape, name=name), fn
