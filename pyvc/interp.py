"""Symbolic interpreter for the Python subset used by inferno (DESIGN 2.2).

It executes the *real* function ASTs extracted from /repo on symbolic values.  Control
flow on symbolic conditions is explored path by path (sym.Explorer).  Anything outside
the modelled subset raises ``Unsupported`` (the function is then out of reach for this
run -- never reported as a violation).
"""
from __future__ import annotations

import ast
import math
import operator

import z3

from . import repo
from . import sym
from .sym import SV, SymRaise, Unsupported, as_bool, cur, num, wrap
from . import tensor as tz
from .tensor import T


# ----------------------------------------------------------------------- value kinds
class Obj:
    """Heap object: instance of a repo class (or a plain namespace object)."""

    _ids = 0

    def __init__(self, cls=None, name=None):
        Obj._ids += 1
        self.cls = cls  # ClassV or None
        self.fields = {}
        self.name = name or f"obj{Obj._ids}"
        self.writes = []  # log of (field) writes for frame checks

    def __repr__(self):
        return f"<{self.cls.name if self.cls else 'object'} {self.name}>"


class ClassV:
    """A repo class as a first-class value."""

    def __init__(self, info: repo.ClassInfo, interp):
        self.info = info
        self.name = info.name
        self.interp = interp
        self._mro = None

    def __repr__(self):
        return f"<class {self.name}>"

    def mro(self):
        if self._mro is None:
            self._mro = self.interp.compute_mro(self)
        return self._mro

    def __or__(self, o):
        return TypeUnion([self, o])

    def __ror__(self, o):
        return TypeUnion([o, self])


class DynClassV(ClassV):
    """Class created at run time with type(name, bases, attrs) (Updater's dynamic properties)."""

    def __init__(self, interp, name, bases, attrs):
        self.name = name
        self.interp = interp
        self.base_values = bases
        self.dyn_attrs = attrs
        self._mro = None
        base0 = next((b for b in bases if isinstance(b, ClassV)), None)
        self.info = _DynInfo(name, base0.info if base0 is not None else None)

    def mro(self):
        if self._mro is None:
            res = [self]
            for b in self.base_values:
                if isinstance(b, ClassV):
                    for c in b.mro():
                        if not any(_same_type(c, x) for x in res):
                            res.append(c)
                else:
                    res.append(b)
            self._mro = res
        return self._mro


class _DynInfo:
    def __init__(self, name, base_info):
        self.name = name
        self.file = base_info.file if base_info else "<dynamic>"
        self.module = base_info.module if base_info else None
        self.members = {}
        self.bases = []


class ExtType:
    """External (torch / builtin / typing) type token."""

    def __init__(self, name, bases=()):
        self.name = name
        self.bases = tuple(bases)

    def __repr__(self):
        return f"<type {self.name}>"

    def __or__(self, o):
        return TypeUnion([self, o])

    def __ror__(self, o):
        return TypeUnion([o, self])

    def __call__(self, *a, **k):
        raise Unsupported(f"constructing external type {self.name}")


class CallableExt(ExtType):
    """external type token that can also be called (constructor model)"""

    def __init__(self, name, ctor, bases=()):
        super().__init__(name, bases)
        self.ctor = ctor

    def __call__(self, *a, **k):
        return self.ctor(*a, **k)


class PropertyType(ExtType):
    def __init__(self):
        super().__init__("property")

    def __call__(self, fget=None, fset=None, fdel=None, doc=None):
        return PropertyV(fget, fset, fdel)


class TypeUnion:
    def __init__(self, members):
        self.members = []
        for m in members:
            if isinstance(m, TypeUnion):
                self.members.extend(m.members)
            else:
                self.members.append(m)

    def __or__(self, o):
        return TypeUnion(self.members + [o])

    def __ror__(self, o):
        return TypeUnion([o] + self.members)


class Closure:
    def __init__(self, node, env, module, cls=None, qualname=None, defaults=None, kw_defaults=None, interp=None):
        self.node = node  # FunctionDef or Lambda
        self.env = env  # enclosing Env (closures) or None
        self.module = module  # repo.ModuleInfo
        self.cls = cls  # class name for private-name mangling / super()
        self.qualname = qualname or getattr(node, "name", "<lambda>")
        self.defaults = defaults or []
        self.kw_defaults = kw_defaults or {}
        self.interp = interp

    def __repr__(self):
        return f"<function {self.qualname}>"

    def __call__(self, *args, **kwargs):  # allows models written in python to call closures
        return self.interp.call(self, list(args), dict(kwargs))


class BoundMethod:
    def __init__(self, self_obj, func):
        self.self_obj = self_obj
        self.func = func

    def __repr__(self):
        return f"<bound {self.func!r} of {self.self_obj!r}>"

    def __call__(self, *args, **kwargs):
        return self.func.interp.call(self, list(args), dict(kwargs)) if isinstance(self.func, Closure) else self.func(self.self_obj, *args, **kwargs)


class PropertyV:
    def __init__(self, fget=None, fset=None, fdel=None):
        self.fget, self.fset, self.fdel = fget, fset, fdel


class Partial:
    def __init__(self, fn, args, kwargs):
        self.fn, self.args, self.kwargs = fn, list(args), dict(kwargs)


class WeakRef:
    def __init__(self, target):
        self.target = target

    def __call__(self):
        return self.target


class Finalizer:
    def __init__(self, obj, fn, args):
        self.obj, self.fn, self.args = obj, fn, args
        self.alive = True

    def detach(self):
        self.alive = False
        return None


class NamedTupleType:
    def __init__(self, name, fieldnames):
        self.name = name
        self.fieldnames = tuple(fieldnames)

    def __call__(self, *vals, **kw):
        d = dict(zip(self.fieldnames, vals))
        d.update(kw)
        if set(d) != set(self.fieldnames):
            raise SymRaise("TypeError", "namedtuple arity")
        return NamedTupleV(self, [d[f] for f in self.fieldnames])


class NamedTupleV:
    def __init__(self, typ, vals):
        self.typ = typ
        self.vals = tuple(vals)

    def get(self, name):
        return self.vals[self.typ.fieldnames.index(name)]

    def __iter__(self):
        return iter(self.vals)

    def __len__(self):
        return len(self.vals)

    def __getitem__(self, i):
        return self.vals[i]


class SymSeq:
    """Homogeneous list of symbolic length (``list(repeat(x, times=n))``) with concrete-index overrides."""

    def __init__(self, elem, length):
        self.elem = elem
        self.length = length
        self.over = {}

    def __setitem__(self, i, v):
        if not isinstance(i, int):
            raise Unsupported("symbolic index into symbolic-length list")
        self.over[i] = v

    def __getitem__(self, i):
        if not isinstance(i, int):
            raise Unsupported("symbolic index into symbolic-length list")
        return self.over.get(i, self.elem)


class StarArg:
    """``*seq`` inside a tuple/subscript where ``seq`` has symbolic length."""

    def __init__(self, seq):
        self.seq = seq


class Namespace:
    """Model namespace (torch, math, einops, ...)."""

    def __init__(self, name, table=None, fallback=None):
        self._name = name
        self._table = table or {}
        self._fallback = fallback

    def get(self, attr):
        if attr in self._table:
            return self._table[attr]
        if self._fallback:
            return self._fallback(attr)
        raise Unsupported(f"{self._name}.{attr} is not modelled")


class RepoModuleV:
    def __init__(self, info):
        self.info = info


class SuperV:
    def __init__(self, cls, obj):
        self.cls, self.obj = cls, obj


class OpaqueStr(str):
    """f-string with symbolic content (only used in messages)."""


class _Return(Exception):
    def __init__(self, value):
        self.value = value


class _Reraise(Exception):
    pass


class _Break(Exception):
    pass


class _Continue(Exception):
    pass


class Env:
    def __init__(self, parent=None):
        self.vars = {}
        self.parent = parent
        self.nonlocals = set()
        self.globals_ = set()

    def lookup(self, name):
        e = self
        while e is not None:
            if name in e.vars:
                return e.vars[name]
            e = e.parent
        raise KeyError(name)

    def has(self, name):
        e = self
        while e is not None:
            if name in e.vars:
                return True
            e = e.parent
        return False

    def set(self, name, value):
        if name in self.nonlocals:
            e = self.parent
            while e is not None:
                if name in e.vars:
                    e.vars[name] = value
                    return
                e = e.parent
        self.vars[name] = value


MISSING = object()


# ----------------------------------------------------------------------- interpreter
class Interp:
    def __init__(self):
        self.namespaces = {}  # dotted external module -> Namespace
        self.loop_contracts = {}  # (function qualname, loop ordinal) -> handler(interp, node, env, mod, cls, fn)
        self.builtins = {}
        self.trusted = {}  # (file, qualname) -> python model  (assumed contracts; reported)
        self.summaries = {}  # (file, qualname) -> callable(interp, fi, args, kwargs) (modular contracts)
        self.class_cache = {}
        self.call_depth = 0
        self.call_stack = []
        self.gen_stack = []
        self.max_depth = 80
        self.used_trusted = set()
        self.used_summaries = set()
        self.inlined = set()
        self.call_log = []
        self.fuel = 400000
        from . import models

        models.install(self)

    # ---------------------------------------------------------------- classes
    def classv(self, info: repo.ClassInfo) -> ClassV:
        key = (info.file, info.name, id(info))
        if key not in self.class_cache:
            self.class_cache[key] = ClassV(info, self)
        return self.class_cache[key]

    def resolve_base(self, cv: ClassV, expr):
        try:
            v = self.eval_in_module(cv.info.module, expr)
        except Unsupported:
            return ExtType(ast.unparse(expr))
        return v

    def compute_mro(self, cv: ClassV):
        bases = [self.resolve_base(cv, b) for b in cv.info.bases]
        seqs = []
        for b in bases:
            if isinstance(b, ClassV):
                seqs.append(list(b.mro()))
            else:
                seqs.append([b] + list(_ext_mro(b)))
        seqs.append(list(bases))
        res = [cv]
        seqs = [s for s in seqs if s]
        while seqs:
            for s in seqs:
                cand = s[0]
                if not any(_in_tail(cand, t) for t in seqs):
                    break
            else:
                raise Unsupported(f"inconsistent MRO for {cv.name}")
            res.append(cand)
            seqs = [[x for x in s if not _same_type(x, cand)] for s in seqs]
            seqs = [s for s in seqs if s]
        return res

    def class_lookup(self, cv: ClassV, name, after=None):
        """Find attribute ``name`` along the MRO (optionally strictly after class ``after``)."""
        mro = cv.mro()
        start = 0
        if after is not None:
            for i, c in enumerate(mro):
                if _same_type(c, after):
                    start = i + 1
                    break
        # property pieces may be split between classes (setter added in a subclass): merge
        for c in mro[start:]:
            if isinstance(c, DynClassV) and name in c.dyn_attrs:
                return c, ("dyn", c.dyn_attrs[name])
            if isinstance(c, ClassV):
                ent = c.info.members.get(name)
                if ent is not None:
                    return c, ent
            else:
                m = self.ext_member(c, name)
                if m is not MISSING:
                    return c, ("ext", m)
        return None, None

    def ext_member(self, ext, name):
        from . import models

        return models.ext_member(self, ext, name)

    def make_closure(self, fi: repo.FuncInfo, env=None):
        node = fi.node
        defaults = [self.eval_in_module(fi.module, d) if env is None else self.eval(d, env, fi.module, fi.cls) for d in node.args.defaults]
        kwd = {}
        for a, d in zip(node.args.kwonlyargs, node.args.kw_defaults):
            if d is not None:
                kwd[a.arg] = self.eval_in_module(fi.module, d) if env is None else self.eval(d, env, fi.module, fi.cls)
        c = Closure(node, env, fi.module, fi.cls, fi.qualname, defaults, kwd, self)
        c.fi = fi
        return c

    def member_value(self, owner_cls: ClassV, ent, obj, name):
        kind = ent[0]
        if kind == "func":
            fi = ent[1]
            clo = self.make_closure(fi)
            if fi.kind == "staticmethod":
                return clo
            if fi.kind == "classmethod":
                return BoundMethod(obj.cls if isinstance(obj, Obj) else obj, clo)
            if obj is None or isinstance(obj, ClassV):
                return clo
            return BoundMethod(obj, clo)
        if kind == "assign":
            return self.eval_in_module(owner_cls.info.module, ent[1], cls=owner_cls.name)
        if kind == "nested":
            return self.classv(ent[1])
        if kind == "dyn":
            v = ent[1]
            if isinstance(v, Closure) and obj is not None and not isinstance(obj, ClassV):
                return BoundMethod(obj, v)
            return v
        if kind == "ext":
            m = ent[1]
            if isinstance(m, ExtMethod):
                if obj is None or isinstance(obj, ClassV):
                    return m
                return BoundMethod(obj, m)
            return m
        raise Unsupported(f"member kind {kind}")

    def find_property(self, cv: ClassV, name):
        """Merged property (fget/fset/fdel) for ``name`` on class ``cv`` or None when the first hit is not a property."""
        mro = cv.mro()
        merged = None
        for c in mro:
            if isinstance(c, DynClassV) and name in c.dyn_attrs:
                v = c.dyn_attrs[name]
                if isinstance(v, PropertyV):
                    return {"fget": v.fget, "fset": v.fset, "fdel": v.fdel}
                return merged
            if isinstance(c, ClassV):
                ent = c.info.members.get(name)
                if ent is None:
                    continue
                if ent[0] != "prop":
                    return merged
                if merged is None:
                    merged = {"fget": None, "fset": None, "fdel": None}
                for k in ("fget", "fset", "fdel"):
                    if merged[k] is None and ent[1].get(k) is not None:
                        merged[k] = ent[1][k]
                if not ent[1].get("inherit"):
                    return merged
            else:
                m = self.ext_member(c, name)
                if m is not MISSING:
                    return merged
        return merged

    # ---------------------------------------------------------------- attribute protocol
    def mangle(self, name, cls):
        if cls and name.startswith("__") and not name.endswith("__"):
            return f"_{cls.lstrip('_')}{name}"
        return name

    def getattr(self, obj, name, default=MISSING):
        try:
            return self._getattr(obj, name)
        except SymRaise as e:
            if e.exc_name == "AttributeError" and default is not MISSING:
                return default
            raise

    def _getattr(self, obj, name):
        from . import models

        if isinstance(obj, Obj):
            cv = obj.cls
            if cv is not None:
                prop = self.find_property(cv, name)
                if prop is not None:
                    if prop["fget"] is None:
                        raise SymRaise("AttributeError", f"unreadable property {name}")
                    return self.call_function(prop["fget"], [obj], {})
            if name in obj.fields:
                return obj.fields[name]
            if name == "__dict__":
                return obj.fields
            if name == "__class__":
                return cv
            if cv is not None:
                owner, ent = self.class_lookup(cv, name)
                if ent is not None:
                    return self.member_value(owner, ent, obj, name)
                # __getattr__ hook
                owner, ent = self.class_lookup(cv, "__getattr__")
                if ent is not None:
                    fn = self.member_value(owner, ent, obj, "__getattr__")
                    return self.call(fn, [name], {})
            raise SymRaise("AttributeError", f"{obj!r} has no attribute {name}")
        if isinstance(obj, ClassV):
            owner, ent = self.class_lookup(obj, name)
            if ent is None:
                if name == "__name__":
                    return obj.name
                raise SymRaise("AttributeError", f"class {obj.name} has no attribute {name}")
            if ent[0] == "prop":
                p = ent[1]
                mk = lambda fi: self.make_closure(fi) if fi is not None else None  # noqa
                return PropertyV(mk(p.get("fget")), mk(p.get("fset")), mk(p.get("fdel")))
            return self.member_value(owner, ent, obj, name)
        if isinstance(obj, SuperV):
            cv = obj.obj.cls if isinstance(obj.obj, Obj) else obj.obj
            owner, ent = self.class_lookup(cv, name, after=obj.cls)
            if ent is None:
                raise SymRaise("AttributeError", f"super() has no attribute {name}")
            if ent[0] == "prop":
                fi = ent[1].get("fget")
                return self.call_function(fi, [obj.obj], {})
            return self.member_value(owner, ent, obj.obj, name)
        if isinstance(obj, Namespace):
            return obj.get(name)
        if isinstance(obj, RepoModuleV):
            return self.module_name(obj.info, name)
        if isinstance(obj, NamedTupleV):
            if name in obj.typ.fieldnames:
                return obj.get(name)
            raise SymRaise("AttributeError", name)
        if isinstance(obj, PropertyV):
            if name in ("fget", "fset", "fdel"):
                return getattr(obj, name)
            if name == "__set__":
                return lambda o, v: self.call(obj.fset, [o, v], {})
            if name == "__get__":
                return lambda o, t=None: self.call(obj.fget, [o], {})
            raise SymRaise("AttributeError", name)
        if isinstance(obj, Closure):
            if name == "__name__":
                return obj.qualname.split(".")[-1]
            raise SymRaise("AttributeError", name)
        return models.generic_getattr(self, obj, name)

    def setattr(self, obj, name, value):
        from . import models

        if isinstance(obj, Obj) and name == "__class__":
            obj.cls = value
            return
        if isinstance(obj, Obj):
            cv = obj.cls
            if cv is not None:
                prop = self.find_property(cv, name)
                if prop is not None:
                    if prop["fset"] is None:
                        raise SymRaise("AttributeError", f"property {name} has no setter")
                    self.call_function(prop["fset"], [obj, value], {})
                    return
                owner, ent = self.class_lookup(cv, "__setattr__")
                if ent is not None and ent[0] == "func":
                    fn = self.member_value(owner, ent, obj, "__setattr__")
                    self.call(fn, [name, value], {})
                    return
            self.raw_setattr(obj, name, value)
            return
        models.generic_setattr(self, obj, name, value)

    def raw_setattr(self, obj, name, value):
        obj.fields[name] = value
        obj.writes.append(name)

    def delattr(self, obj, name):
        if isinstance(obj, Obj):
            cv = obj.cls
            if cv is not None:
                prop = self.find_property(cv, name)
                if prop is not None:
                    if prop["fdel"] is None:
                        raise SymRaise("AttributeError", f"property {name} has no deleter")
                    self.call_function(prop["fdel"], [obj], {})
                    return
                owner, ent = self.class_lookup(cv, "__delattr__")
                if ent is not None and ent[0] == "func":
                    fn = self.member_value(owner, ent, obj, "__delattr__")
                    self.call(fn, [name], {})
                    return
            if name in obj.fields:
                del obj.fields[name]
                obj.writes.append(name)
                return
            raise SymRaise("AttributeError", name)
        raise Unsupported("delattr on non-object")

    def hasattr(self, obj, name):
        if name == "__iter__":
            # python protocol probe (`hasattr(x, "__iter__")`): containers and tensors are iterable, numbers are not
            if isinstance(obj, (tuple, list, dict, set, frozenset, str, GenList)):
                return True
            if isinstance(obj, (SV, int, float, bool)) or obj is None:
                return False
        try:
            self._getattr(obj, name)
            return True
        except SymRaise as e:
            if e.exc_name == "AttributeError":
                return False
            raise

    # ---------------------------------------------------------------- isinstance
    def isinstance(self, v, t):
        from . import models

        if isinstance(t, tuple):
            return any(self.isinstance(v, x) for x in t)
        if isinstance(t, TypeUnion):
            return any(self.isinstance(v, x) for x in t.members)
        return models.isinstance_(self, v, t)

    # ---------------------------------------------------------------- module-level name resolution
    def module_name(self, mod: repo.ModuleInfo, name):
        if name in mod.functions:
            fi = mod.functions[name]
            if (fi.file, fi.qualname) in self.trusted:
                return TrustedFn(self, fi, self.trusted[(fi.file, fi.qualname)])
            return self.make_closure(fi)
        if name in mod.classes:
            return self.classv(mod.classes[name])
        if name in mod.imports:
            imp = mod.imports[name]
            if imp[0] == "module":
                dotted = imp[1]
                if dotted in self.namespaces:
                    return self.namespaces[dotted]
                root = dotted.split(".")[0]
                if root in self.namespaces and dotted.startswith(root):
                    ns = self.namespaces[root]
                    for part in dotted.split(".")[1:]:
                        ns = ns.get(part)
                    return ns
                raise Unsupported(f"import {dotted} is not modelled")
            _, module, orig, level = imp
            # `from . import sub` / `from .pkg import sub`: submodule takes precedence when it exists
            subfile = repo.resolve_relative(mod, (module + "." if module else "") + orig, level) if level > 0 else None
            if subfile is not None:
                pkg = repo.resolve_relative(mod, module, level)
                pm = repo.load_module(pkg) if pkg else None
                if pm is None or (orig not in pm.functions and orig not in pm.classes and orig not in pm.assigns):
                    return RepoModuleV(repo.load_module(subfile))
            target = repo.resolve_relative(mod, module, level)
            if target is None:
                dotted = module
                key = f"{dotted}.{orig}"
                if key in self.namespaces:
                    return self.namespaces[key]
                if dotted in self.namespaces:
                    return self.namespaces[dotted].get(orig)
                raise Unsupported(f"from {dotted} import {orig} is not modelled")
            tmod = repo.load_module(target)
            # `from . import argtest` style: orig may be a submodule
            if orig not in tmod.functions and orig not in tmod.classes and orig not in tmod.imports and orig not in tmod.assigns:
                sub = repo.resolve_relative(tmod, orig, 1) if target.endswith("__init__.py") else None
                if sub is not None:
                    return RepoModuleV(repo.load_module(sub))
                raise Unsupported(f"cannot resolve {orig} in {target}")
            return self.module_name(tmod, orig)
        if name in mod.assigns:
            return self.eval_in_module(mod, mod.assigns[name])
        if name in self.builtins:
            return self.builtins[name]
        raise SymRaise("NameError", name)

    def eval_in_module(self, mod, expr, cls=None):
        return self.eval(expr, Env(), mod, cls)

    # ---------------------------------------------------------------- calls
    def bind(self, clo: Closure, args, kwargs):
        node = clo.node
        a = node.args
        env = Env(clo.env)
        params = [p.arg for p in a.posonlyargs] + [p.arg for p in a.args]
        nposonly = len(a.posonlyargs)
        args = list(args)
        kwargs = dict(kwargs)
        bound = {}
        if len(args) > len(params):
            if a.vararg is None:
                raise SymRaise("TypeError", f"{clo.qualname}() takes {len(params)} positional arguments but {len(args)} were given")
            bound[a.vararg.arg] = tuple(args[len(params):])
            args = args[: len(params)]
        elif a.vararg is not None:
            bound[a.vararg.arg] = ()
        for p, v in zip(params, args):
            bound[p] = v
        ndef = len(clo.defaults)
        for i, p in enumerate(params[len(args):], start=len(args)):
            if p in kwargs and i >= nposonly:
                bound[p] = kwargs.pop(p)
            else:
                di = i - (len(params) - ndef)
                if di >= 0:
                    bound[p] = clo.defaults[di]
                else:
                    raise SymRaise("TypeError", f"{clo.qualname}() missing required argument '{p}'")
        for p in params[: len(args)]:
            if p in kwargs and a.kwarg is None:
                raise SymRaise("TypeError", f"{clo.qualname}() got multiple values for argument '{p}'")
        for ka in a.kwonlyargs:
            if ka.arg in kwargs:
                bound[ka.arg] = kwargs.pop(ka.arg)
            elif ka.arg in clo.kw_defaults:
                bound[ka.arg] = clo.kw_defaults[ka.arg]
            else:
                raise SymRaise("TypeError", f"{clo.qualname}() missing required keyword-only argument '{ka.arg}'")
        if kwargs:
            if a.kwarg is None:
                raise SymRaise("TypeError", f"{clo.qualname}() got an unexpected keyword argument '{next(iter(kwargs))}'")
            bound[a.kwarg.arg] = kwargs
        elif a.kwarg is not None:
            bound[a.kwarg.arg] = {}
        env.vars.update(bound)
        return env

    def call_function(self, fi_or_clo, args, kwargs):
        if isinstance(fi_or_clo, repo.FuncInfo):
            fi_or_clo = self.make_closure(fi_or_clo)
        return self.call(fi_or_clo, args, kwargs)

    def call(self, fn, args, kwargs):
        from . import models

        self.fuel -= 1
        if self.fuel <= 0:
            raise Unsupported("execution budget exhausted")
        if isinstance(fn, BoundMethod):
            return self.call(fn.func, [fn.self_obj] + list(args), kwargs)
        if isinstance(fn, Partial):
            kw = dict(fn.kwargs)
            kw.update(kwargs)
            return self.call(fn.fn, fn.args + list(args), kw)
        if isinstance(fn, TrustedFn):
            self.used_trusted.add((fn.fi.file, fn.fi.qualname))
            return fn.model(self, *args, **kwargs)
        if isinstance(fn, Closure):
            fi = getattr(fn, "fi", None)
            if fi is not None:
                key = (fi.file, fi.qualname)
                if key in self.summaries and not getattr(self, "_verifying", None) == key:
                    self.used_summaries.add(key)
                    return self.summaries[key](self, fi, list(args), dict(kwargs))
                if key in self.trusted:
                    self.used_trusted.add(key)
                    return self.trusted[key](self, *args, **kwargs)
                self.inlined.add(key)
            if self.call_depth > self.max_depth:
                raise Unsupported(f"call depth exceeded in {fn.qualname}")
            # self-recursion without progress: CPython would raise RecursionError (termination obligation)
            nrec = self.call_stack.count(id(fn.node))
            if nrec > 20:
                raise SymRaise("RecursionError", f"unbounded self-recursion in {fn.qualname}")
            env = self.bind(fn, args, kwargs)
            self.call_depth += 1
            self.call_stack.append(id(fn.node))
            try:
                if isinstance(fn.node, ast.Lambda):
                    return self.eval(fn.node.body, env, fn.module, fn.cls)
                if _is_generator(fn.node):
                    # generator functions are evaluated EAGERLY: the body runs to completion at call time and the
                    # yielded values are returned as a list (assumption: finite, no interleaved side effects)
                    out = GenList()
                    self.gen_stack.append(out)
                    try:
                        self.exec_block(fn.node.body, env, fn.module, fn.cls, fn)
                    except _Return:
                        pass
                    finally:
                        self.gen_stack.pop()
                    return out
                try:
                    self.exec_block(fn.node.body, env, fn.module, fn.cls, fn)
                except _Return as r:
                    return r.value
                return None
            finally:
                self.call_depth -= 1
                self.call_stack.pop()
        if isinstance(fn, ClassV):
            return self.instantiate(fn, args, kwargs)
        if isinstance(fn, ExtMethod):
            return fn.fn(self, *args, **kwargs)
        if isinstance(fn, (NamedTupleType, WeakRef)):
            return fn(*args, **kwargs)
        if isinstance(fn, Obj):
            if "__call__" in fn.fields:
                return self.call(fn.fields["__call__"], args, kwargs)
            cv = fn.cls
            if cv is not None:
                owner, ent = self.class_lookup(cv, "__call__")
                if ent is not None:
                    return self.call(self.member_value(owner, ent, fn, "__call__"), args, kwargs)
            raise SymRaise("TypeError", f"{fn!r} is not callable")
        if isinstance(fn, models.Model):
            return fn.fn(self, *args, **kwargs)
        if callable(fn):
            return fn(*args, **kwargs)
        raise SymRaise("TypeError", f"{fn!r} is not callable")

    def instantiate(self, cv: ClassV, args, kwargs):
        obj = Obj(cv)
        owner, ent = self.class_lookup(cv, "__init__")
        if ent is not None:
            init = self.member_value(owner, ent, obj, "__init__")
            self.call(init, args, kwargs)
        return obj

    # ---------------------------------------------------------------- statements
    def exec_block(self, stmts, env, mod, cls, fn=None):
        for s in stmts:
            self.exec_stmt(s, env, mod, cls, fn)

    def exec_stmt(self, s, env, mod, cls, fn):
        self.fuel -= 1
        if self.fuel <= 0:
            raise Unsupported("execution budget exhausted")
        ev = lambda e: self.eval(e, env, mod, cls)  # noqa
        if isinstance(s, ast.Expr):
            if isinstance(s.value, ast.Constant) and isinstance(s.value.value, str):
                return  # docstring
            ev(s.value)
        elif isinstance(s, ast.Assign):
            v = ev(s.value)
            for tgt in s.targets:
                self.assign(tgt, v, env, mod, cls)
        elif isinstance(s, ast.AnnAssign):
            if s.value is not None:
                self.assign(s.target, ev(s.value), env, mod, cls)
        elif isinstance(s, ast.AugAssign):
            cur_v = ev(_as_load(s.target))
            v = self.binop(s.op, cur_v, ev(s.value), inplace=True)
            self.assign(s.target, v, env, mod, cls)
        elif isinstance(s, ast.Return):
            raise _Return(ev(s.value) if s.value is not None else None)
        elif isinstance(s, ast.If):
            # `if <test>: raise ...` is input validation: a failing sample aborts the whole call, nothing flows
            validation = len(s.body) == 1 and isinstance(s.body[0], ast.Raise) and not s.orelse
            if validation:
                tz.VALIDATION_TEST[0] += 1
            try:
                taken = self.truth(ev(s.test))
            finally:
                if validation:
                    tz.VALIDATION_TEST[0] -= 1
            if taken:
                self.exec_block(s.body, env, mod, cls, fn)
            else:
                self.exec_block(s.orelse, env, mod, cls, fn)
        elif isinstance(s, ast.Pass):
            return
        elif isinstance(s, ast.Raise):
            if s.exc is None:
                raise _Reraise()
            name = _exc_name(s.exc)
            raise SymRaise(name, "raise")
        elif isinstance(s, ast.Assert):
            if not self.truth(ev(s.test)):
                raise SymRaise("AssertionError", ast.unparse(s.test))
        elif isinstance(s, ast.With):
            for item in s.items:
                src = ast.unparse(item.context_expr)
                if src not in ("torch.no_grad()", "torch.enable_grad()"):
                    raise Unsupported(f"with {src}")
            self.exec_block(s.body, env, mod, cls, fn)
        elif isinstance(s, ast.For) and self.loop_contracts and self._loop_contract(s, fn) is not None:
            # a loop under contract: the registered handler checks the invariant (entry, one arbitrary iteration of the real
            # body, exit) instead of unrolling
            self._loop_contract(s, fn)(self, s, env, mod, cls, fn)
        elif isinstance(s, ast.For):
            it = ev(s.iter)
            items = self.iterate(it)
            broke = False
            for x in items:
                self.assign(s.target, x, env, mod, cls)
                try:
                    self.exec_block(s.body, env, mod, cls, fn)
                except _Break:
                    broke = True
                    break
                except _Continue:
                    continue
            if not broke:
                self.exec_block(s.orelse, env, mod, cls, fn)
        elif isinstance(s, ast.While):
            n = 0
            while self.truth(ev(s.test)):
                n += 1
                if n > 64:
                    raise Unsupported("while loop exceeds unrolling budget (needs an invariant)")
                try:
                    self.exec_block(s.body, env, mod, cls, fn)
                except _Break:
                    break
                except _Continue:
                    continue
        elif isinstance(s, ast.Break):
            raise _Break()
        elif isinstance(s, ast.Continue):
            raise _Continue()
        elif isinstance(s, ast.FunctionDef):
            defaults = [ev(d) for d in s.args.defaults]
            kwd = {a.arg: ev(d) for a, d in zip(s.args.kwonlyargs, s.args.kw_defaults) if d is not None}
            clo = Closure(s, env, mod, cls, f"{fn.qualname if fn else ''}.<locals>.{s.name}", defaults, kwd, self)
            env.set(s.name, clo)
        elif isinstance(s, ast.Delete):
            for tgt in s.targets:
                if isinstance(tgt, ast.Attribute):
                    self.delattr(ev(tgt.value), self.mangle(tgt.attr, cls))
                elif isinstance(tgt, ast.Subscript):
                    c = ev(tgt.value)
                    k = ev(tgt.slice)
                    self.delitem(c, k)
                elif isinstance(tgt, ast.Name):
                    env.vars.pop(tgt.id, None)
                else:
                    raise Unsupported("del target")
        elif isinstance(s, ast.Match):
            self.exec_match(s, env, mod, cls, fn)
        elif isinstance(s, ast.Nonlocal):
            env.nonlocals.update(s.names)
        elif isinstance(s, ast.Global):
            raise Unsupported("global statement")
        elif isinstance(s, ast.Try):
            self.exec_try(s, env, mod, cls, fn)
        elif isinstance(s, (ast.Import, ast.ImportFrom)):
            raise Unsupported("import inside function")
        else:
            raise Unsupported(f"statement {type(s).__name__}")

    def exec_try(self, s, env, mod, cls, fn):
        if s.finalbody:
            raise Unsupported("try/finally")
        try:
            self.exec_block(s.body, env, mod, cls, fn)
        except SymRaise as e:
            for h in s.handlers:
                names = []
                if h.type is None:
                    names = None
                elif isinstance(h.type, ast.Tuple):
                    names = [_exc_name(x) for x in h.type.elts]
                else:
                    names = [_exc_name(h.type)]
                if names is None or e.exc_name in names or "Exception" in names:
                    if h.name:
                        env.set(h.name, e)
                    try:
                        self.exec_block(h.body, env, mod, cls, fn)
                    except _Reraise:
                        raise e
                    return
            raise
        else:
            self.exec_block(s.orelse, env, mod, cls, fn)

    def exec_match(self, s, env, mod, cls, fn):
        subj = self.eval(s.subject, env, mod, cls)
        for case in s.cases:
            if case.guard is not None:
                raise Unsupported("match guard")
            if self.match_pattern(case.pattern, subj, env):
                self.exec_block(case.body, env, mod, cls, fn)
                return

    def match_pattern(self, pat, subj, env):
        if isinstance(pat, ast.MatchValue):
            v = self.eval(pat.value, env, None, None)
            return self.truth(self.compare(ast.Eq(), subj, v))
        if isinstance(pat, ast.MatchSingleton):
            if pat.value is None:
                return subj is None
            if isinstance(subj, SV):
                return self.truth(subj) if pat.value else not self.truth(subj)
            return subj is pat.value or (isinstance(subj, bool) and subj == pat.value)
        if isinstance(pat, ast.MatchSequence):
            if not isinstance(subj, (tuple, list)):
                return False
            if any(isinstance(p, ast.MatchStar) for p in pat.patterns):
                raise Unsupported("match star")
            if len(pat.patterns) != len(subj):
                return False
            for p, v in zip(pat.patterns, subj):
                if not self.match_pattern(p, v, env):
                    return False
            return True
        if isinstance(pat, ast.MatchAs):
            if pat.pattern is not None:
                if not self.match_pattern(pat.pattern, subj, env):
                    return False
            if pat.name is not None:
                env.set(pat.name, subj)
            return True
        if isinstance(pat, ast.MatchOr):
            for p in pat.patterns:
                if self.match_pattern(p, subj, env):
                    return True
            return False
        raise Unsupported(f"match pattern {type(pat).__name__}")

    def assign(self, tgt, v, env, mod, cls):
        if isinstance(tgt, ast.Name):
            env.set(tgt.id, v)
        elif isinstance(tgt, (ast.Tuple, ast.List)):
            vals = list(self.iterate(v))
            stars = [i for i, e in enumerate(tgt.elts) if isinstance(e, ast.Starred)]
            if stars:
                i = stars[0]
                after = len(tgt.elts) - i - 1
                if len(vals) < len(tgt.elts) - 1:
                    raise SymRaise("ValueError", "not enough values to unpack")
                head, mid, tail = vals[:i], vals[i: len(vals) - after], vals[len(vals) - after:]
                for e, x in zip(tgt.elts[:i], head):
                    self.assign(e, x, env, mod, cls)
                self.assign(tgt.elts[i].value, list(mid), env, mod, cls)
                for e, x in zip(tgt.elts[i + 1:], tail):
                    self.assign(e, x, env, mod, cls)
            else:
                if len(vals) != len(tgt.elts):
                    raise SymRaise("ValueError", "unpack arity")
                for e, x in zip(tgt.elts, vals):
                    self.assign(e, x, env, mod, cls)
        elif isinstance(tgt, ast.Attribute):
            o = self.eval(tgt.value, env, mod, cls)
            self.setattr(o, self.mangle(tgt.attr, cls), v)
        elif isinstance(tgt, ast.Subscript):
            c = self.eval(tgt.value, env, mod, cls)
            k = self.eval(tgt.slice, env, mod, cls)
            self.setitem(c, k, v)
        else:
            raise Unsupported(f"assignment target {type(tgt).__name__}")

    # ---------------------------------------------------------------- containers
    loop_contracts: dict = {}

    def _loop_contract(self, node, fn):
        if fn is None or getattr(fn, "node", None) is None:
            return None
        loops = sorted((n for n in ast.walk(fn.node) if isinstance(n, (ast.For, ast.While))), key=lambda n: (n.lineno, n.col_offset))
        try:
            k = loops.index(node)
        except ValueError:
            return None
        return self.loop_contracts.get((fn.qualname, k))

    def iterate(self, it):
        from . import models

        if isinstance(it, (list, tuple)):
            return list(it)
        if isinstance(it, dict):
            return list(it.keys())
        if isinstance(it, (range, map, zip, enumerate, filter)) or hasattr(it, "__next__"):
            return list(it)
        if isinstance(it, (set, frozenset)):
            return list(it)
        if isinstance(it, type({}.keys())) or isinstance(it, type({}.values())) or isinstance(it, type({}.items())):
            return list(it)
        if isinstance(it, NamedTupleV):
            return list(it.vals)
        if isinstance(it, tz.Shape):
            return list(iter(it))
        if isinstance(it, str):
            return list(it)
        return models.generic_iterate(self, it)

    def getitem(self, c, k):
        from . import models

        if isinstance(c, (list, tuple)):
            if isinstance(k, slice):
                return c[_concrete_slice(k)]
            if isinstance(k, SV):
                return models.symbolic_list_index(self, c, k)
            try:
                return c[operator.index(k)]
            except IndexError:
                raise SymRaise("IndexError", "list index out of range")
        if isinstance(c, dict):
            if isinstance(k, SV):
                return models.symbolic_dict_get(self, c, k)
            if k in c:
                return c[k]
            # symbolic keys stored?
            sk = [x for x in c if isinstance(x, SV)]
            if sk:
                return models.symbolic_dict_get(self, c, k)
            raise SymRaise("KeyError", repr(k))
        if isinstance(c, str):
            return c[k]
        if isinstance(c, (T, tz.Shape, SymSeq, NamedTupleV)):
            return c[k]
        return models.generic_getitem(self, c, k)

    def setitem(self, c, k, v):
        from . import models

        if isinstance(c, list):
            if isinstance(k, SV):
                return models.symbolic_list_set(self, c, k, v)
            c[k] = v
            return
        if isinstance(c, dict):
            if isinstance(k, SV) or any(isinstance(x, SV) for x in c):
                return models.symbolic_dict_set(self, c, k, v)
            c[k] = v
            return
        if isinstance(c, (T, SymSeq)):
            c[k] = v
            return
        return models.generic_setitem(self, c, k, v)

    def delitem(self, c, k):
        from . import models

        if isinstance(c, dict):
            if isinstance(k, SV) or any(isinstance(x, SV) for x in c):
                return models.symbolic_dict_del(self, c, k)
            if k not in c:
                raise SymRaise("KeyError", repr(k))
            del c[k]
            return
        if isinstance(c, list):
            del c[k]
            return
        return models.generic_delitem(self, c, k)

    def contains(self, c, x):
        from . import models

        if isinstance(c, dict):
            if isinstance(x, SV) or any(isinstance(k, SV) for k in c):
                return models.symbolic_dict_contains(self, c, x)
            return x in c
        if isinstance(c, (list, tuple, set, frozenset)):
            if isinstance(x, (SV, T)) or any(isinstance(e, (SV,)) for e in c):
                r = False
                for e in c:
                    r = self.boolop_or(r, self.compare(ast.Eq(), x, e))
                return r
            return any(_py_eq(x, e) for e in c)
        if isinstance(c, str):
            if isinstance(x, str):
                return x in c
            return False
        if isinstance(c, type({}.keys())):
            return x in c
        return models.generic_contains(self, c, x)

    def boolop_or(self, a, b):
        if a is True or b is True:
            return True
        if a is False:
            return b
        if b is False:
            return a
        return wrap(z3.Or(as_bool(a), as_bool(b)))

    # ---------------------------------------------------------------- truthiness
    def truth(self, v) -> bool:
        from . import models

        if v is None:
            return False
        if isinstance(v, bool):
            return v
        if isinstance(v, GenList):
            return True
        if isinstance(v, (int, float, str, tuple, list, dict, set, frozenset)):
            return bool(v)
        if isinstance(v, SV):
            return cur().branch(sym.truth(v))
        if isinstance(v, T):
            return bool(v)
        if isinstance(v, (Obj, Closure, BoundMethod, ClassV, ExtType, Namespace, WeakRef, Partial, PropertyV)):
            if isinstance(v, Obj):
                return models.obj_truth(self, v)
            return True
        if isinstance(v, Finalizer):
            return True
        if isinstance(v, tz.Shape):
            n = v.ndim()
            if isinstance(n, int):
                return n > 0
            return cur().branch(num(n) > 0)
        return models.generic_truth(self, v)

    # ---------------------------------------------------------------- expressions
    def eval(self, e, env, mod, cls):
        m = getattr(self, "e_" + type(e).__name__, None)
        if m is None:
            raise Unsupported(f"expression {type(e).__name__}")
        return m(e, env, mod, cls)

    def e_Constant(self, e, env, mod, cls):
        return e.value

    def e_Name(self, e, env, mod, cls):
        if env.has(e.id):
            return env.lookup(e.id)
        if mod is not None:
            return self.module_name(mod, e.id)
        if e.id in self.builtins:
            return self.builtins[e.id]
        raise SymRaise("NameError", e.id)

    def e_Attribute(self, e, env, mod, cls):
        o = self.eval(e.value, env, mod, cls)
        return self.getattr(o, self.mangle(e.attr, cls))

    def e_Tuple(self, e, env, mod, cls):
        return tuple(self._elts(e.elts, env, mod, cls))

    def e_List(self, e, env, mod, cls):
        return list(self._elts(e.elts, env, mod, cls))

    def e_Set(self, e, env, mod, cls):
        return set(self._elts(e.elts, env, mod, cls))

    def _elts(self, elts, env, mod, cls):
        out = []
        for x in elts:
            if isinstance(x, ast.Starred):
                v = self.eval(x.value, env, mod, cls)
                if isinstance(v, SymSeq):
                    out.append(StarArg(v))
                elif isinstance(v, tz.Shape):
                    out.extend(iter(v))
                else:
                    out.extend(self.iterate(v))
            else:
                out.append(self.eval(x, env, mod, cls))
        return out

    def e_Dict(self, e, env, mod, cls):
        d = {}
        for k, v in zip(e.keys, e.values):
            if k is None:
                d.update(self.eval(v, env, mod, cls))
            else:
                d[self.eval(k, env, mod, cls)] = self.eval(v, env, mod, cls)
        return d

    def e_JoinedStr(self, e, env, mod, cls):
        parts = []
        for v in e.values:
            if isinstance(v, ast.Constant):
                parts.append(str(v.value))
            else:
                try:
                    x = self.eval(v.value, env, mod, cls)
                except (Unsupported, SymRaise):
                    x = "?"
                if isinstance(x, (str, int, float, bool)) or x is None:
                    parts.append(str(x))
                else:
                    return OpaqueStr("".join(parts) + "<sym>")
        return "".join(parts)

    def e_IfExp(self, e, env, mod, cls):
        if self.truth(self.eval(e.test, env, mod, cls)):
            return self.eval(e.body, env, mod, cls)
        return self.eval(e.orelse, env, mod, cls)

    def e_Yield(self, e, env, mod, cls):
        if not self.gen_stack:
            raise Unsupported("yield outside a generator frame")
        self.gen_stack[-1].append(None if e.value is None else self.eval(e.value, env, mod, cls))
        return None

    def e_YieldFrom(self, e, env, mod, cls):
        if not self.gen_stack:
            raise Unsupported("yield from outside a generator frame")
        for v in self.iterate(self.eval(e.value, env, mod, cls)):
            self.gen_stack[-1].append(v)
        return None

    def e_Lambda(self, e, env, mod, cls):
        defaults = [self.eval(d, env, mod, cls) for d in e.args.defaults]
        kwd = {a.arg: self.eval(d, env, mod, cls) for a, d in zip(e.args.kwonlyargs, e.args.kw_defaults) if d is not None}
        return Closure(e, env, mod, cls, "<lambda>", defaults, kwd, self)

    def e_NamedExpr(self, e, env, mod, cls):
        v = self.eval(e.value, env, mod, cls)
        env.set(e.target.id, v)
        return v

    def e_Starred(self, e, env, mod, cls):
        raise Unsupported("starred expression in this position")

    def e_Slice(self, e, env, mod, cls):
        g = lambda x: None if x is None else self.eval(x, env, mod, cls)  # noqa
        return slice(g(e.lower), g(e.upper), g(e.step))

    def e_Subscript(self, e, env, mod, cls):
        c = self.eval(e.value, env, mod, cls)
        k = self.eval(e.slice, env, mod, cls)
        return self.getitem(c, k)

    def e_BoolOp(self, e, env, mod, cls):
        is_and = isinstance(e.op, ast.And)
        v = None
        for i, x in enumerate(e.values):
            v = self.eval(x, env, mod, cls)
            last = i == len(e.values) - 1
            if last:
                return v
            t = self.truth(v)
            if is_and and not t:
                return v
            if not is_and and t:
                return v
        return v

    def e_UnaryOp(self, e, env, mod, cls):
        v = self.eval(e.operand, env, mod, cls)
        if isinstance(e.op, ast.Not):
            if isinstance(v, SV):
                return wrap(z3.Not(sym.truth(v)))
            return not self.truth(v)
        if isinstance(e.op, ast.USub):
            return -v
        if isinstance(e.op, ast.UAdd):
            return +v
        if isinstance(e.op, ast.Invert):
            return ~v
        raise Unsupported("unary op")

    def e_BinOp(self, e, env, mod, cls):
        a = self.eval(e.left, env, mod, cls)
        b = self.eval(e.right, env, mod, cls)
        return self.binop(e.op, a, b)

    def binop(self, op, a, b, inplace=False):
        from . import models

        r = models.binop_hook(self, op, a, b)
        if r is not MISSING:
            return r
        if isinstance(a, bool) and isinstance(b, (SV, T)):
            a = int(a) if not isinstance(op, (ast.BitAnd, ast.BitOr, ast.BitXor)) else a
        if isinstance(b, bool) and isinstance(a, (SV, T)):
            b = int(b) if not isinstance(op, (ast.BitAnd, ast.BitOr, ast.BitXor)) else b
        fn = _BINOPS.get(type(op))
        if fn is None:
            raise Unsupported(f"binary op {type(op).__name__}")
        try:
            if inplace and isinstance(a, T) and not isinstance(op, (ast.MatMult,)):
                # torch tensors implement __iadd__/__imul__/... IN PLACE: mutate the object (all aliases see it)
                return a._inplace_full(fn(a, b))
            return fn(a, b)
        except ZeroDivisionError:
            raise SymRaise("ZeroDivisionError")
        except TypeError as ex:
            if isinstance(a, (SV, T, Obj)) or isinstance(b, (SV, T, Obj)):
                raise Unsupported(f"binary op {type(op).__name__} on {type(a).__name__},{type(b).__name__}: {ex}")
            raise SymRaise("TypeError", str(ex))

    def e_Compare(self, e, env, mod, cls):
        left = self.eval(e.left, env, mod, cls)
        res = None
        for op, rx in zip(e.ops, e.comparators):
            right = self.eval(rx, env, mod, cls)
            r = self.compare(op, left, right)
            if res is None:
                res = r
            else:
                if isinstance(res, (SV,)) or isinstance(r, SV):
                    res = wrap(z3.And(as_bool(res), as_bool(r)))
                elif isinstance(res, T) or isinstance(r, T):
                    raise Unsupported("chained comparison on tensors")
                else:
                    res = res and r
            if res is False:
                return False
            left = right
        return res

    def compare(self, op, a, b):
        from . import models

        if isinstance(op, ast.Is):
            return _identical(a, b)
        if isinstance(op, ast.IsNot):
            return not _identical(a, b)
        if isinstance(op, ast.In):
            return self.contains(b, a)
        if isinstance(op, ast.NotIn):
            r = self.contains(b, a)
            if isinstance(r, SV):
                return wrap(z3.Not(as_bool(r)))
            return not r
        r = models.compare_hook(self, op, a, b)
        if r is not MISSING:
            return r
        if isinstance(a, (tuple, list)) and isinstance(b, (tuple, list)) and isinstance(op, (ast.Eq, ast.NotEq)):
            eq = self.seq_eq(a, b)
            if isinstance(op, ast.Eq):
                return eq
            return wrap(z3.Not(as_bool(eq))) if isinstance(eq, SV) else (not eq)
        if isinstance(a, tz.Shape) or isinstance(b, tz.Shape):
            sa = a if isinstance(a, tz.Shape) else tz.mkshape(a)
            eq = sa == (b if isinstance(b, tz.Shape) else tz.mkshape(b))
            if isinstance(op, ast.Eq):
                return eq
            if isinstance(op, ast.NotEq):
                return wrap(z3.Not(as_bool(eq))) if isinstance(eq, SV) else (not eq)
            raise Unsupported("ordering of shapes")
        fn = _CMPOPS[type(op)]
        try:
            return fn(a, b)
        except TypeError as ex:
            if isinstance(a, (SV, T)) or isinstance(b, (SV, T)):
                raise Unsupported(f"comparison: {ex}")
            raise SymRaise("TypeError", str(ex))

    def seq_eq(self, a, b):
        if any(isinstance(x, (StarArg, tz.StarItem)) for x in list(a) + list(b)):
            return tz.mkshape(_flatten_star(a)) == tz.mkshape(_flatten_star(b))
        if len(a) != len(b):
            return False
        conj = []
        for x, y in zip(a, b):
            r = self.compare(ast.Eq(), x, y)
            if r is False:
                return False
            if r is True:
                continue
            conj.append(as_bool(r))
        if not conj:
            return True
        return wrap(z3.And(*conj))

    def e_Call(self, e, env, mod, cls):
        # super() needs lexical context
        if isinstance(e.func, ast.Name) and e.func.id == "super" and not env.has("super"):
            if e.args:
                c = self.eval(e.args[0], env, mod, cls)
                o = self.eval(e.args[1], env, mod, cls)
                return SuperV(c, o)
            selfv = _first_param(env)
            cv = self.classv(repo.load_module(mod.file).classes[cls]) if cls in mod.classes else self.classv(repo.find_class(cls))
            return SuperV(cv, selfv)
        fn = self.eval(e.func, env, mod, cls)
        args = []
        for a in e.args:
            if isinstance(a, ast.Starred):
                v = self.eval(a.value, env, mod, cls)
                if isinstance(v, SymSeq):
                    args.append(StarArg(v))
                elif isinstance(v, tz.Shape):
                    args.extend(iter(v))
                else:
                    args.extend(self.iterate(v))
            else:
                args.append(self.eval(a, env, mod, cls))
        kwargs = {}
        for k in e.keywords:
            if k.arg is None:
                d = self.eval(k.value, env, mod, cls)
                if not isinstance(d, dict):
                    raise Unsupported("** of non-dict")
                for kk, vv in d.items():
                    if kk in kwargs:
                        raise SymRaise("TypeError", f"multiple values for keyword argument '{kk}'")
                    kwargs[kk] = vv
            else:
                kwargs[k.arg] = self.eval(k.value, env, mod, cls)
        return self.call(fn, args, kwargs)

    def _comp(self, gens, env, mod, cls, emit):
        def rec(i, env):
            if i == len(gens):
                emit(env)
                return
            g = gens[i]
            for x in self.iterate(self.eval(g.iter, env, mod, cls)):
                e2 = Env(env)
                self.assign(g.target, x, e2, mod, cls)
                if all(self.truth(self.eval(c, e2, mod, cls)) for c in g.ifs):
                    rec(i + 1, e2)

        rec(0, env)

    def e_ListComp(self, e, env, mod, cls):
        out = []
        self._comp(e.generators, env, mod, cls, lambda en: out.append(self.eval(e.elt, en, mod, cls)))
        return out

    def e_GeneratorExp(self, e, env, mod, cls):
        return GenList(self.e_ListComp(e, env, mod, cls))

    def e_SetComp(self, e, env, mod, cls):
        return set(self.e_ListComp(e, env, mod, cls))

    def e_DictComp(self, e, env, mod, cls):
        out = {}

        def emit(en):
            out[self.eval(e.key, en, mod, cls)] = self.eval(e.value, en, mod, cls)

        self._comp(e.generators, env, mod, cls, emit)
        return out


class GenList(list):
    """eagerly evaluated generator / generator expression: a list that is TRUTHY even when empty (generator objects
    always are); single-use exhaustion is not modelled"""


_GEN_CACHE = {}


def _is_generator(node):
    k = id(node)
    if k not in _GEN_CACHE:
        found = False
        if isinstance(node, (ast.FunctionDef, ast.AsyncFunctionDef)):
            stack = list(node.body)
            while stack:
                n = stack.pop()
                if isinstance(n, (ast.Yield, ast.YieldFrom)):
                    found = True
                    break
                if isinstance(n, (ast.FunctionDef, ast.AsyncFunctionDef, ast.Lambda, ast.ClassDef)):
                    continue
                stack.extend(ast.iter_child_nodes(n))
        _GEN_CACHE[k] = (found, node)
    return _GEN_CACHE[k][0]


class ExtMethod:
    """Method of an external (torch) base class implemented by a python model: fn(interp, self, *args)."""

    def __init__(self, fn, name=""):
        self.fn = fn
        self.name = name

    def __repr__(self):
        return f"<ext method {self.name}>"


class TrustedFn:
    def __init__(self, interp, fi, model):
        self.interp, self.fi, self.model = interp, fi, model


# ----------------------------------------------------------------------- helpers
def _ext_mro(t):
    out = []
    for b in getattr(t, "bases", ()):
        out.append(b)
        out.extend(_ext_mro(b))
    return out


def _same_type(a, b):
    if a is b:
        return True
    if isinstance(a, DynClassV) or isinstance(b, DynClassV):
        return a is b
    if isinstance(a, ClassV) and isinstance(b, ClassV):
        return a.info.name == b.info.name and a.info.file == b.info.file
    if isinstance(a, ExtType) and isinstance(b, ExtType):
        return a.name == b.name
    return False


def _in_tail(c, seq):
    return any(_same_type(c, x) for x in seq[1:])


def _as_load(t):
    import copy

    t2 = copy.copy(t)
    t2.ctx = ast.Load()
    return t2


def _exc_name(e):
    if isinstance(e, ast.Call):
        e = e.func
    if isinstance(e, ast.Name):
        return e.id
    if isinstance(e, ast.Attribute):
        return e.attr
    return "Exception"


def _first_param(env):
    e = env
    while e is not None:
        if "self" in e.vars:
            return e.vars["self"]
        if "cls" in e.vars:
            return e.vars["cls"]
        e = e.parent
    raise Unsupported("super() outside a method")


def _identical(a, b):
    if a is b:
        return True
    if a is None or b is None:
        return False
    if isinstance(a, (bool, int, str)) and isinstance(b, (bool, int, str)):
        return type(a) is type(b) and a == b
    if isinstance(a, (ClassV, ExtType)) and isinstance(b, (ClassV, ExtType)):
        return _same_type(a, b)
    if isinstance(a, tz.DType) and isinstance(b, tz.DType):
        return a == b
    return False


def _py_eq(x, e):
    if isinstance(x, (ClassV, ExtType)) or isinstance(e, (ClassV, ExtType)):
        return _identical(x, e)
    try:
        return bool(x == e)
    except Exception:
        return x is e


def _concrete_slice(k):
    def c(x):
        if x is None or isinstance(x, int):
            return x
        raise Unsupported("symbolic slice of a python sequence")

    return slice(c(k.start), c(k.stop), c(k.step))


def _flatten_star(seq):
    out = []
    for x in seq:
        if isinstance(x, StarArg):
            raise Unsupported("symbolic-length sequence in shape comparison")
        out.append(x)
    return out


def _bitor(a, b):
    return a | b


_BINOPS = {
    ast.Add: operator.add,
    ast.Sub: operator.sub,
    ast.Mult: operator.mul,
    ast.Div: operator.truediv,
    ast.FloorDiv: operator.floordiv,
    ast.Mod: operator.mod,
    ast.Pow: operator.pow,
    ast.BitAnd: operator.and_,
    ast.BitOr: _bitor,
    ast.BitXor: operator.xor,
    ast.MatMult: operator.matmul,
}
_CMPOPS = {
    ast.Eq: operator.eq,
    ast.NotEq: operator.ne,
    ast.Lt: operator.lt,
    ast.LtE: operator.le,
    ast.Gt: operator.gt,
    ast.GtE: operator.ge,
}
