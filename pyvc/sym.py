"""Symbolic scalar values, the path explorer and the Python-number semantics of the encoding.

Python ``int``  -> z3 Int (exact, unbounded).
Python ``float``/floating tensors -> z3 Real (assumption A1: no rounding, no inf/nan).
"""
from __future__ import annotations

import itertools
from fractions import Fraction

import z3


class Unsupported(Exception):
    """Construct outside the modelled Python/torch subset: function is out of reach (never a violation)."""


class SymRaise(Exception):
    """The code under verification raised an exception on this path."""

    def __init__(self, exc_name, detail=""):
        super().__init__(exc_name, detail)
        self.exc_name = exc_name
        self.detail = detail


class PathAbort(Exception):
    """Current path is infeasible (assumption contradicted)."""


# --------------------------------------------------------------------------- explorer


def hard_check(solver, *assumptions, timeout_ms=4000):
    """solver.check; z3's soft ``timeout`` is set on the solver.  Hard wall-clock limits are enforced one level up:
    every contract is verified in its own process which the driver terminates after a hard deadline (pyvc/cli.py)."""
    try:
        return solver.check(*assumptions)
    except z3.Z3Exception:
        return z3.unknown


class Explorer:
    """Enumerates execution paths by re-execution with a decision prefix."""

    current: "Explorer | None" = None

    def __init__(self, branch_timeout_ms=4000, max_paths=4000, budget_s=None):
        import os as _os
        import time as _time

        self.deadline = _time.time() + float(budget_s if budget_s is not None else _os.environ.get("PYVC_CONTRACT_BUDGET_S", "400"))
        self.prefix: list[bool] = []
        self.decisions: list[bool] = []
        self.pc: list = []  # path condition + assumptions (z3 BoolRefs)
        self.worklist: list[list[bool]] = []
        self.branch_timeout_ms = branch_timeout_ms
        self.max_paths = max_paths
        self.npaths = 0
        self.solver = None
        self.notes: list[str] = []
        self.fresh_counter = itertools.count()
        self.side_obligations: list = []  # (label, formula, pc-snapshot)
        self.undecided_branches = 0
        self.path_marks: set = set()
        self.keepalive: list = []
        self.defs: dict = {}
        self._scope = 0
        self._deferred: list = []

    # -- per path
    def begin_path(self, prefix):
        self.prefix = list(prefix)
        self.decisions = []
        self.pc = []
        self.solver = z3.Solver()
        self.solver.set("timeout", self.branch_timeout_ms)
        self.fresh_counter = itertools.count()
        self.side_obligations = []
        self.path_marks = set()
        self.defs = {}
        self._scope = 0
        self._deferred = []
        self.batch_events = []  # cross-batch information flows observed on this path (C11)

    def fresh_name(self, base):
        return f"{base}!{next(self.fresh_counter)}"

    def assume(self, f):
        f = as_bool(f)
        if z3.is_true(f):
            return
        self.pc.append(f)
        self.solver.add(f)
        if self._scope:
            self._deferred.append(f)

    def feasible(self, extra=None):
        if extra is not None:
            r = hard_check(self.solver, extra, timeout_ms=self.branch_timeout_ms)
        else:
            r = hard_check(self.solver, timeout_ms=self.branch_timeout_ms)
        return r  # z3.sat / unsat / unknown

    def implied(self, f) -> bool:
        """pc => f  (cheap query; unknown counts as not implied)."""
        self.check_budget()
        f = as_bool(f)
        if z3.is_true(f):
            return True
        return hard_check(self.solver, z3.Not(f), timeout_ms=self.branch_timeout_ms) == z3.unsat

    def prove(self, hyps, goal_fn, timeout_ms=None) -> bool:
        """pc /\\ hyps |= goal ?  ``goal_fn`` is called with the hypotheses already visible to range analysis."""
        self.solver.push()
        self._scope += 1
        try:
            for h in hyps:
                self.solver.add(as_bool(h))
            g = as_bool(goal_fn())
            if timeout_ms:
                self.solver.set("timeout", timeout_ms)
            r = hard_check(self.solver, z3.Not(g), timeout_ms=timeout_ms or self.branch_timeout_ms)
            return r == z3.unsat
        finally:
            self.solver.set("timeout", self.branch_timeout_ms)
            self.solver.pop()
            self._scope -= 1
            if not self._scope:
                for f in self._deferred:
                    self.solver.add(f)
                self._deferred = []

    def check_budget(self):
        import time as _time

        if _time.time() > self.deadline:
            raise Unsupported("per-contract time budget exhausted (undecided, not a violation)")

    def branch(self, cond) -> bool:
        self.check_budget()
        cond = z3.simplify(as_bool(cond))
        if z3.is_true(cond):
            return True
        if z3.is_false(cond):
            return False
        i = len(self.decisions)
        if i < len(self.prefix):
            d = self.prefix[i]
        else:
            rt = hard_check(self.solver, cond, timeout_ms=self.branch_timeout_ms)
            rf = hard_check(self.solver, z3.Not(cond), timeout_ms=self.branch_timeout_ms)
            if rt == z3.unknown or rf == z3.unknown:
                self.undecided_branches += 1
            t_ok = rt != z3.unsat
            f_ok = rf != z3.unsat
            if t_ok and f_ok:
                self.worklist.append(self.decisions + [False])
                d = True
            elif t_ok:
                d = True
            elif f_ok:
                d = False
            else:
                raise PathAbort()
        self.decisions.append(d)
        c = cond if d else z3.Not(cond)
        self.pc.append(c)
        self.solver.add(c)
        return d

    def obligation(self, label, formula):
        """Safety obligation generated by the executor (div != 0, index in bounds, ...)."""
        self.side_obligations.append((label, as_bool(formula), list(self.pc)))

    # -- driver
    def explore(self, fn):
        """Run ``fn()`` once per feasible path. Yields (path_index, decisions, result_of_fn)."""
        self.worklist = [[]]
        out = []
        while self.worklist:
            prefix = self.worklist.pop()
            if self.npaths >= self.max_paths:
                raise Unsupported(f"path limit {self.max_paths} exceeded")
            self.check_budget()
            self.begin_path(prefix)
            prev = Explorer.current
            Explorer.current = self
            try:
                try:
                    res = fn()
                except PathAbort:
                    continue
            finally:
                Explorer.current = prev
            self.npaths += 1
            out.append((self.npaths - 1, list(self.decisions), res))
        return out


def cur() -> Explorer:
    if Explorer.current is None:
        raise RuntimeError("no active explorer")
    return Explorer.current


# --------------------------------------------------------------------------- scalars


def to_real_const(x: float):
    return z3.RealVal(str(Fraction(repr(float(x))))) if x == x and x not in (float("inf"), float("-inf")) else None


class SV:
    """Symbolic scalar: z3 Int / Real / Bool term with Python operator semantics."""

    __slots__ = ("z",)

    def __init__(self, z):
        self.z = z

    # sorts
    @property
    def is_bool(self):
        return z3.is_bool(self.z)

    @property
    def is_int(self):
        return z3.is_int(self.z)

    @property
    def is_real(self):
        return z3.is_real(self.z)

    def __repr__(self):
        return f"SV({self.z})"

    def __hash__(self):
        return hash(self.z)

    # truthiness -> path split
    def __bool__(self):
        return cur().branch(truth(self))

    # arithmetic
    def __add__(self, o):
        if _defer(o):
            return NotImplemented
        return arith("+", self, o)

    def __radd__(self, o):
        if _defer(o):
            return NotImplemented
        return arith("+", o, self)

    def __sub__(self, o):
        if _defer(o):
            return NotImplemented
        return arith("-", self, o)

    def __rsub__(self, o):
        if _defer(o):
            return NotImplemented
        return arith("-", o, self)

    def __mul__(self, o):
        if _defer(o):
            return NotImplemented
        return arith("*", self, o)

    def __rmul__(self, o):
        if _defer(o):
            return NotImplemented
        return arith("*", o, self)

    def __truediv__(self, o):
        if _defer(o):
            return NotImplemented
        return arith("/", self, o)

    def __rtruediv__(self, o):
        if _defer(o):
            return NotImplemented
        return arith("/", o, self)

    def __floordiv__(self, o):
        if _defer(o):
            return NotImplemented
        return arith("//", self, o)

    def __rfloordiv__(self, o):
        return arith("//", o, self)

    def __mod__(self, o):
        if _defer(o):
            return NotImplemented
        return arith("%", self, o)

    def __rmod__(self, o):
        return arith("%", o, self)

    def __pow__(self, o):
        if _defer(o):
            return NotImplemented
        return arith("**", self, o)

    def __rpow__(self, o):
        if _defer(o):
            return NotImplemented
        return arith("**", o, self)

    def __neg__(self):
        return SV(-num(self))

    def __pos__(self):
        return self

    def __abs__(self):
        return SV(zabs(num(self)))

    def __invert__(self):
        if self.is_bool:
            return SV(z3.Not(self.z))
        raise Unsupported("~ on non-bool scalar")

    def __and__(self, o):
        return SV(z3.And(as_bool(self), as_bool(o)))

    __rand__ = __and__

    def __or__(self, o):
        return SV(z3.Or(as_bool(self), as_bool(o)))

    __ror__ = __or__

    def __xor__(self, o):
        return SV(z3.Xor(as_bool(self), as_bool(o)))

    # comparisons
    def __lt__(self, o):
        if _defer(o):
            return NotImplemented
        return compare("<", self, o)

    def __le__(self, o):
        if _defer(o):
            return NotImplemented
        return compare("<=", self, o)

    def __gt__(self, o):
        if _defer(o):
            return NotImplemented
        return compare(">", self, o)

    def __ge__(self, o):
        if _defer(o):
            return NotImplemented
        return compare(">=", self, o)

    def __eq__(self, o):  # noqa
        if _defer(o):
            return NotImplemented
        return compare("==", self, o)

    def __ne__(self, o):  # noqa
        if _defer(o):
            return NotImplemented
        return compare("!=", self, o)

    def __int__(self):
        raise Unsupported("int() of symbolic via python protocol")

    def __index__(self):
        raise Unsupported("symbolic value used as a concrete index")

    def __float__(self):
        raise Unsupported("float() of symbolic via python protocol")


def _defer(o):
    return getattr(o, "_is_symbolic_tensor", False)


def is_sym(x):
    return isinstance(x, SV)


def num(x):
    """z3 arithmetic term for a scalar (bool -> 0/1)."""
    if isinstance(x, SV):
        z = x.z
        if z3.is_bool(z):
            return z3.If(z, z3.IntVal(1), z3.IntVal(0))
        return z
    if isinstance(x, bool):
        return z3.IntVal(1 if x else 0)
    if isinstance(x, int):
        return z3.IntVal(x)
    if isinstance(x, float):
        r = to_real_const(x)
        if r is None:
            raise Unsupported(f"non-finite float constant {x}")
        return r
    if isinstance(x, Fraction):
        return z3.RealVal(str(x))
    if z3.is_expr(x):
        if z3.is_bool(x):
            return z3.If(x, z3.IntVal(1), z3.IntVal(0))
        return x
    raise Unsupported(f"not a number: {type(x).__name__}")


def as_bool(x):
    """z3 Bool for a python/z3/SV boolean (no truthiness conversion of numbers)."""
    if isinstance(x, SV):
        if z3.is_bool(x.z):
            return x.z
        return x.z != 0
    if isinstance(x, bool):
        return z3.BoolVal(x)
    if z3.is_expr(x):
        if z3.is_bool(x):
            return x
        return x != 0
    if isinstance(x, (int, float)):
        return z3.BoolVal(bool(x))
    raise Unsupported(f"not a boolean: {type(x).__name__}")


def truth(x):
    """Python truthiness of a scalar as a z3 Bool."""
    return as_bool(x)


def wrap(z):
    """SV, folded to a Python constant when the term is a numeral."""
    z = z3.simplify(z) if z3.is_expr(z) else z
    if z3.is_true(z):
        return True
    if z3.is_false(z):
        return False
    if z3.is_int_value(z):
        return z.as_long()
    return SV(z)


def _isint(t):
    return z3.is_int(t)


def pymod_int(a, b):
    ex = Explorer.current
    if z3.is_int_value(b):
        if b.as_long() > 0:
            return a % b
        if b.as_long() == 0:
            raise SymRaise("ZeroDivisionError")
        return -((-a) % (-b))
    if ex is not None and ex.implied(b > 0):
        return smod(a, b)
    if ex is not None:
        if ex.branch(b == 0):
            raise SymRaise("ZeroDivisionError")
        if ex.implied(b > 0):
            return smod(a, b)
    return z3.If(b > 0, a % b, -((-a) % (-b)))


# ---- symbolic modulus: linear encoding ------------------------------------------------
# ``A mod n`` with a symbolic n > 0 is nonlinear for the SMT solvers.  Here it is rewritten,
# soundly and exactly, into linear arithmetic:
#   1. A is linearised into  sum c_i * x_i + c  (inner mod results are atoms known to lie in [0, n));
#   2. an atom whose range relative to n cannot be bounded from the path condition is replaced by
#      its *residue constant*  x' (0 <= x' < n, memoised per (x, n)); by congruence
#      (x = x' + q n  =>  A mod n = A[x := x'] mod n) the value is unchanged;
#   3. with every atom in [lo_i n, hi_i n) the quotient q of A' lies in a small known range, so
#      A' mod n = A' - q n is an if-then-else over numerals q (n is only multiplied by numerals);
#      the final else-branch is the native mod, so the encoding is exact even if the range analysis
#      were too narrow.
_MOD_RANGE: dict = {}
_MOD_RESIDUE: dict = {}


def _linearize(e):
    """-> (dict id->(atom, coef), const) for an Int term; non-linear parts become atoms."""
    terms: dict = {}
    const = [0]

    def add(atom, coef):
        k = atom.get_id()
        if k in terms:
            terms[k] = (atom, terms[k][1] + coef)
        else:
            terms[k] = (atom, coef)

    def walk(x, coef):
        if z3.is_int_value(x):
            const[0] += coef * x.as_long()
            return
        if z3.is_app(x):
            k = x.decl().kind()
            if k == z3.Z3_OP_ADD:
                for ch in x.children():
                    walk(ch, coef)
                return
            if k == z3.Z3_OP_SUB:
                ch = x.children()
                walk(ch[0], coef)
                for y in ch[1:]:
                    walk(y, -coef)
                return
            if k == z3.Z3_OP_UMINUS:
                walk(x.arg(0), -coef)
                return
            if k == z3.Z3_OP_MUL:
                ch = x.children()
                nums = [y for y in ch if z3.is_int_value(y)]
                rest = [y for y in ch if not z3.is_int_value(y)]
                if len(rest) == 1:
                    m = 1
                    for y in nums:
                        m *= y.as_long()
                    walk(rest[0], coef * m)
                    return
                if not rest:
                    m = 1
                    for y in nums:
                        m *= y.as_long()
                    const[0] += coef * m
                    return
        add(x, coef)

    walk(e, 1)
    return {k: v for k, v in terms.items() if v[1] != 0}, const[0]


def _split_integer_part(r):
    """Real term r -> (Int term I, Real term rest) with r == to_real(I) + rest and I built from to_real(int) summands
    with integer coefficients; (None, None) when there is nothing to split."""
    ints = []
    rest = []

    def walk(x, coef):
        if z3.is_app(x):
            k = x.decl().kind()
            if k == z3.Z3_OP_ADD:
                for ch in x.children():
                    walk(ch, coef)
                return
            if k == z3.Z3_OP_SUB:
                ch = x.children()
                walk(ch[0], coef)
                for y in ch[1:]:
                    walk(y, -coef)
                return
            if k == z3.Z3_OP_UMINUS:
                walk(x.arg(0), -coef)
                return
            if k == z3.Z3_OP_MUL and x.num_args() == 2 and z3.is_rational_value(x.arg(0)) and x.arg(0).denominator_as_long() == 1:
                walk(x.arg(1), coef * x.arg(0).numerator_as_long())
                return
            if k == z3.Z3_OP_TO_REAL:
                ints.append((x.arg(0), coef))
                return
        if z3.is_rational_value(x) and x.denominator_as_long() == 1:
            ints.append((z3.IntVal(x.numerator_as_long()), coef))
            return
        rest.append((x, coef))

    walk(r, 1)
    if not ints:
        return None, None
    ip = z3.IntVal(0)
    for a, c in ints:
        ip = ip + (a if c == 1 else c * a)
    rr = z3.RealVal(0)
    for a, c in rest:
        rr = rr + (a if c == 1 else z3.RealVal(c) * a)
    return z3.simplify(ip), z3.simplify(rr)


def _find_ite(r):
    """first if-then-else sub-term occurring at a linear position of the real term r, as (ite, rebuild)"""
    if not z3.is_app(r):
        return None
    k = r.decl().kind()
    if k == z3.Z3_OP_ITE:
        return r, (lambda v: v)
    if k in (z3.Z3_OP_ADD, z3.Z3_OP_SUB, z3.Z3_OP_UMINUS, z3.Z3_OP_TO_REAL) or (k == z3.Z3_OP_MUL and sum(1 for c in r.children() if not z3.is_rational_value(c) and not z3.is_int_value(c)) == 1):
        ch = r.children()
        for i, c in enumerate(ch):
            if (k == z3.Z3_OP_MUL) and (z3.is_rational_value(c) or z3.is_int_value(c)):
                continue
            f = _find_ite(c)
            if f is not None:
                ite, rb = f
                return ite, (lambda v, i=i, ch=ch, rb=rb, d=r.decl(): d(*[rb(v) if j == i else ch[j] for j in range(len(ch))]))
    return None


def norm_toint(arg, depth=0):
    """Normal form of to_int(arg):  if-then-else hoisted out, to_int(to_real(i)) = i, to_int(I + R) = I + to_int(R)."""
    arg = z3.simplify(arg)
    if depth < 12:
        f = _find_ite(arg)
        if f is not None:
            ite, rb = f
            c, a, b = ite.children()
            return z3.If(c, norm_toint(rb(a), depth + 1), norm_toint(rb(b), depth + 1))
    if z3.is_app(arg) and arg.decl().kind() == z3.Z3_OP_TO_REAL:
        return arg.arg(0)
    if z3.is_rational_value(arg):
        import math as _m

        return z3.IntVal(_m.floor(arg.numerator_as_long() / arg.denominator_as_long()) if arg.denominator_as_long() != 1 else arg.numerator_as_long())
    ipart, rest = _split_integer_part(arg)
    if ipart is not None:
        if z3.is_rational_value(rest) and rest.numerator_as_long() == 0:
            return ipart
        return ipart + z3.ToInt(rest)
    return z3.ToInt(arg)


def mark_range(expr, n, lo, hi):
    """Record that  lo*n <= expr < hi*n  is known (results of smod, roll indices...)."""
    _MOD_RANGE[(expr.get_id(), n.get_id())] = (lo, hi, expr, n)


def _atom_range(ex, atom, n):
    key = (atom.get_id(), n.get_id())
    if key in _MOD_RANGE:
        lo, hi = _MOD_RANGE[key][0], _MOD_RANGE[key][1]
        return lo, hi
    if atom.get_id() == n.get_id():
        return 1, 2
    lo = hi = None
    for cand in (0, -1, -2, -3, -4, -6):
        if ex.implied(atom >= cand * n):
            lo = cand
            break
    if lo is not None:
        for cand in (1, 2, 3, 4, 5, 7):
            if ex.implied(atom < cand * n):
                hi = cand
                break
    if lo is None or hi is None:
        return None
    return lo, hi


_RES_FN: dict = {}


def residue_fn(n):
    """res_n : Int -> Int, the (uninterpreted) residue function  x |-> x mod n.  Its defining facts
    0 <= res(x) < n  and  res(x) = x on [0, n)  are supplied as ground axioms for every atom it is applied to."""
    k = n.get_id()
    if k not in _RES_FN:
        _RES_FN[k] = (z3.Function(f"res!{n}", z3.IntSort(), z3.IntSort()), n)
    return _RES_FN[k][0]


def residue_of(ex, atom, n):
    rf = residue_fn(n)
    r = rf(atom)
    tag = ("res", atom.get_id(), n.get_id())
    if tag not in ex.path_marks:
        ex.path_marks.add(tag)
        ex.keepalive.append(atom)
        ex.assume(z3.And(r >= 0, r < n))
        ex.assume(z3.Implies(z3.And(atom >= 0, atom < n), r == atom))
    return r


def reset_mod_caches():
    _MOD_RANGE.clear()
    _RES_FN.clear()


def smod(a, n):
    """a mod n for Int terms, n symbolic and known positive on the current path (see comment above)."""
    ex = Explorer.current
    if ex is None or z3.is_int_value(n):
        return a % n
    a = z3.simplify(a)
    terms, const = _linearize(a)
    # hoist if-then-else atoms of unknown range:  (ite(c,x,y) + r) mod n = ite(c, (x+r) mod n, (y+r) mod n)
    for _k, (atom, coef) in terms.items():
        if z3.is_app(atom) and atom.decl().kind() == z3.Z3_OP_ITE and (atom.get_id(), n.get_id()) not in _MOD_RANGE:
            c, x, y = atom.children()
            rest = a - coef * atom
            return z3.If(c, smod(rest + coef * x, n), smod(rest + coef * y, n))
    lo_tot, hi_tot = 0, 0  # A' in [lo_tot*n + const, hi_tot*n + const) ... tracked as multiples of n
    parts = []
    for _k, (atom, coef) in terms.items():
        rng = _atom_range(ex, atom, n)
        if rng is None:
            atom2 = residue_of(ex, atom, n)
            rng = (0, 1)
        else:
            atom2 = atom
        lo, hi = rng
        parts.append(coef * atom2 if coef != 1 else atom2)
        if coef > 0:
            lo_tot += coef * lo
            hi_tot += coef * (hi - 1) + 1 if False else coef * hi
        else:
            lo_tot += coef * hi
            hi_tot += coef * lo
    a2 = z3.IntVal(const)
    for p in parts:
        a2 = a2 + p
    a2 = z3.simplify(a2)
    # const c lies in [-|c| n, |c| n] because n >= 1
    qlo = lo_tot - abs(const) - (1 if any(c < 0 for _a, c in terms.values()) else 0)
    qhi = hi_tot + abs(const)
    if qhi - qlo > 24:
        res = a2 % n
        mark_range(res, n, 0, 1)
        return res
    res = a2 % n  # exact fallback (unreachable when the range analysis is right)
    for q in range(qhi, qlo - 1, -1):
        res = z3.If(z3.And(a2 - q * n >= 0, a2 - q * n < n), a2 - q * n, res)
    res = z3.simplify(res)
    mark_range(res, n, 0, 1)
    return res


def pydiv_int(a, b):
    ex = Explorer.current
    if z3.is_int_value(b) and b.as_long() > 0:
        return a / b
    if ex is not None and ex.implied(b > 0):
        return a / b
    if ex is not None:
        if ex.branch(b == 0):
            raise SymRaise("ZeroDivisionError")
    raise Unsupported("integer floor division by a possibly negative divisor")


def _defint(kind, x):
    """Definitional Int constant for floor/ceil/round/trunc of the Real term x, with its defining (linear) axioms
    assumed on the current path.  Memoised per path by the term, so syntactically equal arguments share the constant.
    Outside an exploration (no current path) the closed to_int form is used."""
    ex = Explorer.current
    x = x if z3.is_real(x) else z3.ToReal(x)
    x = z3.simplify(x)
    if z3.is_rational_value(x):
        import math as _m
        from fractions import Fraction as _F

        q = _F(x.numerator_as_long(), x.denominator_as_long())
        v = {"floor": _m.floor(q), "ceil": _m.ceil(q), "round": round(q), "trunc": _m.trunc(q)}[kind]
        return z3.IntVal(v)
    if z3.is_app(x) and x.decl().kind() == z3.Z3_OP_TO_REAL:
        return x.arg(0)
    if ex is None:
        return _closed_int(kind, x)
    key = (kind, x.get_id())
    if key in ex.defs:
        return ex.defs[key][0]
    # normalisations (sound identities) that let syntactically different arguments share constants:
    #   f(if c then a else b) = if c then f(a) else f(b);   floor/ceil(a + to_real(i)) = floor/ceil(a) + i
    import os as _os
    _norm = not _os.environ.get("PYVC_NO_DEFINT_NORM")
    if _norm and z3.is_app(x) and x.decl().kind() == z3.Z3_OP_ITE:
        cnd, a, b = x.children()
        r = z3.If(cnd, _defint(kind, a), _defint(kind, b))
        ex.defs[key] = (r, x)
        return r
    if _norm and kind in ("floor", "ceil"):
        ip, rest = _split_integer_part(x)
        if ip is not None and not (z3.is_int_value(ip) and ip.as_long() == 0):
            r = z3.simplify(ip + _defint(kind, rest))
            ex.defs[key] = (r, x)
            return r
    c = z3.Int(f"{kind}!{len(ex.defs)}")
    ex.defs[key] = (c, x)
    cr = z3.ToReal(c)
    if kind == "floor":
        ex.assume(z3.And(cr <= x, x < cr + 1))
    elif kind == "ceil":
        ex.assume(z3.And(cr - 1 < x, x <= cr))
        # link with the floor of the same term (redundant but saves the solver a case analysis per use)
        f = _defint("floor", x)
        ex.assume(z3.And(z3.Or(c == f, c == f + 1), (c == f) == (x == z3.ToReal(f))))
    elif kind == "round":
        f = _defint("floor", x)
        d = x - z3.ToReal(f)
        half = z3.RealVal("1/2")
        # ties go to the even neighbour: parity through a witness (c = 2h) instead of `mod` (keeps the axioms linear)
        h = z3.Int(f"half!{len(ex.defs)}")
        ex.assume(z3.And(z3.Or(c == f, c == f + 1), z3.Implies(d < half, c == f), z3.Implies(d > half, c == f + 1), z3.Implies(d == half, c == 2 * h)))
    elif kind == "trunc":
        f, g = _defint("floor", x), _defint("ceil", x)
        ex.assume(z3.And(z3.Implies(x >= 0, c == f), z3.Implies(x < 0, c == g)))
    return c


def _closed_int(kind, x):
    if kind == "floor":
        return z3.ToInt(x)
    if kind == "ceil":
        return -z3.ToInt(-x)
    if kind == "trunc":
        return z3.If(x >= 0, z3.ToInt(x), -z3.ToInt(-x))
    f = z3.ToInt(x)
    d = x - z3.ToReal(f)
    half = z3.RealVal("1/2")
    return z3.If(d < half, f, z3.If(d > half, f + 1, z3.If(f % 2 == 0, f, f + 1)))


def floor_real(x):
    return _defint("floor", x)


def ceil_real(x):
    return _defint("ceil", x)


def trunc_real(x):
    return _defint("trunc", x)


def round_half_even(x):
    """Python round() / torch.round(): ties to even. Returns Int term."""
    return _defint("round", x)


def _nonzero_check(b, what):
    ex = Explorer.current
    if z3.is_rational_value(b) or z3.is_int_value(b):
        if (b.as_long() if z3.is_int_value(b) else b.numerator_as_long()) == 0:
            raise SymRaise("ZeroDivisionError")
        return
    if ex is not None and not ex.implied(b != 0):
        if ex.branch(b == 0):
            raise SymRaise("ZeroDivisionError")


# uninterpreted power (non-constant exponents)
_pow = z3.Function("pow", z3.RealSort(), z3.RealSort(), z3.RealSort())


def zpow(a, b):
    """a ** b on z3 terms; small constant integer exponents are expanded."""
    b = z3.simplify(b)
    if z3.is_int_value(b) or (z3.is_rational_value(b) and b.denominator_as_long() == 1):
        n = b.as_long() if z3.is_int_value(b) else b.numerator_as_long()
        if 0 <= n <= 4:
            r = z3.IntVal(1) if z3.is_int(a) else z3.RealVal(1)
            for _ in range(n):
                r = r * a
            return r
        if -4 <= n < 0:
            r = z3.RealVal(1)
            ar = a if z3.is_real(a) else z3.ToReal(a)
            for _ in range(-n):
                r = r * ar
            return 1 / r
    ar = a if z3.is_real(a) else z3.ToReal(a)
    br = b if z3.is_real(b) else z3.ToReal(b)
    return _pow(ar, br)


def cancel_div(za, zb):
    """(x * b) / b  ->  x   (b is known non-zero at this point): keeps the time = dt*s change of variables linear."""
    if z3.is_app(za) and za.decl().kind() == z3.Z3_OP_MUL:
        ch = za.children()
        for i, c in enumerate(ch):
            if c.eq(zb):
                rest = ch[:i] + ch[i + 1:]
                r = rest[0]
                for x in rest[1:]:
                    r = r * x
                return r
    if za.eq(zb):
        return z3.RealVal(1)
    return za / zb


def arith(op, a, b):
    if isinstance(a, (SV,)) or isinstance(b, (SV,)):
        pass
    za, zb = num(a), num(b)
    if op == "+":
        return wrap(za + zb)
    if op == "-":
        return wrap(za - zb)
    if op == "*":
        return wrap(za * zb)
    if op == "/":
        _nonzero_check(zb, "/")
        za = za if z3.is_real(za) else z3.ToReal(za)
        zb = zb if z3.is_real(zb) else z3.ToReal(zb)
        return wrap(cancel_div(za, zb))
    if op == "%":
        if _isint(za) and _isint(zb):
            return wrap(pymod_int(za, zb))
        zar = za if z3.is_real(za) else z3.ToReal(za)
        zbr = zb if z3.is_real(zb) else z3.ToReal(zb)
        if z3.is_int_value(zb) and zb.as_long() == 1 or (z3.is_rational_value(zb) and zb.numerator_as_long() == 1 and zb.denominator_as_long() == 1):
            return wrap(zar - z3.ToReal(floor_real(zar)))
        _nonzero_check(zbr, "%")
        ex = Explorer.current
        if ex is not None and ex.implied(zbr > 0):
            return wrap(zar - zbr * z3.ToReal(floor_real(zar / zbr)))
        raise Unsupported("real % with non-positive divisor")
    if op == "//":
        if _isint(za) and _isint(zb):
            return wrap(pydiv_int(za, zb))
        zar = za if z3.is_real(za) else z3.ToReal(za)
        zbr = zb if z3.is_real(zb) else z3.ToReal(zb)
        _nonzero_check(zbr, "//")
        return wrap(z3.ToReal(floor_real(zar / zbr)))
    if op == "**":
        return wrap(zpow(za, zb))
    raise Unsupported(f"arith op {op}")


def _monomials(e):
    """Real/Int term in sum-of-monomials form -> list of (coef: Fraction-like z3 numeral or 1, [factor terms]) or None."""
    e = z3.simplify(e, som=True)
    adds = e.children() if (z3.is_app(e) and e.decl().kind() == z3.Z3_OP_ADD) else [e]
    out = []
    for a in adds:
        coef = None
        fs = []
        parts = []
        stack = [a]
        while stack:  # flatten nested products: z3 prints -1*dt*s but builds Mul(-1, Mul(dt, s))
            q = stack.pop()
            if z3.is_app(q) and q.decl().kind() == z3.Z3_OP_MUL:
                stack.extend(reversed(q.children()))
            else:
                parts.append(q)
        for p in parts:
            if z3.is_rational_value(p) or z3.is_int_value(p):
                coef = p if coef is None else z3.simplify(coef * p)
            else:
                fs.append(p)
        out.append((coef, fs))
    return out


def remove_factor(term, g):
    """term / g  for a term whose every monomial contains the factor g (None when one does not)."""
    total = None
    for coef, fs in _monomials(term):
        rest = list(fs)
        for i, f in enumerate(rest):
            if f.get_id() == g.get_id():
                rest.pop(i)
                break
        else:
            return None
        t = coef if coef is not None else (z3.RealVal(1) if z3.is_real(term) else z3.IntVal(1))
        for f in rest:
            t = t * f
        total = t if total is None else total + t
    return z3.simplify(total) if total is not None else None


def cancel_positive_factor(d):
    """d is a term compared with 0.  If every monomial of d contains a common factor g that the path condition
    proves non-zero of known sign, return (d / g, sign) -- the comparison  d ~ 0  is then equivalent to
    (d/g) ~ 0 (sign = +1) or flipped (sign = -1).  Keeps  time = dt*s , tolerance = dt*tau  comparisons linear."""
    ex = Explorer.current
    if ex is None:
        return d, 1
    mons = _monomials(d)
    if len(mons) < 1 or any(not fs for _c, fs in mons):
        return d, 1
    if all(len(fs) == 1 for _c, fs in mons):
        return d, 1  # already linear
    common = None
    for _c, fs in mons:
        ids = {f.get_id(): f for f in fs}
        common = ids if common is None else {k: v for k, v in common.items() if k in ids}
        if not common:
            return d, 1
    for gid, g in common.items():
        if not (z3.is_const(g) and g.decl().kind() == z3.Z3_OP_UNINTERPRETED):
            continue
        sign = 1 if ex.implied(g > 0) else (-1 if ex.implied(g < 0) else 0)
        if sign == 0:
            continue
        total = None
        for coef, fs in mons:
            rest = list(fs)
            for i, f in enumerate(rest):
                if f.get_id() == gid:
                    rest.pop(i)
                    break
            t = coef if coef is not None else (z3.RealVal(1) if z3.is_real(d) else z3.IntVal(1))
            for f in rest:
                t = t * f
            total = t if total is None else total + t
        return z3.simplify(total), sign
    return d, 1


def norm_cmp(op, za, zb, _depth=0):
    """z3 comparison za op zb with common positive factors cancelled (op in < <= > >= == !=)."""
    if z3.is_bool(za) or z3.is_bool(zb):
        return {"==": za == zb, "!=": za != zb}[op]
    # distribute over a top-level if-then-else (|x| <= y and friends)
    for side, other, left in ((za, zb, True), (zb, za, False)):
        if _depth < 4 and z3.is_app(side) and side.decl().kind() == z3.Z3_OP_ITE and (_has_nonlinear_mul(side.arg(1)) or _has_nonlinear_mul(side.arg(2)) or _has_nonlinear_mul(other)):
            c, x, y = side.children()
            if left:
                return z3.If(c, norm_cmp(op, x, other, _depth + 1), norm_cmp(op, y, other, _depth + 1))
            return z3.If(c, norm_cmp(op, other, x, _depth + 1), norm_cmp(op, other, y, _depth + 1))
    nonlin = False
    for t in (za, zb):
        if z3.is_app(t) and _has_nonlinear_mul(t):
            nonlin = True
    if nonlin:
        if z3.is_real(za) != z3.is_real(zb):
            za = za if z3.is_real(za) else z3.ToReal(za)
            zb = zb if z3.is_real(zb) else z3.ToReal(zb)
        d, sign = cancel_positive_factor(za - zb)
        zero = z3.RealVal(0) if z3.is_real(d) else z3.IntVal(0)
        if sign < 0:
            op = {"<": ">", "<=": ">=", ">": "<", ">=": "<=", "==": "==", "!=": "!="}[op]
        za, zb = d, zero
    if op == "<":
        return za < zb
    if op == "<=":
        return za <= zb
    if op == ">":
        return za > zb
    if op == ">=":
        return za >= zb
    if op == "==":
        return za == zb
    return za != zb


def _has_nonlinear_mul(t, depth=0):
    if depth > 6 or not z3.is_app(t):
        return False
    k = t.decl().kind()
    if k == z3.Z3_OP_MUL:
        if sum(1 for c in t.children() if not (z3.is_rational_value(c) or z3.is_int_value(c))) >= 2:
            return True
    if k in (z3.Z3_OP_ADD, z3.Z3_OP_SUB, z3.Z3_OP_UMINUS, z3.Z3_OP_MUL, z3.Z3_OP_TO_REAL):
        return any(_has_nonlinear_mul(c, depth + 1) for c in t.children())
    return False


_SCALE = z3.Function("scale!unit", z3.RealSort(), z3.RealSort(), z3.RealSort())


def unit_abstract(term, unit):
    """Rewrite every sum of monomials that contain the factor ``unit`` into  scale(unit, <linear rest>)  with
    ``scale`` UNINTERPRETED.  Sound abstraction of x |-> unit*x: if alpha(a) == alpha(b) is valid for every
    interpretation of ``scale`` then a == b.  It turns the nonlinear equality  dt*c - dt*s == dt - dt*(s - f)
    into congruence over a linear equality of the arguments."""
    mons = _monomials(term)
    inner = None
    outer = None
    for coef, fs in mons:
        idx = [i for i, f in enumerate(fs) if f.get_id() == unit.get_id()]
        c = coef if coef is not None else z3.RealVal(1)
        if z3.is_int(c):
            c = z3.ToReal(c)
        if len(idx) == 1:
            rest = fs[: idx[0]] + fs[idx[0] + 1:]
            t = c
            for f in rest:
                t = t * (f if z3.is_real(f) else z3.ToReal(f))
            inner = t if inner is None else inner + t
        else:
            t = c
            for f in fs:
                t = t * (f if z3.is_real(f) else z3.ToReal(f))
            outer = t if outer is None else outer + t
    if inner is None:
        return term
    r = _SCALE(unit, z3.simplify(inner))
    return r if outer is None else r + z3.simplify(outer)


def zabs(n):
    """|n| with the sign test normalised (common positive factors cancelled)."""
    zero = z3.RealVal(0) if z3.is_real(n) else z3.IntVal(0)
    return z3.If(norm_cmp(">=", n, zero), n, -n)


def compare(op, a, b):
    # bool/bool equality
    if isinstance(a, SV) and a.is_bool and (isinstance(b, bool) or (isinstance(b, SV) and b.is_bool)):
        zb = as_bool(b)
        if op == "==":
            return wrap(a.z == zb)
        if op == "!=":
            return wrap(a.z != zb)
    if b is None or a is None or isinstance(a, str) or isinstance(b, str):
        if op == "==":
            return False
        if op == "!=":
            return True
        raise SymRaise("TypeError", "ordering against None/str")
    try:
        za, zb = num(a), num(b)
    except Unsupported:
        if op == "==":
            return False
        if op == "!=":
            return True
        raise
    if op in ("<", "<=", ">", ">=", "==", "!="):
        return wrap(norm_cmp(op, za, zb))
    raise Unsupported(op)


def py_int(x):
    """int(x)"""
    if isinstance(x, bool):
        return int(x)
    if isinstance(x, int):
        return x
    if isinstance(x, float):
        return int(x)
    if isinstance(x, SV):
        if x.is_bool:
            return wrap(num(x))
        if x.is_int:
            return x
        return wrap(trunc_real(x.z))
    raise Unsupported(f"int({type(x).__name__})")


def py_float(x):
    if isinstance(x, (bool, int)):
        return float(x)
    if isinstance(x, float):
        return x
    if isinstance(x, SV):
        z = num(x)
        return SV(z if z3.is_real(z) else z3.ToReal(z))
    raise Unsupported(f"float({type(x).__name__})")


def py_round(x):
    if isinstance(x, (int, float)) and not isinstance(x, bool):
        return round(x)
    if isinstance(x, SV):
        if x.is_int:
            return x
        return wrap(round_half_even(x.z))
    raise Unsupported("round")


def py_ceil(x):
    import math

    if isinstance(x, (int, float)):
        return math.ceil(x)
    if isinstance(x, SV):
        if x.is_int:
            return x
        return wrap(ceil_real(x.z))
    raise Unsupported("ceil")


def py_floor(x):
    import math

    if isinstance(x, (int, float)):
        return math.floor(x)
    if isinstance(x, SV):
        if x.is_int:
            return x
        return wrap(floor_real(x.z))
    raise Unsupported("floor")


def py_max(*xs):
    if len(xs) == 1:
        xs = tuple(xs[0])
    if not xs:
        raise SymRaise("ValueError", "max() of empty")
    if not any(isinstance(x, SV) for x in xs):
        return max(xs)
    r = num(xs[0])
    for x in xs[1:]:
        zx = num(x)
        if z3.is_real(r) != z3.is_real(zx):
            r = r if z3.is_real(r) else z3.ToReal(r)
            zx = zx if z3.is_real(zx) else z3.ToReal(zx)
        r = z3.If(zx > r, zx, r)
    return wrap(r)


def py_min(*xs):
    if len(xs) == 1:
        xs = tuple(xs[0])
    if not xs:
        raise SymRaise("ValueError", "min() of empty")
    if not any(isinstance(x, SV) for x in xs):
        return min(xs)
    r = num(xs[0])
    for x in xs[1:]:
        zx = num(x)
        if z3.is_real(r) != z3.is_real(zx):
            r = r if z3.is_real(r) else z3.ToReal(r)
            zx = zx if z3.is_real(zx) else z3.ToReal(zx)
        r = z3.If(zx < r, zx, r)
    return wrap(r)


def py_abs(x):
    if isinstance(x, SV):
        return abs(x)
    return abs(x)


# fresh symbols -------------------------------------------------------------


def Int(name):
    return SV(z3.Int(name))


def Real(name):
    return SV(z3.Real(name))


def Bool(name):
    return SV(z3.Bool(name))
