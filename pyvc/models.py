"""Models of builtins and of the external libraries (torch / einops / math / itertools / weakref ...).

These are the *assumed contracts on dependencies* (DESIGN 2.4, assumption A2).  Each
entry is the symbolic rule used by the executor; the executable statement of the same
rule is conformance-tested against the installed torch in ``torchspec.py``.
"""
from __future__ import annotations

import ast
import itertools
import math

import z3

from . import sym
from . import tensor as tz
from .sym import SV, SymRaise, Unsupported, as_bool, cur, num, wrap
from .tensor import T


class Model:
    """python model receiving the interpreter: fn(interp, *args, **kwargs)"""

    def __init__(self, fn, name=""):
        self.fn = fn
        self.name = name

    def __repr__(self):
        return f"<model {self.name}>"


def M(name):
    def deco(fn):
        return Model(fn, name)

    return deco


def plain(fn, name=None):
    return Model(lambda interp, *a, **k: fn(*a, **k), name or getattr(fn, "__name__", "fn"))


# ----------------------------------------------------------------------- generic hooks
def generic_getattr(interp, obj, name):
    from .interp import MISSING

    if isinstance(obj, T):
        if name == "dtype":
            return tz.CANON[obj.dtype]
        if name == "data":
            return obj
        if name == "T":
            raise Unsupported("tensor transpose")
        if name == "shape":
            return obj.shape
        if name == "ndim":
            return obj.ndim
        if name in ("device", "layout", "requires_grad", "is_param"):
            return getattr(obj, name)
        if name == "grad":
            return None
        if name == "materialize":
            return lambda shape, device=None, dtype=None: _materialize(obj, shape, dtype)
        m = getattr(type(obj), name, None)
        if m is None:
            raise Unsupported(f"Tensor.{name} is not modelled")
        return getattr(obj, name)
    if isinstance(obj, tz.Shape):
        if name == "numel":
            raise Unsupported("Size.numel")
        raise SymRaise("AttributeError", name)
    if isinstance(obj, dict):
        if name in ("items", "keys", "values", "get", "update", "pop", "setdefault", "copy", "clear"):
            if any(isinstance(k, SV) for k in obj):
                return symbolic_dict_method(interp, obj, name)
            return getattr(obj, name)
        if name == "__contains__":
            return lambda k: interp.contains(obj, k)
        raise SymRaise("AttributeError", name)
    if isinstance(obj, list):
        if name in ("append", "extend", "pop", "insert", "index", "copy", "clear", "remove", "reverse", "count"):
            return getattr(obj, name)
        raise SymRaise("AttributeError", name)
    if isinstance(obj, tuple):
        if name in ("index", "count"):
            return getattr(obj, name)
        raise SymRaise("AttributeError", name)
    if isinstance(obj, (set, frozenset)):
        return getattr(obj, name)
    if isinstance(obj, str):
        if name in ("rpartition", "partition", "split", "join", "startswith", "endswith", "isidentifier", "lower", "upper", "format", "strip", "replace", "rsplit"):
            return getattr(obj, name)
        raise SymRaise("AttributeError", name)
    if isinstance(obj, tz.DType):
        if name == "is_floating_point":
            return obj.tag == "float"
        if name == "is_complex":
            return False
        raise SymRaise("AttributeError", name)
    if isinstance(obj, SV):
        if name == "is_integer":
            return lambda: wrap(num(obj) == z3.ToReal(z3.ToInt(num(obj)))) if obj.is_real else True
        raise SymRaise("AttributeError", name)
    if isinstance(obj, (int, float)):
        if name == "is_integer" and isinstance(obj, float):
            return obj.is_integer
        raise SymRaise("AttributeError", name)
    from .interp import Finalizer, WeakRef, ExtType, Partial

    if isinstance(obj, Finalizer):
        if name == "detach":
            return obj.detach
        if name == "alive":
            return obj.alive
    if isinstance(obj, ExtType):
        m = ext_member(interp, obj, name)
        if m is not MISSING:
            return m
        if name == "__name__":
            return obj.name.split(".")[-1]
        raise SymRaise("AttributeError", f"{obj.name}.{name}")
    if isinstance(obj, Partial):
        if name == "func":
            return obj.fn
        if name == "keywords":
            return obj.kwargs
        if name == "args":
            return tuple(obj.args)
    if isinstance(obj, Handle):
        if name == "remove":
            return obj.remove
    if obj is None:
        raise SymRaise("AttributeError", f"'NoneType' object has no attribute '{name}'")
    if isinstance(obj, SymRaise):
        return getattr(obj, name, None)
    if hasattr(obj, "sym_getattr"):
        return obj.sym_getattr(interp, name)
    raise Unsupported(f"attribute {name} of {type(obj).__name__}")


def generic_setattr(interp, obj, name, value):
    if isinstance(obj, T):
        if name == "data":
            obj.data = value
            return
        if name == "requires_grad":
            obj.requires_grad = value
            return
        if name == "grad":
            return
    if hasattr(obj, "sym_setattr"):
        return obj.sym_setattr(interp, name, value)
    raise Unsupported(f"setattr {name} on {type(obj).__name__}")


def generic_iterate(interp, it):
    from .interp import Obj

    if hasattr(it, "sym_iter"):
        return it.sym_iter(interp)
    if isinstance(it, Obj) and "__iter_items__" in it.fields:
        return list(it.fields["__iter_items__"])
    if isinstance(it, Obj):
        owner, ent = interp.class_lookup(it.cls, "__iter__") if it.cls else (None, None)
        if ent is not None:
            r = interp.call(interp.member_value(owner, ent, it, "__iter__"), [], {})
            return interp.iterate(r)
    if isinstance(it, SV) or it is None or isinstance(it, (int, float, bool)):
        # python: iterating a number / None is a TypeError (the repo relies on it: argtest.ofsequence on a scalar)
        raise SymRaise("TypeError", f"'{type(it).__name__}' object is not iterable")
    raise Unsupported(f"iteration over {type(it).__name__}")


def generic_getitem(interp, c, k):
    from .interp import Obj

    if hasattr(c, "sym_getitem"):
        return c.sym_getitem(interp, k)
    if isinstance(c, Obj) and c.cls is not None:
        owner, ent = interp.class_lookup(c.cls, "__getitem__")
        if ent is not None:
            return interp.call(interp.member_value(owner, ent, c, "__getitem__"), [k], {})
    raise Unsupported(f"subscript of {type(c).__name__}")


def generic_setitem(interp, c, k, v):
    if hasattr(c, "sym_setitem"):
        return c.sym_setitem(interp, k, v)
    raise Unsupported(f"item assignment on {type(c).__name__}")


def generic_delitem(interp, c, k):
    if hasattr(c, "sym_delitem"):
        return c.sym_delitem(interp, k)
    raise Unsupported(f"item deletion on {type(c).__name__}")


def generic_contains(interp, c, x):
    from .interp import Obj

    if hasattr(c, "sym_contains"):
        return c.sym_contains(interp, x)
    if isinstance(c, Obj) and c.cls is not None:
        owner, ent = interp.class_lookup(c.cls, "__contains__")
        if ent is not None:
            return interp.call(interp.member_value(owner, ent, c, "__contains__"), [x], {})
    raise Unsupported(f"membership in {type(c).__name__}")


def generic_truth(interp, v):
    if hasattr(v, "sym_truth"):
        return v.sym_truth(interp)
    if isinstance(v, (tz.DType, Model, Handle)):
        return True
    if callable(v):
        return True
    raise Unsupported(f"truth value of {type(v).__name__}")


def obj_truth(interp, o):
    if o.cls is not None:
        for nm in ("__bool__", "__len__"):
            owner, ent = interp.class_lookup(o.cls, nm)
            if ent is not None and ent[0] == "func":
                r = interp.call(interp.member_value(owner, ent, o, nm), [], {})
                return interp.truth(r)
    return True


def binop_hook(interp, op, a, b):
    from .interp import MISSING, ClassV, ExtType, TypeUnion

    if isinstance(op, ast.BitOr):
        if isinstance(a, dict) and isinstance(b, dict):
            if any(isinstance(k, SV) for k in list(a) + list(b)):
                return symbolic_dict_union(interp, a, b)
            d = dict(a)
            d.update(b)
            return d
        if isinstance(a, (ClassV, ExtType, TypeUnion)) or isinstance(b, (ClassV, ExtType, TypeUnion)) or a is None or b is None:
            return TypeUnion([a, b])
    if isinstance(op, ast.Add):
        if isinstance(a, tuple) and isinstance(b, tuple):
            return a + b
        if isinstance(a, list) and isinstance(b, list):
            return a + b
        if isinstance(a, str) and isinstance(b, str):
            return a + b
        if isinstance(a, tz.Shape) or isinstance(b, tz.Shape):
            return tz.mkshape(a) + tz.mkshape(b)
    if isinstance(op, ast.Mult):
        if isinstance(a, (list, tuple, str)) and isinstance(b, int):
            return a * b
        if isinstance(b, (list, tuple, str)) and isinstance(a, int):
            return a * b
    if isinstance(op, ast.Mod) and isinstance(a, str):
        return a
    return MISSING


def compare_hook(interp, op, a, b):
    from .interp import MISSING, ClassV, ExtType

    if isinstance(a, (ClassV, ExtType, tz.DType)) or isinstance(b, (ClassV, ExtType, tz.DType)):
        from .interp import _identical

        if isinstance(op, ast.Eq):
            return _identical(a, b)
        if isinstance(op, ast.NotEq):
            return not _identical(a, b)
    if isinstance(a, str) or isinstance(b, str):
        if isinstance(op, ast.Eq):
            return isinstance(a, str) and isinstance(b, str) and a == b
        if isinstance(op, ast.NotEq):
            return not (isinstance(a, str) and isinstance(b, str) and a == b)
    if (a is None or b is None) and isinstance(op, (ast.Eq, ast.NotEq)):
        r = a is None and b is None
        return r if isinstance(op, ast.Eq) else not r
    return MISSING


# ----------------------------------------------------------------------- symbolic dict (int -> int maps with symbolic keys)
def _keq(a, b):
    if isinstance(a, SV) or isinstance(b, SV):
        return num(a) == num(b)
    return z3.BoolVal(a == b)


def symbolic_dict_contains(interp, d, k):
    return wrap(z3.Or(*[_keq(k, kk) for kk in d])) if d else False


def symbolic_dict_get(interp, d, k):
    ex = cur()
    for kk in list(d):
        if ex.branch(_keq(k, kk)):
            return d[kk]
    raise SymRaise("KeyError", "symbolic key")


def symbolic_dict_set(interp, d, k, v):
    ex = cur()
    for kk in list(d):
        if ex.branch(_keq(k, kk)):
            d[kk] = v
            return
    d[k] = v


def symbolic_dict_del(interp, d, k):
    ex = cur()
    for kk in list(d):
        if ex.branch(_keq(k, kk)):
            del d[kk]
            return
    raise SymRaise("KeyError", "symbolic key")


def symbolic_dict_union(interp, a, b):
    d = dict(a)
    for k, v in b.items():
        symbolic_dict_set(interp, d, k, v)
    return d


def symbolic_dict_method(interp, d, name):
    if name in ("items", "keys", "values", "copy"):
        return getattr(d, name)
    raise Unsupported(f"dict.{name} with symbolic keys")


def symbolic_list_index(interp, c, k):
    ex = cur()
    n = len(c)
    zk = num(k)
    for i in range(n):
        if ex.branch(z3.Or(zk == i, zk == i - n)):
            return c[i]
    raise SymRaise("IndexError", "symbolic list index out of range")


def symbolic_list_set(interp, c, k, v):
    ex = cur()
    n = len(c)
    zk = num(k)
    for i in range(n):
        if ex.branch(z3.Or(zk == i, zk == i - n)):
            c[i] = v
            return
    raise SymRaise("IndexError", "symbolic list index out of range")


# ----------------------------------------------------------------------- isinstance
def isinstance_(interp, v, t):
    from .interp import ClassV, ExtType, Obj, Closure, BoundMethod, Partial, _same_type

    if t is None:
        return v is None
    if isinstance(t, ExtType):
        n = t.name
        if n in ("torch.Tensor",):
            return isinstance(v, T)
        if n == "nn.Parameter":
            return isinstance(v, T) and v.is_param
        if n == "nn.UninitializedParameter":
            return isinstance(v, T) and v.uninit and v.is_param
        if n == "nn.UninitializedBuffer":
            return isinstance(v, T) and v.uninit and not v.is_param
        if n == "int":
            return (isinstance(v, int)) or (isinstance(v, SV) and (v.is_int or v.is_bool))
        if n == "bool":
            return isinstance(v, bool) or (isinstance(v, SV) and v.is_bool)
        if n == "float":
            return isinstance(v, float) or (isinstance(v, SV) and v.is_real)
        if n == "complex":
            return False
        if n == "str":
            return isinstance(v, str)
        if n in ("tuple",):
            return isinstance(v, tuple)
        if n in ("list",):
            return isinstance(v, list)
        if n in ("dict", "Mapping"):
            return isinstance(v, dict)
        if n in ("Callable",):
            return isinstance(v, (Closure, BoundMethod, Partial, Model)) or (callable(v) and not isinstance(v, (T, SV)))
        if n == "MethodType":
            return isinstance(v, BoundMethod)
        if n in ("Iterable", "Sequence"):
            return isinstance(v, (list, tuple, dict, set, str, tz.Shape))
        if n == "property":
            from .interp import PropertyV

            return isinstance(v, PropertyV)
        if n == "weakref.WeakMethod":
            return isinstance(v, WeakMethodV)
        if n in ("np.ndarray", "np.number"):
            return False
        if isinstance(v, Obj) and v.cls is not None:
            return any(isinstance(c, ExtType) and c.name == n for c in v.cls.mro())
        if n in ("nn.Module", "nn.ModuleDict"):
            return isinstance(v, (ModuleDictV, ParamListV)) if n == "nn.Module" else (isinstance(v, ModuleDictV) and v.kind == "nn.ModuleDict")
        if n == "ABC":
            return False
        raise Unsupported(f"isinstance against {n}")
    if isinstance(t, ClassV):
        if isinstance(v, Obj) and v.cls is not None:
            return any(_same_type(c, t) for c in v.cls.mro())
        return False
    if t is int or t is float or t is str or t is bool:
        return isinstance_(interp, v, ExtType(t.__name__))
    raise Unsupported(f"isinstance against {t!r}")


# ----------------------------------------------------------------------- nn.Module model
class Handle:
    def __init__(self, module, kind, hook, kwargs):
        self.module, self.kind, self.hook, self.kwargs = module, kind, hook, kwargs
        self.active = True

    def remove(self):
        lst = self.module.fields.get("_hooks_" + self.kind, [])
        if self in lst:
            lst.remove(self)
        self.active = False


class ModuleDictV:
    """torch.nn.ModuleDict / WeakValueDictionary / plain ordered mapping of modules (ordered, string keys)."""

    is_module = True

    def __init__(self, init=None, kind="nn.ModuleDict"):
        self.d = dict(init or {})
        self.kind = kind
        self.fields = {"training": True}

    def sym_getitem(self, interp, k):
        if k not in self.d:
            raise SymRaise("KeyError", repr(k))
        return self.d[k]

    def sym_setitem(self, interp, k, v):
        self.d[k] = v

    def sym_delitem(self, interp, k):
        if k not in self.d:
            raise SymRaise("KeyError", repr(k))
        del self.d[k]

    def sym_contains(self, interp, k):
        return k in self.d

    def sym_iter(self, interp):
        return list(self.d.keys())

    def sym_len(self, interp):
        return len(self.d)

    def sym_truth(self, interp):
        return len(self.d) > 0

    def sym_getattr(self, interp, name):
        if name in ("keys", "values", "items"):
            return lambda: list(getattr(self.d, name)())
        if name == "get":
            return lambda k, default=None: self.d.get(k, default)
        if name == "update":
            return lambda other: self.d.update(other.d if isinstance(other, ModuleDictV) else other)
        if name == "pop":
            return lambda k, *d: self.d.pop(k, *d)
        if name == "clear":
            return self.d.clear
        if name == "training":
            return self.fields["training"]
        if name == "train":
            def train(mode=True):
                self.fields["training"] = mode
                for v in self.d.values():
                    interp.call(interp.getattr(v, "train"), [mode], {})
                return self
            return train
        if name == "eval":
            return lambda: self.sym_getattr(interp, "train")(False)
        if name == "__contains__":
            return lambda k: k in self.d
        if name in self.d:
            return self.d[name]
        raise SymRaise("AttributeError", f"ModuleDict has no attribute {name}")


class ParamListV:
    """torch.nn.ParameterList: ordered list of tensors."""

    is_module = True

    def __init__(self, init=None):
        self.l = list(init or [])

    def sym_iter(self, interp):
        return list(self.l)

    def sym_len(self, interp):
        return len(self.l)

    def sym_truth(self, interp):
        return len(self.l) > 0

    def sym_getitem(self, interp, k):
        return self.l[k]

    def sym_getattr(self, interp, name):
        if name == "append":
            def app(v):
                self.l.append(v)
                return self
            return app
        if name == "extend":
            return lambda vs: self.l.extend(interp.iterate(vs))
        if name in ("train", "eval"):
            return lambda *a: self
        raise SymRaise("AttributeError", f"ParameterList has no attribute {name}")


class WeakMethodV:
    def __init__(self, bm):
        self.bm = bm

    def __call__(self):
        return self.bm


def _materialize(t, shape, dtype):
    r = tz.full(tz.mkshape(shape), 0, dtype=dtype or t.dtype)
    t.f, t.tlen, t.taxis, t.eshape = r.f, r.tlen, r.taxis, r.eshape
    t.dtype = r.dtype
    t.uninit = False
    # contents are arbitrary until filled
    return None


def nn_module_members():
    from .interp import ExtMethod, Obj

    def _init(interp, self, *a, **k):
        self.fields.setdefault("training", True)
        self.fields.setdefault("_buffers", {})
        self.fields.setdefault("_parameters", {})
        self.fields.setdefault("_modules", {})
        self.fields.setdefault("_non_persistent", set())
        self.fields.setdefault("_hooks_pre", [])
        self.fields.setdefault("_hooks_post", [])

    def register_buffer(interp, self, name, tensor, persistent=True):
        self.fields.setdefault("_buffers", {})[name] = True
        if not persistent:
            self.fields.setdefault("_non_persistent", set()).add(name)
        else:
            self.fields.setdefault("_non_persistent", set()).discard(name)
        interp.raw_setattr(self, name, tensor)

    def register_parameter(interp, self, name, param):
        self.fields.setdefault("_parameters", {})[name] = True
        if isinstance(param, T):
            param.is_param = True
        interp.raw_setattr(self, name, param)

    def add_module(interp, self, name, module):
        self.fields.setdefault("_modules", {})[name] = True
        interp.raw_setattr(self, name, module)

    def __setattr__(interp, self, name, value):
        if isinstance(value, T) and value.is_param:
            self.fields.setdefault("_parameters", {})[name] = True
        elif isinstance(value, Obj) and value.cls is not None and isinstance_(interp, value, _NN_MODULE):
            self.fields.setdefault("_modules", {})[name] = True
        interp.raw_setattr(self, name, value)

    def __getattr__(interp, self, name):
        raise SymRaise("AttributeError", f"'{self.cls.name if self.cls else 'Module'}' object has no attribute '{name}'")

    def __delattr__(interp, self, name):
        if name in self.fields:
            del self.fields[name]
            self.writes.append(name)
            for reg in ("_buffers", "_parameters", "_modules"):
                self.fields.get(reg, {}).pop(name, None)
        else:
            raise SymRaise("AttributeError", name)

    def train(interp, self, mode=True):
        interp.raw_setattr(self, "training", mode)
        for nm in list(self.fields.get("_modules", {})):
            sub = self.fields.get(nm)
            if isinstance(sub, Obj):
                interp.call(interp.getattr(sub, "train"), [mode], {})
        return self

    def eval_(interp, self):
        return interp.call(interp.getattr(self, "train"), [False], {})

    def register_forward_pre_hook(interp, self, hook, *, prepend=False, with_kwargs=False):
        h = Handle(self, "pre", hook, dict(prepend=prepend, with_kwargs=with_kwargs))
        lst = self.fields.setdefault("_hooks_pre", [])
        lst.insert(0, h) if prepend is True else lst.append(h)
        return h

    def register_forward_hook(interp, self, hook, *, prepend=False, with_kwargs=False, always_call=False):
        h = Handle(self, "post", hook, dict(prepend=prepend, with_kwargs=with_kwargs, always_call=always_call))
        lst = self.fields.setdefault("_hooks_post", [])
        lst.insert(0, h) if prepend is True else lst.append(h)
        return h

    def __call__(interp, self, *args, **kwargs):
        for h in list(self.fields.get("_hooks_pre", [])):
            r = interp.call(h.hook, [self, args] + ([kwargs] if h.kwargs.get("with_kwargs") else []), {})
            if r is not None:
                args = r if isinstance(r, tuple) else (r,)
        res = interp.call(interp.getattr(self, "forward"), list(args), kwargs)
        for h in list(self.fields.get("_hooks_post", [])):
            r = interp.call(h.hook, [self, args] + ([kwargs] if h.kwargs.get("with_kwargs") else []) + [res], {})
            if r is not None:
                res = r
        return res

    def get_submodule(interp, self, target):
        if target == "":
            return self
        o = self
        for part in target.split("."):
            o = interp.getattr(o, part)
        return o

    def to(interp, self, *a, **k):
        raise Unsupported("nn.Module.to")

    def __setstate__(interp, self, state):
        return None

    tbl = {
        "__init__": _init,
        "register_buffer": register_buffer,
        "register_parameter": register_parameter,
        "add_module": add_module,
        "register_module": add_module,
        "__setattr__": __setattr__,
        "__getattr__": __getattr__,
        "__delattr__": __delattr__,
        "train": train,
        "eval": eval_,
        "register_forward_pre_hook": register_forward_pre_hook,
        "register_forward_hook": register_forward_hook,
        "__call__": __call__,
        "get_submodule": get_submodule,
        "to": to,
        "__setstate__": __setstate__,
    }
    return {k: ExtMethod(v, "nn.Module." + k) for k, v in tbl.items()}


_NN_MODULE = None
_EXT_TABLES = {}


def ext_member(interp, ext, name):
    from .interp import MISSING

    tbl = _EXT_TABLES.get(ext.name)
    if tbl is None:
        return MISSING
    return tbl.get(name, MISSING)


# ----------------------------------------------------------------------- install
def install(interp):
    from .interp import ExtType, Namespace, NamedTupleType, Partial, WeakRef, Finalizer, SymSeq, Obj, ClassV, Closure, BoundMethod, PropertyV, MISSING, CallableExt

    global _NN_MODULE
    E = ExtType
    nnModule = E("nn.Module")
    _NN_MODULE = nnModule
    _EXT_TABLES["nn.Module"] = nn_module_members()
    _EXT_TABLES["nn.ModuleDict"] = {}
    _EXT_TABLES["object"] = {}

    # ---- builtins
    b = interp.builtins

    def _len(x):
        if isinstance(x, (list, tuple, dict, set, str, frozenset)):
            return len(x)
        if isinstance(x, tz.Shape):
            n = x.ndim()
            return n
        if isinstance(x, SymSeq):
            return x.length
        if isinstance(x, T):
            return x.shape[0]
        if hasattr(x, "sym_len"):
            return x.sym_len(interp)
        if isinstance(x, Obj) and x.cls is not None:
            owner, ent = interp.class_lookup(x.cls, "__len__")
            if ent is not None:
                return interp.call(interp.member_value(owner, ent, x, "__len__"), [], {})
        raise Unsupported(f"len of {type(x).__name__}")

    def _isinstance(v, t):
        return interp.isinstance(v, t)

    def _getattr(o, n, *d):
        return interp.getattr(o, n, *d) if d else interp.getattr(o, n)

    def _setattr(o, n, v):
        interp.setattr(o, n, v)

    def _hasattr(o, n):
        return interp.hasattr(o, n)

    def _delattr(o, n):
        interp.delattr(o, n)

    def _bool(x=False):
        if isinstance(x, SV):
            return wrap(sym.truth(x))
        if isinstance(x, T):
            if getattr(x, "scalar_like", False):
                return wrap(as_bool(x.f))
            raise Unsupported("bool(tensor)")
        return interp.truth(x)

    def _int(x=0):
        if isinstance(x, T):
            if getattr(x, "scalar_like", False):
                return sym.py_int(SV(x.f))
            raise Unsupported("int(tensor)")
        if isinstance(x, str):
            try:
                return int(x)
            except ValueError:
                raise SymRaise("ValueError")
        return sym.py_int(x)

    def _float(x=0.0):
        if isinstance(x, T):
            if getattr(x, "scalar_like", False):
                return sym.py_float(SV(x.f))
            raise Unsupported("float(tensor)")
        if isinstance(x, str):
            if x in ("nan", "inf", "-inf"):
                return float(x)
            try:
                return float(x)
            except ValueError:
                raise SymRaise("ValueError")
        return sym.py_float(x)

    def _tuple(x=()):
        if isinstance(x, tz.Shape):
            return tuple(iter(x))
        return tuple(interp.iterate(x))

    def _list(x=()):
        if isinstance(x, SymRepeat):
            if isinstance(x.times, int):
                return [x.elem] * x.times
            return SymSeq(x.elem, x.times)
        if isinstance(x, tz.Shape):
            return list(iter(x))
        return list(interp.iterate(x))

    def _dict(*a, **k):
        if a:
            src = a[0]
            if isinstance(src, dict):
                d = dict(src)
            else:
                d = {kk: vv for kk, vv in interp.iterate(src)}
        else:
            d = {}
        d.update(k)
        return d

    def _any(it):
        r = False
        for x in interp.iterate(it):
            if isinstance(x, SV):
                r = interp.boolop_or(r, x)
            elif interp.truth(x):
                return True
        return r

    def _all(it):
        conj = []
        for x in interp.iterate(it):
            if isinstance(x, SV):
                conj.append(sym.truth(x))
            elif not interp.truth(x):
                return False
        if not conj:
            return True
        return wrap(z3.And(*conj))

    def _map(fn, *its):
        seqs = [interp.iterate(i) for i in its]
        return [interp.call(fn, list(xs), {}) for xs in zip(*seqs)]

    def _filter(fn, it):
        return [x for x in interp.iterate(it) if interp.truth(interp.call(fn, [x], {}) if fn is not None else x)]

    def _zip(*its, strict=False):
        return list(zip(*[interp.iterate(i) for i in its]))

    def _enumerate(it, start=0):
        return list(enumerate(interp.iterate(it), start))

    def _range(*a):
        if any(isinstance(x, SV) for x in a):
            raise Unsupported("range() with symbolic bound (needs a loop invariant)")
        return range(*a)

    def _sum(it, start=0):
        r = start
        for x in interp.iterate(it):
            r = r + x
        return r

    def _sorted(it, key=None, reverse=False):
        xs = interp.iterate(it)
        if any(isinstance(x, (SV, T)) for x in xs):
            raise Unsupported("sorted() of symbolic values")
        if key is not None:
            return sorted(xs, key=lambda x: interp.call(key, [x], {}), reverse=reverse)
        return sorted(xs, reverse=reverse)

    def _type(x, *rest):
        if rest:
            from .interp import DynClassV

            bases, attrs = rest
            return DynClassV(interp, x, list(bases), dict(attrs))
        if isinstance(x, Obj):
            return x.cls
        if isinstance(x, T):
            return E("nn.Parameter") if x.is_param else E("torch.Tensor")
        if isinstance(x, bool) or (isinstance(x, SV) and x.is_bool):
            return E("bool")
        if isinstance(x, int) or (isinstance(x, SV) and x.is_int):
            return E("int")
        if isinstance(x, float) or (isinstance(x, SV) and x.is_real):
            return E("float")
        if isinstance(x, str):
            return E("str")
        return E(type(x).__name__)

    def _callable(x):
        return isinstance(x, (Closure, BoundMethod, Partial, Model, ClassV)) or (callable(x) and not isinstance(x, (T, SV, Obj)))

    def _id(x):
        return id(x)

    def _str(x=""):
        if isinstance(x, (str, int, float, bool)) or x is None:
            return str(x)
        return "<sym>"

    def _abs(x):
        return abs(x)

    def _round(x, nd=None):
        if nd is not None:
            raise Unsupported("round(x, n)")
        return sym.py_round(x)

    def _issubclass(a, bcls):
        if isinstance(a, ClassV):
            from .interp import _same_type

            targets = bcls.members if hasattr(bcls, "members") else [bcls]
            return any(_same_type(c, t) for c in a.mro() for t in targets)
        return False

    def _iter(x):
        return list(interp.iterate(x))

    def _next(x, *d):
        if isinstance(x, list):
            if x:
                return x.pop(0)
            if d:
                return d[0]
            raise SymRaise("StopIteration")
        raise Unsupported("next()")

    for name, fn in dict(
        len=_len, isinstance=_isinstance, getattr=_getattr, setattr=_setattr, hasattr=_hasattr, delattr=_delattr,
        bool=_bool, int=_int, float=_float, tuple=_tuple, list=_list, dict=_dict, any=_any, all=_all, map=_map,
        filter=_filter, zip=_zip, enumerate=_enumerate, range=_range, sum=_sum, sorted=_sorted, type=_type,
        callable=_callable, id=_id, str=_str, abs=_abs, round=_round, max=sym.py_max, min=sym.py_min,
        issubclass=_issubclass, iter=_iter, next=_next, reversed=lambda x: list(reversed(interp.iterate(x))),
        set=lambda x=(): set(interp.iterate(x)), frozenset=lambda x=(): frozenset(interp.iterate(x)),
        slice=slice, print=lambda *a, **k: None, repr=_str, divmod=lambda a, b: (a // b, a % b),
        pow=lambda a, b: a ** b,
    ).items():
        b[name] = fn
    b["object"] = E("object")
    from .interp import PropertyType

    b["property"] = PropertyType()
    b["Ellipsis"] = Ellipsis
    b["NotImplemented"] = NotImplemented
    b["staticmethod"] = lambda f: f
    b["classmethod"] = lambda f: f
    for exc in ("Exception", "ValueError", "TypeError", "RuntimeError", "KeyError", "AttributeError", "IndexError", "NotImplementedError", "AssertionError", "StopIteration", "ZeroDivisionError", "RecursionError"):
        b[exc] = E(exc)
    # builtin type tokens used in isinstance / casts: keep callables for int/float/bool/str/tuple/list/dict
    # but make them usable as isinstance targets too
    for tname in ("int", "float", "bool", "str", "tuple", "list", "dict"):
        b[tname] = CastType(tname, b[tname])

    # ---- math
    def _msqrt(x):
        if isinstance(x, SV):
            return SV(tz.f_sqrt(_real(x)))
        return math.sqrt(x)

    def _mexp(x):
        if isinstance(x, SV):
            return SV(tz.f_exp(_real(x)))
        return math.exp(x)

    def _mlog(x):
        if isinstance(x, SV):
            return SV(tz.f_log(_real(x)))
        return math.log(x)

    def _copysign(a, s):
        if isinstance(a, SV) or isinstance(s, SV):
            za, zs = num(a), num(s)
            mag = z3.If(za >= 0, za, -za)
            return wrap(z3.If(zs >= 0, mag, -mag))
        return math.copysign(a, s)

    interp.namespaces["math"] = Namespace(
        "math",
        dict(
            ceil=sym.py_ceil, floor=sym.py_floor, sqrt=_msqrt, exp=_mexp, log=_mlog, pi=math.pi, e=math.e, inf=math.inf, tau=math.tau,
            nan=math.nan, copysign=_copysign, isnan=lambda x: False if isinstance(x, SV) else math.isnan(x),
            isinf=lambda x: False if isinstance(x, SV) else math.isinf(x), fabs=abs,
            prod=lambda it: _prod(interp.iterate(it)), gamma=math.gamma, lgamma=lambda x: SV(tz.f_lgamma(_real(x))) if isinstance(x, SV) else math.lgamma(x),
            erf=lambda x: SV(tz.f_erf(_real(x))) if isinstance(x, SV) else math.erf(x),
        ),
    )
    interp.namespaces["cmath"] = Namespace("cmath", {})
    interp.namespaces["numpy"] = Namespace("numpy", {"ndarray": E("np.ndarray"), "number": E("np.number")})

    # ---- itertools / functools / collections / weakref / typing / abc / types
    interp.namespaces["itertools"] = Namespace(
        "itertools",
        dict(
            chain=ChainModel(interp),
            repeat=lambda elem, times=None: SymRepeat(elem, times),
            starmap=lambda fn, it: [interp.call(fn, list(interp.iterate(x)), {}) for x in interp.iterate(it)],
            product=lambda *its, repeat=1: list(itertools.product(*[interp.iterate(i) for i in its], repeat=repeat)),
            zip_longest=lambda *its, fillvalue=None: list(itertools.zip_longest(*[interp.iterate(i) for i in its], fillvalue=fillvalue)),
            accumulate=lambda it: list(itertools.accumulate(interp.iterate(it))),
        ),
    )

    def _reduce(fn, it, *init):
        xs = interp.iterate(it)
        if init:
            acc = init[0]
        else:
            if not xs:
                raise SymRaise("TypeError", "reduce of empty")
            acc, xs = xs[0], xs[1:]
        for x in xs:
            acc = interp.call(fn, [acc, x], {})
        return acc

    def _cache(fn):
        return CachedFn(interp, fn)

    interp.namespaces["functools"] = Namespace(
        "functools",
        dict(partial=lambda fn, *a, **k: Partial(fn, a, k), reduce=_reduce, cache=_cache, lru_cache=lambda *a, **k: _cache if not (a and callable(a[0])) else _cache(a[0]), wraps=lambda f: (lambda g: g), singledispatch=lambda f: f),
    )
    interp.namespaces["collections"] = Namespace(
        "collections",
        dict(namedtuple=lambda name, fields: NamedTupleType(name, fields.split() if isinstance(fields, str) else tuple(fields)), OrderedDict=lambda *a, **k: b["dict"](*a, **k)),
    )
    interp.namespaces["collections.abc"] = Namespace("collections.abc", {n: E(n) for n in ("Iterable", "Sequence", "Mapping", "Iterator", "Callable")})

    def _finalize(obj, fn, *args):
        f = Finalizer(obj, fn, args)
        if isinstance(obj, Obj):
            obj.fields.setdefault("__finalizers__", []).append(f)
        return f

    interp.namespaces["weakref"] = Namespace(
        "weakref",
        dict(ref=lambda o: WeakRef(o), finalize=_finalize, WeakMethod=CallableExt("weakref.WeakMethod", lambda bm: WeakMethodV(bm)), ReferenceType=E("weakref.ReferenceType"),
             WeakValueDictionary=CallableExt("weakref.WeakValueDictionary", lambda init=None: ModuleDictV(init, kind="WeakValueDictionary"))),
    )
    interp.namespaces["typing"] = Namespace("typing", {}, fallback=lambda n: E(n))
    interp.namespaces["abc"] = Namespace("abc", {"ABC": E("ABC"), "abstractmethod": lambda f: f})
    interp.namespaces["types"] = Namespace("types", {"MethodType": E("MethodType"), "UnionType": E("UnionType")})
    interp.namespaces["warnings"] = Namespace("warnings", {"warn": lambda *a, **k: None})

    # ---- torch
    from . import torchmodel

    torchmodel.install(interp)


def _real(x):
    z = num(x)
    return z if z3.is_real(z) else z3.ToReal(z)


def _prod(xs):
    r = 1
    for x in xs:
        r = r * x
    return r


class CastType:
    """builtin type usable both as a cast (``float(x)``) and as an isinstance target / `cast` argument."""

    def __init__(self, name, fn):
        self.name = name
        self.fn = fn

    def __call__(self, *a, **k):
        return self.fn(*a, **k)

    def __or__(self, o):
        from .interp import TypeUnion

        return TypeUnion([self, o])

    def __ror__(self, o):
        from .interp import TypeUnion

        return TypeUnion([o, self])

    def __repr__(self):
        return f"<builtin type {self.name}>"

    def sym_getattr(self, interp, name):
        if name == "__name__":
            return self.name
        raise SymRaise("AttributeError", name)


_orig_isinstance = isinstance_


def isinstance_(interp, v, t):  # noqa: F811  (wrap to accept CastType)
    from .interp import ExtType

    if isinstance(t, CastType):
        return _orig_isinstance(interp, v, ExtType(t.name))
    return _orig_isinstance(interp, v, t)


class SymRepeat:
    def __init__(self, elem, times):
        self.elem, self.times = elem, times

    def sym_iter(self, interp):
        if isinstance(self.times, int):
            return [self.elem] * self.times
        raise Unsupported("iteration over repeat() of symbolic length")


class ChainModel:
    def __init__(self, interp):
        self.interp = interp

    def __call__(self, *its):
        from .interp import SymSeq

        out = []
        for it in its:
            if isinstance(it, SymRepeat) and not isinstance(it.times, int):
                out.append(SymSeq(it.elem, it.times))
            else:
                out.extend(self.interp.iterate(it))
        return ChainResult(out)

    def sym_getattr(self, interp, name):
        if name == "from_iterable":
            return lambda its: [x for it in interp.iterate(its) for x in interp.iterate(it)]
        raise SymRaise("AttributeError", name)


class ChainResult(list):
    pass


class CachedFn:
    """functools.cache on a zero-argument closure (Accumulator): faithful memoisation."""

    def __init__(self, interp, fn):
        self.interp, self.fn = interp, fn
        self.cache = {}
        self.hits = 0

    def __call__(self, *args):
        key = tuple(id(a) if not isinstance(a, (int, str, bool, float)) else a for a in args)
        if key in self.cache:
            self.hits += 1
            return self.cache[key]
        r = self.interp.call(self.fn, list(args), {})
        self.cache[key] = r
        return r

    def sym_getattr(self, interp, name):
        if name == "cache_clear":
            return self.cache.clear
        raise SymRaise("AttributeError", name)
