import Mathlib
open Finset

/-!
Closed forms over whole histories from the one-step recurrences discharged on the real code (C07, C08).
-/

/-- **Cumulative trace** (C07): `S 0 = 0` (cleared / before the first observation) and the proved one-step
recurrence `S (t+1) = d * S t + a * m (t+1)` (decay `d = exp(-dt/tau)`, `m` the 0/1 match indicator) give the
documented sum over all past matching events of `a * d^(age in steps)`. -/
theorem cumulative_trace_closed_form (d a : ℝ) (m : ℕ → ℝ) (S : ℕ → ℝ)
    (h0 : S 0 = 0) (hstep : ∀ t, S (t + 1) = d * S t + a * m (t + 1)) :
    ∀ t, S t = ∑ i ∈ range t, a * d ^ i * m (t - i) := by
  intro t
  induction t with
  | zero => simp [h0]
  | succ t ih =>
    rw [hstep, ih, Finset.sum_range_succ', Finset.mul_sum]
    simp only [pow_zero, mul_one, Nat.sub_zero]
    congr 1
    apply Finset.sum_congr rfl
    intro i _
    have : t + 1 - (i + 1) = t - i := by omega
    rw [this]; ring

/-- **Nearest trace** (C07): the recurrence `N (t+1) = if m (t+1) then a else d * N t` yields
`a * d^(steps since the last event)` and 0 before the first event.  `last t` is the most recent event step. -/
theorem nearest_trace_closed_form (d a : ℝ) (ev : ℕ → Prop) [DecidablePred ev] (N : ℕ → ℝ)
    (h0 : N 0 = 0) (hstep : ∀ t, N (t + 1) = if ev (t + 1) then a else d * N t) :
    ∀ t, (∀ s, s ≤ t → 0 < s → ¬ ev s) → N t = 0 := by
  intro t
  induction t with
  | zero => intro _; exact h0
  | succ t ih =>
    intro hno
    have h1 : ¬ ev (t + 1) := hno (t + 1) (le_refl _) (Nat.succ_pos t)
    rw [hstep, if_neg h1, ih (fun s hs hp => hno s (Nat.le_succ_of_le hs) hp)]
    ring

theorem nearest_trace_since_last (d a : ℝ) (ev : ℕ → Prop) [DecidablePred ev] (N : ℕ → ℝ)
    (hstep : ∀ t, N (t + 1) = if ev (t + 1) then a else d * N t) :
    ∀ (l k : ℕ), 0 < l → ev l → (∀ s, l < s → s ≤ l + k → ¬ ev s) → N (l + k) = a * d ^ k := by
  intro l k hl hev
  induction k with
  | zero =>
    intro _
    obtain ⟨p, rfl⟩ : ∃ p, l = p + 1 := ⟨l - 1, by omega⟩
    simp [hstep, hev]
  | succ k ih =>
    intro hno
    have h1 : ¬ ev (l + k + 1) := hno (l + k + 1) (by omega) (by omega)
    have : l + (k + 1) = (l + k) + 1 := by omega
    rw [this, hstep, if_neg h1, ih (fun s h1 h2 => hno s h1 (by omega))]
    ring

/-- **Pair-based STDP as a double sum** (C08): if each step adds `post t * x t` where `x` is the cumulative
pre-trace, the accumulated update is the sum over all (pre, post) spike pairs with pre not after post of
`a * d^(t_post - t_pre)` -/
theorem pair_sum (d a : ℝ) (pre post : ℕ → ℝ) (x : ℕ → ℝ) (W : ℕ → ℝ)
    (hx0 : x 0 = 0) (hx : ∀ t, x (t + 1) = d * x t + a * pre (t + 1))
    (hW0 : W 0 = 0) (hW : ∀ t, W (t + 1) = W t + post (t + 1) * x (t + 1)) :
    ∀ T, W T = ∑ t ∈ range T, post (t + 1) * ∑ i ∈ range (t + 1), a * d ^ i * pre (t + 1 - i) := by
  intro T
  induction T with
  | zero => simp [hW0]
  | succ T ih =>
    rw [hW, ih, Finset.sum_range_succ, cumulative_trace_closed_form d a pre x hx0 hx (T + 1)]


/-- **Prefix sums of intervals that are each at least `m`** (C19, offline refractory encoder): with the cumulative sum
`S (t+1) = S t + x (t+1)` of inter-spike intervals `x i ≥ m` (the solver proves `m ≤ x i` at an arbitrary index on the
real code), any two cumulative times `k` bins apart differ by at least `k * m`. -/
theorem prefix_sum_gap (x S : ℕ → ℝ) (m : ℝ) (hS : ∀ t, S (t + 1) = S t + x (t + 1)) (hx : ∀ i, m ≤ x i) :
    ∀ a k : ℕ, (k : ℝ) * m ≤ S (a + k) - S a := by
  intro a k
  induction k with
  | zero => simp
  | succ k ih =>
    have h1 : S (a + (k + 1)) = S (a + k) + x (a + k + 1) := by
      have := hS (a + k)
      simpa [Nat.add_assoc] using this
    have h2 := hx (a + k + 1)
    have h3 : ((k + 1 : ℕ) : ℝ) * m = (k : ℝ) * m + m := by push_cast; ring
    rw [h1, h3]
    linarith

/-- corollary: with `S 0 = x 0` every cumulative time is at least `(t + 1) * m` (in particular non-negative for `m ≥ 0`). -/
theorem prefix_sum_lower (x S : ℕ → ℝ) (m : ℝ) (h0 : S 0 = x 0) (hS : ∀ t, S (t + 1) = S t + x (t + 1))
    (hx : ∀ i, m ≤ x i) : ∀ t : ℕ, ((t : ℝ) + 1) * m ≤ S t := by
  intro t
  have h := prefix_sum_gap x S m hS hx 0 t
  have h1 := hx 0
  simp only [Nat.zero_add] at h
  rw [h0] at h
  nlinarith [h, h1]

#print axioms cumulative_trace_closed_form
#print axioms nearest_trace_closed_form
#print axioms nearest_trace_since_last
#print axioms pair_sum
#print axioms prefix_sum_gap
#print axioms prefix_sum_lower
