/-
Machine-checked versions of the induction meta-arguments that the SMT obligations leave open.
Each theorem is generic: the hypotheses are exactly the per-step clauses discharged on the real code
(named in the comment above it); the conclusion is the statement over whole histories.
-/

/-- **Refinement over operation sequences** (C01, C05 lateral diagonal, C10 bounds, C13, C15 invariant).
Hypotheses = per-operation contracts: every operation maps well-formed states to well-formed states and
commutes with the abstraction.  Conclusion: any finite sequence of operations refines the abstract run. -/
theorem refinement_fold {S M Op : Type} (step : S → Op → S) (spec : M → Op → M) (abs : S → M)
    (wf : S → Prop)
    (h : ∀ s op, wf s → wf (step s op) ∧ abs (step s op) = spec (abs s) op) :
    ∀ (ops : List Op) (s : S), wf s →
      wf (ops.foldl step s) ∧ abs (ops.foldl step s) = ops.foldl spec (abs s) := by
  intro ops
  induction ops with
  | nil => intro s hs; exact ⟨hs, rfl⟩
  | cons op rest ih =>
    intro s hs
    have h1 := h s op hs
    have h2 := ih (step s op) h1.1
    simp only [List.foldl_cons]
    exact ⟨h2.1, by rw [h2.2, h1.2]⟩

/-- **Invariant over operation sequences** (C15 representation invariant, C03 refractory range, C05 diagonal):
an invariant established initially and re-established by every operation holds after any sequence. -/
theorem invariant_fold {S Op : Type} (step : S → Op → S) (inv : S → Prop)
    (h : ∀ s op, inv s → inv (step s op)) :
    ∀ (ops : List Op) (s : S), inv s → inv (ops.foldl step s) := by
  intro ops
  induction ops with
  | nil => intro s hs; exact hs
  | cons op rest ih => intro s hs; exact ih (step s op) (h s op hs)

/-- **A delay is a time shift** (C06, from the C04 step contracts): `H t k` is the sample `k` steps back after
`t` steps.  (3a) rest state initially, (3b) a step stores the new value as the newest sample, (3c) and shifts
every older sample one step back.  Then the sample `k` steps back is the value of step `t - k`, and the rest
value before the start. -/
theorem delay_is_time_shift {α : Type} (H : Nat → Nat → α) (x : Nat → α) (rest : α)
    (h0 : ∀ k, H 0 k = rest)
    (hnew : ∀ t, H (t + 1) 0 = x (t + 1))
    (hshift : ∀ t k, H (t + 1) (k + 1) = H t k) :
    ∀ t k, H t k = if k < t then x (t - k) else rest := by
  intro t
  induction t with
  | zero => intro k; simp [h0]
  | succ t ih =>
    intro k
    cases k with
    | zero => simp [hnew]
    | succ k =>
      rw [hshift, ih k]
      by_cases hk : k < t
      · have : k + 1 < t + 1 := Nat.succ_lt_succ hk
        simp [hk, this, Nat.succ_sub_succ]
      · have : ¬ (k + 1 < t + 1) := fun h => hk (Nat.lt_of_succ_lt_succ h)
        simp [hk, this]

/-- **Determinism lifts non-interference to sequences** (C11): if one step of the batched system projects, at
sample `b`, onto one step of the single-sample system (the per-step dependency contract), then so does
any input sequence. -/
theorem batch_projection_fold {SB S1 I IB : Type} (stepB : SB → IB → SB) (step1 : S1 → I → S1)
    (proj : SB → S1) (projI : IB → I)
    (h : ∀ s i, proj (stepB s i) = step1 (proj s) (projI i)) :
    ∀ (is : List IB) (s : SB), proj (is.foldl stepB s) = (is.map projI).foldl step1 (proj s) := by
  intro is
  induction is with
  | nil => intro s; rfl
  | cons i rest ih =>
    intro s
    simp only [List.foldl_cons, List.map_cons]
    rw [ih (stepB s i), h s i]


/-- **Table induction** (C20, Victor–Purpura dynamic programme): a predicate that holds on row 0 and column 0 of a
two-dimensional table and is carried from the three already-computed neighbours (r, c+1), (r+1, c), (r, c) to
(r+1, c+1) - the per-cell step contract discharged by the solver on the real loop body - holds on every cell. -/
theorem grid_invariant (P : Nat → Nat → Prop) (row0 : ∀ c, P 0 c) (col0 : ∀ r, P r 0)
    (step : ∀ r c, P r (c + 1) → P (r + 1) c → P r c → P (r + 1) (c + 1)) : ∀ r c, P r c := by
  intro r
  induction r with
  | zero => exact row0
  | succ r ih =>
    intro c
    induction c with
    | zero => exact col0 (r + 1)
    | succ c ihc => exact step r c (ih (c + 1)) ihc (ih c)

#print axioms refinement_fold
#print axioms invariant_fold
#print axioms delay_is_time_shift
#print axioms batch_projection_fold
#print axioms grid_invariant
