"""RecordTensor.select consumed BY CONTRACT (modular step): callers of select are verified against the postcondition
proved for the real select in contracts/c02_select.py (RecordTensor.select[tensor], [tensor,many times per element]):

    requires  every query time t = dt*s satisfies  -tau <= s <= (N-1) + tau          (tolerance = dt*tau)
    ensures   result(position) = M(offset + round(s))                                  if |round(s) - s| <= tau
              result(position) = interp(M(offset + ceil s), M(offset + floor s), dt*(ceil s - s), dt, **kw)   otherwise
              nothing is written
    where M(k) = data[(pointer - k) mod N].

The precondition is emitted as a proof obligation at the call site; the interpolation callable handed to select is the
one invoked.  Query times must be syntactically dt * s and the tolerance dt * tau (the callers' contracts choose their
symbols that way) so that the change of variables stays linear.
"""
from __future__ import annotations

import z3

from pyvc import tensor as tz
from pyvc.sym import SV, Unsupported, ceil_real, cur, floor_real, num, remove_factor, round_half_even, smod, wrap
from pyvc.tensor import T

INF = "inferno/core/infrastructure.py"


def _owner_and_name(rec):
    ow = rec.fields["_RecordTensor__owner"]
    owner = ow() if callable(ow) else ow.target
    return owner, rec.fields["_ShapedTensor__name"]


def _div_dt(z, dt):
    """z / dt for z syntactically a multiple of dt (or zero)"""
    z = z3.simplify(z) if z3.is_expr(z) else num(z)
    if z3.is_rational_value(z) and z.numerator_as_long() == 0:
        return z3.RealVal(0)
    if z3.is_app(z) and z.decl().kind() == z3.Z3_OP_ITE:
        cnd, a, b = z.children()
        return z3.If(cnd, _div_dt(a, dt), _div_dt(b, dt))
    if z3.is_app(z) and z.decl().kind() == z3.Z3_OP_TO_REAL:
        z = z.arg(0)
        if z3.is_int_value(z) and z.as_long() == 0:
            return z3.RealVal(0)
    r = remove_factor(z, dt)
    if r is None:
        raise Unsupported("select-by-contract: query time / tolerance is not a syntactic multiple of the step time")
    return r if z3.is_real(r) else z3.ToReal(r)


def install(c, log=None, label="select"):
    ex = cur()

    def summary(interp, fi, args, kwargs):
        rec, time = args[0], args[1]
        interp_fn = args[2] if len(args) > 2 else kwargs.get("interp")
        tol = kwargs.get("tolerance", 1e-6)
        off = num(kwargs.get("offset", 1))
        ikw = kwargs.get("interp_kwargs") or {}
        if log is not None:
            log.append(dict(rec=rec, time=time, interp=interp_fn, tolerance=tol, offset=off, interp_kwargs=ikw))
        owner, name = _owner_and_name(rec)
        data = owner.fields[f"_{name}_data"]
        ptr = num(owner.fields["_extras"][f"_{name}_pointer"])
        N = num(owner.fields[f"_{name}_constraints"][0])
        dt = num(owner.fields[f"_{name}_dt"])
        if not (z3.is_const(dt) and dt.decl().kind() == z3.Z3_OP_UNINTERPRETED):
            raise Unsupported("select-by-contract needs a symbolic step time")
        try:
            tau = _div_dt(num(tol), dt)
        except Unsupported:
            tz_ = num(tol)
            tau = (tz_ if z3.is_real(tz_) else z3.ToReal(tz_)) / dt  # e.g. select's own default 1e-6: not the caller's tolerance
        if not isinstance(time, T):
            raise Unsupported("select-by-contract: scalar time (use the scalar contract)")

        def M(k):
            return data.at(smod(ptr - k, N))

        def at(tval):
            s = _div_dt(tval, dt)
            rr, cl, fl = round_half_even(s), ceil_real(s), floor_real(s)
            d = z3.ToReal(rr) - s
            on = z3.If(d >= 0, d, -d) <= tau
            pre = z3.And(s >= -tau, s <= z3.ToReal(N - 1) + tau)
            return s, rr, cl, fl, on, pre

        es = data.eshape

        def interp_at(prev, nxt, sample):
            return interp.call(interp_fn, [T(prev, data.dtype, None, None, es), T(nxt, data.dtype, None, None, es), T(sample, "float", None, None, es), wrap(dt)], dict(ikw))

        rdt = [data.dtype]

        def value(tval):
            s, rr, cl, fl, on, pre = at(tval)
            exact = M(off + rr)
            it_ = interp_at(M(off + cl), M(off + fl), dt * (z3.ToReal(cl) - s))
            itp = it_.f
            if it_.dtype != data.dtype:  # torch.where promotes
                rdt[0] = "float"
                exact, itp = tz.coerce(exact, "float"), tz.coerce(itp, "float")
            return z3.If(on, exact, itp), pre

        if time.tlen is None:
            v, pre = value(time.f)
            ex.obligation(label + "_precondition_time_in_range", pre)
            return T(v, rdt[0], None, None, time.eshape)
        if time.taxis != "last":
            raise Unsupported("select-by-contract: time axis must be trailing")
        tq = z3.Int(ex.fresh_name("tq"))
        _v, pre = value(time.f(tq))
        ex.obligation(label + "_precondition_time_in_range", z3.Implies(z3.And(tq >= 0, tq < num(time.tlen)), pre))
        tf = time.f
        return T(lambda t: value(tf(t))[0], rdt[0], time.tlen, "last", time.eshape)

    c.interp.summaries[(INF, "RecordTensor.select")] = summary
