"""Stub environment for running the REAL trainer ``forward`` bodies symbolically.

The trainer is iterated as ``for cell, state, monitors in self`` -- the stub ``self`` yields one (cell, state,
monitors) triple whose members are plain heap objects:
  * monitors[name].peek() / .view(selector, tol) return designated symbolic tensors (event times carry a NaN flag:
    "has not spiked yet"); reducer.data_.read(k) / .select(...) likewise for the triplet rules;
  * cell.connection.{pre,post}syn_receptive(x) put x on a trailing receptive axis of length ONE (one arbitrary
    synapse of the receptive field: all later reductions over that axis are linear);
  * state.batchreduce(x, 0) is the identity (one arbitrary batch sample; the configured reduction is linear/mean);
  * cell.updater.<param> = (pos, neg) is captured.
Everything the real forward reads from these objects is therefore an explicit, named symbolic input.
"""
from __future__ import annotations

import z3

from pyvc import tensor as tz
from pyvc.interp import Obj
from pyvc.models import Model
from pyvc.tensor import T


REDUCE_UF = [False]
RED = z3.Function("batch_reduction", z3.RealSort(), z3.RealSort())
TRED = z3.Function("trainer_default_batch_reduction", z3.RealSort(), z3.RealSort())


def recept(x):
    if x is None:
        return None
    n = x.nan
    return T(lambda t: x.f, x.dtype, 1, "last", x.eshape, (lambda t: n) if n is not None else None)


class Env:
    def __init__(self, c, monitor_specs, state_fields, delayed_conn=False, extra_cell=None):
        """monitor_specs: name -> dict(peek=T, view=T|None, read2=T|None, select2=T|None)"""
        self.c = c
        self.monitor_specs = monitor_specs
        self.calls = []
        self.conn = Obj(None, "connection")
        self.conn.fields.update(
            postsyn_receptive=Model(lambda it, x: recept(x), "postsyn_receptive"),
            presyn_receptive=Model(lambda it, x: recept(x), "presyn_receptive"),
            like_bias=Model(lambda it, x: x, "like_bias"),
            selector="<selector>",
            delayedby=(c.real("delayedby") if delayed_conn else None),
            delay=c.pw("d") if delayed_conn else None,
            dt=c.real("conn_dt"),
        )
        self.updater = Obj(None, "updater")
        self.cell = Obj(None, "cell")
        self.cell.fields.update(training=True, updater=self.updater, connection=self.conn)
        if extra_cell:
            self.cell.fields.update(extra_cell)
        self.state = Obj(None, "state")
        self.reductions = []

        def batchreduce(it, x, dim=0, **kw):
            """the configured batch reduction.  Default: applied to ONE arbitrary sample's term (linear / mean), i.e.
            the identity.  In REDUCE_UF mode (C11) it is the uninterpreted functional RED over the batch, so that the
            dependence of the update parts on per-sample data can be read off the resulting terms."""
            self.reductions.append((x, dim))
            if REDUCE_UF[0] and isinstance(x, T) and x.tlen is None:
                return T(RED(tz.coerce(x.f, "float")), "float", None, None, x.eshape)
            return x

        self.state.fields.update(batchreduce=Model(batchreduce, "batchreduce(identity)"), **state_fields)
        from pyvc.sym import cur as _cur

        _cur().trainer_env = self
        self.monitors = {}
        for name, sp in monitor_specs.items():
            m = Obj(None, f"monitor[{name}]")

            def mk_view(name=name, sp=sp):
                def view(it, selector, tol=None):
                    self.calls.append(("view", name, selector, tol))
                    if sp.get("view") is None:
                        from pyvc.sym import SymRaise

                        raise SymRaise("AttributeError", f"monitor {name} has no delayed view configured")
                    return sp["view"]

                return view

            m.fields["peek"] = Model(lambda it, sp=sp: sp["peek"], f"{name}.peek")
            m.fields["view"] = Model(mk_view(), f"{name}.view")
            red = Obj(None, f"reducer[{name}]")
            rec = Obj(None, f"record[{name}]")

            def mk_read(name=name, sp=sp):
                def read(it, k=1):
                    self.calls.append(("read", name, k))
                    return sp["peek"] if k == 1 else sp.get("read2")

                return read

            def mk_select(name=name, sp=sp):
                def select(it, selector, interp_fn=None, **kw):
                    self.calls.append(("select", name, selector, interp_fn, kw))
                    return sp.get("select2")

                return select

            rec.fields["read"] = Model(mk_read(), f"{name}.data_.read")
            rec.fields["select"] = Model(mk_select(), f"{name}.data_.select")
            red.fields["data_"] = rec
            red.fields["interpolate"] = f"<{name}.reducer.interpolate>"
            m.fields["reducer"] = red
            self.monitors[name] = m
        self.trainer = Obj(None, "trainer")
        self.trainer.fields.update(training=True, cells_={"cell0": self.cell})
        # trainer-level defaults are DIFFERENT symbolic values from the per-cell state: a forward that reads self.<x>
        # instead of state.<x> cannot satisfy the clauses
        from pyvc.sym import SV

        for k, v in state_fields.items():
            if isinstance(v, SV) and v.is_real:
                self.trainer.fields[k] = c.real("trainer_default_" + k)
        # the trainer-level default reduction is a DIFFERENT function from the per-cell one (a cell registered with its own
        # batch_reduction override): a forward that reduces a part with self.batchreduce instead of state.batchreduce hands
        # the updater trainer_default_batch_reduction(term), which no clause accepts
        def trainer_batchreduce(it, x, dim=0, **kw):
            self.reductions.append((x, dim, "trainer_default"))
            if isinstance(x, T) and x.tlen is None:
                return T(TRED(tz.coerce(x.f, "float")), "float", None, None, x.eshape)
            from pyvc.sym import Unsupported

            raise Unsupported("trainer-level batch reduction applied to a tensor with a time axis")

        self.trainer.fields["batchreduce"] = Model(trainer_batchreduce, "trainer.batchreduce(trainer default, not the cell's)")
        self.trainer.fields["__iter_items__"] = [(self.cell, self.state, self.monitors)]

    def captured(self, param="weight"):
        v = self.updater.fields.get(param)
        if v is None:
            return None, None
        if isinstance(v, tuple):
            return v
        return v, None


def val(x):
    """z3 value of a captured part (None == contributes nothing == 0)."""
    if x is None:
        return z3.RealVal(0)
    return tz.coerce(x.f, "float") if not z3.is_real(x.f) else x.f
