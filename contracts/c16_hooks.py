"""C16 - state hooks: fire exactly when armed (register / deregister / mode flags / manual forward), no dangling
handle after deregistration or collection, clamping / normalisation write-back."""
from __future__ import annotations

import z3

from pyvc import repo
from pyvc import tensor as tz
from pyvc.harness import contract
from pyvc.interp import Finalizer, Obj
from pyvc.models import Handle, Model
from pyvc.sym import as_bool, num
from pyvc.tensor import T

from .fixtures import INF

P = "C16"
NH = "inferno/neural/hooks.py"
MATH = "inferno/core/math.py"
UT = "inferno/_internal/utils.py"


def new_module(c, training):
    it = c.interp
    Module = it.classv(repo.load_module(INF).classes["Module"])
    m = it.instantiate(Module, [], {})
    m.fields["training"] = training
    m.fields["forward"] = Model(lambda itp, *a, **k: "forward-result", "forward")
    return m


def handles(m):
    return list(m.fields.get("_hooks_pre", [])), list(m.fields.get("_hooks_post", []))


def simulate_collection(c, hook):
    """drop-last-reference-and-collect: weakref.finalize runs its callback (at most once) when the referent dies"""
    for f in list(hook.fields.get("__finalizers__", [])):
        if f.alive:
            f.alive = False
            c.call(f.fn, *f.args)


@contract(P, "Hook.lifecycle", [(INF, "Hook.__init__"), (INF, "Hook.register"), (INF, "Hook.deregister"), (INF, "Hook.registered"), (INF, "Hook.__wrapped_prehook"), (INF, "Hook.__wrapped_posthook"), (INF, "_detach_handles")])
def lifecycle(c):
    it = c.interp
    HookC = it.classv(repo.load_module(INF).classes["Hook"])
    training = c.bool("training")
    tr_up, ev_up = c.bool("train_update"), c.bool("eval_update")
    placement = c.choice("placement", ["pre", "post", "both"])
    counts = {"pre": 0, "post": 0}

    def mk(kind):
        def fn(itp, module, *a, **k):
            counts[kind] += 1
            return None

        return Model(fn, f"{kind}hook")

    m = new_module(c, training)
    h = c.call(HookC, mk("pre") if placement in ("pre", "both") else None, mk("post") if placement in ("post", "both") else None, train_update=tr_up, eval_update=ev_up)
    c.ensure("fresh_hook_not_registered", c.getattr(h, "registered") is False)
    c.call(m)
    c.ensure("unregistered_hook_never_runs", counts == {"pre": 0, "post": 0})
    c.call(c.getattr(h, "register"), m)
    pre, post = handles(m)
    c.ensure("registered_after_register", c.getattr(h, "registered") is True)
    c.ensure("handles_installed_as_configured", len(pre) == (1 if placement in ("pre", "both") else 0) and len(post) == (1 if placement in ("post", "both") else 0))
    out2 = c.outcome(c.getattr(h, "register"), m)
    c.ensure("double_register_refused", out2.raised == "RuntimeError" and handles(m) == (pre, post))
    armed = z3.Or(z3.And(tr_up.z, training.z), z3.And(ev_up.z, z3.Not(training.z)))
    before = dict(counts)
    c.call(m)
    ran_pre, ran_post = counts["pre"] - before["pre"], counts["post"] - before["post"]
    exp_pre = 1 if placement in ("pre", "both") else 0
    exp_post = 1 if placement in ("post", "both") else 0
    # on this path `armed` is decided by the explored branches: the hook ran exactly once iff armed
    c.ensure("runs_exactly_once_iff_armed", z3.If(armed, z3.BoolVal(ran_pre == exp_pre and ran_post == exp_post), z3.BoolVal(ran_pre == 0 and ran_post == 0)))
    fins = [f for f in h.fields.get("__finalizers__", []) if f.alive]
    c.ensure("one_live_finalizer_bound_to_current_handles", len(fins) == 1 and [x for x in fins[0].args if x is not None] == pre + post)
    scenario = c.choice("scenario", ["deregister", "collect", "deregister_register_collect", "deregister_register_deregister"])
    if scenario == "deregister":
        c.call(c.getattr(h, "deregister"))
        c.ensure("no_dangling_handle", handles(m) == ([], []))
        c.ensure("not_registered", c.getattr(h, "registered") is False)
        c.ensure("finalizer_detached", not any(f.alive for f in h.fields.get("__finalizers__", [])))
    elif scenario == "collect":
        simulate_collection(c, h)
        c.ensure("no_dangling_handle_after_collection", handles(m) == ([], []))
    else:
        c.call(c.getattr(h, "deregister"))
        c.call(c.getattr(h, "register"), m)
        pre2, post2 = handles(m)
        c.ensure("re_registered", c.getattr(h, "registered") is True and len(pre2) == exp_pre and len(post2) == exp_post)
        fins = [f for f in h.fields.get("__finalizers__", []) if f.alive]
        c.ensure("fresh_finalizer_bound_to_new_handles", len(fins) == 1 and [x for x in fins[0].args if x is not None] == pre2 + post2)
        if scenario.endswith("collect"):
            simulate_collection(c, h)
            c.ensure("no_dangling_handle_after_collection", handles(m) == ([], []))
        else:
            c.call(c.getattr(h, "deregister"))
            c.ensure("no_dangling_handle", handles(m) == ([], []))
    before = dict(counts)
    c.call(m)
    c.ensure("never_runs_again", counts == before)
    c.canary("canary_always_runs", z3.And(z3.Not(armed), z3.BoolVal(ran_pre + ran_post > 0)))


@contract(P, "Hook.flags_reconfigured", [(INF, "Hook.trainexec@setter"), (INF, "Hook.evalexec@setter"), (INF, "Hook.trainexec"), (INF, "Hook.evalexec"), (INF, "Hook.register"), (INF, "Hook.__wrapped_prehook"), (INF, "Hook.__wrapped_posthook")])
def flags(c):
    """the mode flags can be changed on a registered hook; the next module call obeys the NEW flags"""
    it = c.interp
    HookC = it.classv(repo.load_module(INF).classes["Hook"])
    training = c.bool("training")
    t0, e0, t1, e1 = c.bool("train_update_0"), c.bool("eval_update_0"), c.bool("train_update_1"), c.bool("eval_update_1")
    n = [0]
    m = new_module(c, training)
    h = c.call(HookC, None, Model(lambda itp, module, *a, **k: n.__setitem__(0, n[0] + 1), "posthook"), train_update=t0, eval_update=e0)
    c.call(c.getattr(h, "register"), m)
    c.setattr(h, "trainexec", t1)
    c.setattr(h, "evalexec", e1)
    c.ensure("flags_read_back", z3.And(as_bool(c.getattr(h, "trainexec")) == t1.z, as_bool(c.getattr(h, "evalexec")) == e1.z))
    c.call(m)
    armed = z3.Or(z3.And(t1.z, training.z), z3.And(e1.z, z3.Not(training.z)))
    c.ensure("next_call_obeys_the_new_flags", z3.If(armed, z3.BoolVal(n[0] == 1), z3.BoolVal(n[0] == 0)))
    c.canary("canary_old_flags_used", z3.And(z3.BoolVal(n[0] == 1), z3.Not(armed)))


def new_clamp(c, m, lo, hi, **kw):
    Cl = c.interp.classv(repo.load_module(NH).classes["Clamping"])
    return c.call(Cl, m, "weight", lo, hi, **kw)


@contract(P, "StateHook.forward", [(INF, "StateHook.forward"), (INF, "StateHook.register"), (INF, "StateHook.__init__"), (INF, "ContextualHook.__init__"), (INF, "StateHook.__wrapped_hook")])
def statehook(c):
    training = c.bool("training")
    tr_up, ev_up = c.bool("train_update"), c.bool("eval_update")
    as_pre = c.choice("as_prehook", [False, True])
    m = new_module(c, training)
    w = c.pw("w")
    m.fields["weight"] = w
    lo, hi = c.real("lo"), c.real("hi")
    c.require(hi > lo)
    h = new_clamp(c, m, lo, hi, train_update=tr_up, eval_update=ev_up, as_prehook=as_pre)
    clamped = z3.If(w.f < lo.z, lo.z, z3.If(w.f > hi.z, hi.z, w.f))
    reg = c.choice("registered", [True, False])
    if reg:
        c.call(c.getattr(h, "register"))
        pre, post = handles(m)
        c.ensure("placement_as_configured", (len(pre), len(post)) == ((1, 0) if as_pre else (0, 1)))
    force, ignore = c.bool("force"), c.bool("ignore_mode")
    c.call(c.getattr(h, "forward"), force, ignore)
    armed = z3.Or(z3.And(tr_up.z, training.z), z3.And(ev_up.z, z3.Not(training.z)))
    should = z3.And(z3.Or(z3.BoolVal(reg), force.z), z3.Or(ignore.z, armed))
    c.ensure("manual_trigger_truth_table", m.fields["weight"].f == z3.If(should, clamped, w.f))
    if reg:
        m.fields["weight"] = w
        c.call(m)
        c.ensure("module_call_runs_hook_iff_armed", m.fields["weight"].f == z3.If(armed, clamped, w.f))
    c.canary("canary_never", m.fields["weight"].f == w.f)


@contract(P, "Clamping.hook", [(NH, "Clamping.hook"), (NH, "Clamping.__init__"), (UT, "rgetattr"), (UT, "rsetattr")])
def clamping(c):
    m = new_module(c, True)
    w = c.pw("w")
    # the hooked attribute is given in dot notation with one, two or three components: module.weight,
    # module.sub.weight, module.sub.deeper.weight - the value must be written to the LAST object of that path
    depth = c.choice("attribute_path_components", [2, 1, 3])
    path = {1: "weight", 2: "sub.weight", 3: "sub.deeper.weight"}[depth]
    holder, objs = m, [m]
    for name_ in path.split(".")[:-1]:
        nxt = Obj(None, name_)
        holder.fields[name_] = nxt
        holder = nxt
        objs.append(nxt)
    inner = holder
    inner.fields["weight"] = w
    which = c.choice("bounds", ["both", "min", "max"])
    lo, hi = c.real("lo"), c.real("hi")
    c.require(hi > lo)
    Cl = c.interp.classv(repo.load_module(NH).classes["Clamping"])
    h = c.call(Cl, m, path, lo if which != "max" else None, hi if which != "min" else None)
    c.call(c.getattr(h, "hook"), m)
    c.ensure("written_to_the_last_object_of_the_path_only", isinstance(inner.fields.get("weight"), T) and all("weight" not in o.fields for o in objs if o is not inner))
    v = inner.fields["weight"].f if isinstance(inner.fields.get("weight"), T) else w.f
    if which != "max":
        c.ensure("at_least_min", v >= lo.z)
    if which != "min":
        c.ensure("at_most_max", v <= hi.z)
    c.ensure("unchanged_inside_bounds", z3.Implies(z3.And(w.f >= lo.z if which != "max" else True, w.f <= hi.z if which != "min" else True), v == w.f))
    c.canary("canary_unclamped", v == w.f)


NORM = z3.Function("pnorm", z3.RealSort(), z3.RealSort())  # ||.||_p of the attribute along dim (uninterpreted, >= 0)


@contract(P, "Normalization.hook", [(NH, "Normalization.hook"), (NH, "Normalization.__init__"), (MATH, "normalize")])
def normalization(c):
    m = new_module(c, True)
    w = c.pw("w")
    m.fields["weight"] = w
    scale, eps, order = c.real("scale"), c.real("eps"), c.real("order")
    c.require(scale != 0, eps > 0, order != 0)
    n = z3.Real("norm_of_w")
    c.require(n >= 0, z3.Implies(n == 0, w.f == 0))

    def fnorm(itp, data, p=2.0, dim=None, eps=1e-12, **k):
        c.info["_normalize_args"] = (p, dim, eps)
        den = z3.If(n >= num(eps), n, num(eps))
        return T(data.f / den, "float", None, None, data.eshape)

    c.interp.F_ns._table["normalize"] = Model(fnorm, "F.normalize = v / max(||v||_p, eps)")

    def vnorm(itp, data, ord=2, dim=None, keepdim=False, **k):
        # the p-norm of the hooked attribute is the one symbol `norm_of_w` whichever torch routine computes it
        c.info["_normalize_args"] = (ord, dim, None)
        return T(n, "float", None, None, data.eshape)

    from pyvc.interp import Namespace as _NS

    c.interp.torch_ns._table["linalg"] = _NS("torch.linalg", dict(vector_norm=Model(vnorm, "torch.linalg.vector_norm = ||v||_p"), norm=Model(vnorm, "torch.linalg.norm = ||v||_p")))
    Nz = c.interp.classv(repo.load_module(NH).classes["Normalization"])
    h = c.call(Nz, m, "weight", order, scale, None, eps)
    c.call(c.getattr(h, "hook"), m)
    v = m.fields["weight"].f
    den = z3.If(n >= eps.z, n, eps.z)
    c.ensure("attribute_is_scale_times_normalised", v == scale.z * w.f / den)
    a = c.info.get("_normalize_args")
    c.ensure("order_dim_eps_forwarded", a is not None and a[0] is not None and a[2] is not None and z3.is_true(z3.simplify(num(a[0]) == order.z)) and a[1] is None and z3.is_true(z3.simplify(num(a[2]) == eps.z)))
    # norm homogeneity ||c v|| = |c| ||v||  =>  the new norm is |scale| (when ||v|| >= eps); zero vectors stay zero
    absf = lambda x: z3.If(x >= 0, x, -x)  # noqa: E731
    newnorm = absf(scale.z / den) * n
    c.ensure("norm_equals_scale_magnitude", z3.Implies(n >= eps.z, newnorm == absf(scale.z)))
    c.ensure("zero_stays_zero", z3.Implies(n == 0, v == 0))
    c.canary("canary_scale_dropped", z3.And(v == w.f / den, scale.z != 1, w.f != 0))


ASSUMPTIONS = [
    "torch.nn.Module hook protocol (register_forward_(pre_)hook installs a callable that runs once per __call__ until handle.remove()) as modelled in pyvc/models.py",
    "weakref.finalize runs its callback at most once when the referent dies; garbage-collection TIMING is not modelled (collection is simulated by running the live finalizers)",
    "F.normalize(v, p, dim, eps) = v / max(||v||_p, eps) and norm homogeneity ||c v|| = |c| ||v|| (library axioms); the window 0 < ||v|| < eps is excluded from the norm clause",
]

MUTANTS = [
    dict(file=UT, func="rsetattr", old='    pre, _, post = attr.rpartition(".")\n    setattr(rgetattr(obj, pre) if pre else obj, post, val)', new='    path = attr.split(".")\n    setattr(rgetattr(obj, path[0]) if len(path) > 1 else obj, path[-1], val)', contracts=["Clamping.hook"], name="seed C16f: nested attribute paths with three components are written one level too high"),
    dict(file=MATH, func="normalize", old="    return scale * F.normalize(data, p=order, dim=dim, eps=epsilon)  # type: ignore", new="    norm = torch.linalg.vector_norm(data, order, dim=dim, keepdim=True)\n    return scale * (data / (norm + epsilon))", contracts=["Normalization.hook"], name="seed C16e: epsilon added to the norm instead of clamping it from below"),
    dict(file=INF, func="Hook.evalexec@setter", old="        self.__call_eval = value", new="        self.__call_train = value", contracts=["Hook.flags_reconfigured"]),
    dict(file=INF, func="Hook.__wrapped_posthook", old="if self.trainexec and module.training:", new="if self.trainexec or module.training:", contracts=["Hook.lifecycle"]),
    dict(file=INF, func="Hook.__wrapped_posthook", old="        if self.evalexec and not module.training:", new="        elif self.evalexec and not module.training:", contracts=["Hook.lifecycle"], expect="survives", name="control: elif is equivalent (the two conditions are exclusive on module.training)"),
    dict(file=INF, func="Hook.deregister", old="        self.__posthook_handle = None\n", new="", contracts=["Hook.lifecycle"]),
    dict(file=INF, func="Hook.deregister", old="        self.__finalizer = None", new="        pass", contracts=["Hook.lifecycle"], expect="survives", name="control: keeping a detached finalizer object is harmless as long as register() replaces it"),
    dict(file=INF, func="Hook.register", old="            if self.__finalizer:\n                self.__finalizer.detach()\n            self.__finalizer = weakref.finalize(\n                self, _detach_handles, self.__prehook_handle, self.__posthook_handle\n            )", new="            if not self.__finalizer:\n                self.__finalizer = weakref.finalize(\n                    self, _detach_handles, self.__prehook_handle, self.__posthook_handle\n                )", contracts=["Hook.lifecycle"], expect="survives", name="control: seed C16 first hunk alone (finalizer created only when absent) is harmless while deregister() resets it"),
    dict(file=INF, contracts=["Hook.lifecycle"], name="seed C16 (both hunks): finalizer created once and never reset",
         edits=[dict(func="Hook.register", old="            if self.__finalizer:\n                self.__finalizer.detach()\n            self.__finalizer = weakref.finalize(\n                self, _detach_handles, self.__prehook_handle, self.__posthook_handle\n            )", new="            if not self.__finalizer:\n                self.__finalizer = weakref.finalize(\n                    self, _detach_handles, self.__prehook_handle, self.__posthook_handle\n                )"),
                dict(func="Hook.deregister", old="        self.__finalizer = None", new="        pass")]),
    dict(file=INF, func="StateHook.forward", old="if self.registered or force:", new="if self.registered and force:", contracts=["StateHook.forward"]),
    dict(file=NH, func="Clamping.hook", old="torch.clamp(\n                rgetattr(self.module, self.attribute),", new="torch.clamp(\n                rgetattr(self.module, 'weight'),", contracts=["Clamping.hook"]),
    dict(file=MATH, func="normalize", old="return scale * F.normalize(data, p=order, dim=dim, eps=epsilon)", new="return F.normalize(data, p=order, dim=dim, eps=epsilon)", contracts=["Normalization.hook"]),
]
