"""Shared fixtures: symbolic RecordTensor built by running the REAL constructors."""
from __future__ import annotations

import z3

from pyvc import repo
from pyvc import tensor as tz
from pyvc.sym import SV, num, smod

INF = "inferno/core/infrastructure.py"


class Rec:
    """Handle on a symbolic RecordTensor attached to a (real, symbolically constructed) inferno Module."""

    def __init__(self, c, N, ptr, dtype="float", name="x", tag="D", initialized=True, shape_tag="S", dt=None):
        it = c.interp
        mod = repo.load_module(INF)
        self.c = c
        self.name = name
        self.Module = it.classv(mod.classes["Module"])
        self.RT = it.classv(mod.classes["RecordTensor"])
        self.owner = it.instantiate(self.Module, [], {})
        self.rec = it.instantiate(self.RT, [self.owner, name, 1.0, 0.0, None], {})
        self.N = N
        self.S = tz.Shape((tz.Star(shape_tag),))
        self.D0 = None
        c.require(z3.Int("numel_" + shape_tag) > 0)  # observations are non-empty tensors
        if initialized:
            data = c.seq(tag, N, dtype, "first", self.S)
            self.D0 = c.symbols[tag]
            self.owner.fields[f"_{name}_data"] = data
        self.owner.fields[f"_{name}_constraints"][0] = N
        self.owner.fields["_extras"][f"_{name}_pointer"] = ptr
        if dt is not None:
            self.owner.fields[f"_{name}_dt"] = dt
        self.ptr0 = ptr
        self.owner.writes.clear()

    # post-state accessors
    @property
    def data(self):
        return self.owner.fields.get(f"_{self.name}_data")

    @property
    def ptr(self):
        return self.owner.fields["_extras"][f"_{self.name}_pointer"]

    @property
    def recordsz(self):
        return self.owner.fields[f"_{self.name}_constraints"][0]

    def method(self, name):
        return self.c.getattr(self.rec, name)

    def M0(self, k):
        """pre-state abstract view: k steps before the write position"""
        return self.D0(smod(num(self.ptr0) - num(k), num(self.N)))

    def M1(self, k):
        d = self.data
        return d.at(smod(num(self.ptr) - num(k), num(self.recordsz)))

    def wf1(self):
        """post-state well-formedness: storage has exactly N slots, pointer in range"""
        d = self.data
        return z3.And(num(d.tlen) == num(self.recordsz), num(self.ptr) >= 0, num(self.ptr) < num(self.recordsz))
