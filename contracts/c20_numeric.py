"""C20 - numerical helpers: interp/extrap pairs, linear betweenness, distribution identities (PW contracts)."""
from __future__ import annotations

import math

import z3

from pyvc import repo
from pyvc.harness import contract
from pyvc.sym import num
from pyvc.tensor import f_erf, f_exp, f_lgamma, f_log, f_sqrt

from . import c02_select as k

P = "C20"
D = "inferno/stats/distributions.py"

for _a in k.PAIRS:
    k._mk_pair(*_a, prop=P)
contract(P, "interp_linear[between]", (k.FI, "interp_linear"), tags=("kernel",))(k.lin_between)


def _cls(c, name):
    return c.interp.classv(repo.load_module(D).classes[name])


@contract(P, "Poisson", [(D, f"Poisson.{m}") for m in ("pmf", "logpmf", "logcdf", "mean", "variance")])
def poisson(c):
    """rate ranges over everything Poisson.validate accepts - including 0, the degenerate distribution: log is taken in
    definedness mode (log of a non-positive number is 'not a finite number', which propagates like NaN), so 0 * log(0) is
    a violation of "pmf(0; 0) = 1", not an unconstrained real"""
    from pyvc import tensor as tz

    tz.LOG_DEFINEDNESS[0] = True
    kk, lam = c.pw("k"), c.pw("lam")
    c.require(kk.f >= 0, lam.f >= 0)
    C = _cls(c, "Poisson")
    logpmf = c.call(c.getattr(C, "logpmf"), kk, lam)
    pmf = c.call(c.getattr(C, "pmf"), kk, lam)
    finite = z3.Or(lam.f > 0, kk.f == 0)  # k > 0 at rate 0 has probability 0: log-density -inf
    std = z3.If(kk.f == 0, 0, kk.f * f_log(lam.f)) - lam.f - f_lgamma(kk.f + 1)  # log( lam^k e^-lam / k! )
    nf = lambda t: t.nan_at() if t.nan is not None else z3.BoolVal(False)  # noqa: E731
    c.ensure("logpmf_is_a_finite_number_wherever_the_density_is_positive", z3.Implies(finite, z3.Not(nf(logpmf))))
    c.ensure("logpmf_is_standard_density", z3.Implies(finite, logpmf.f == std))
    c.ensure("logpmf_is_not_finite_where_the_density_is_zero", z3.Implies(z3.Not(finite), nf(logpmf)))
    c.ensure("pmf_is_exp_logpmf", z3.Implies(finite, z3.And(z3.Not(nf(pmf)), pmf.f == f_exp(logpmf.f))))
    c.ensure("degenerate_rate_zero_puts_all_mass_on_zero", z3.Implies(z3.And(lam.f == 0, kk.f == 0), z3.And(logpmf.f == -f_lgamma(z3.RealVal(1)), z3.Not(nf(pmf)))))
    cdf = c.call(c.getattr(C, "cdf"), kk, lam)
    logcdf = c.outcome(c.getattr(C, "logcdf"), kk, lam)
    c.expect_return(logcdf)
    c.ensure("logcdf_is_log_cdf", logcdf.value.f == f_log(cdf.f))
    c.ensure("mean", c.call(c.getattr(C, "mean"), lam).f == lam.f)
    c.ensure("variance", c.call(c.getattr(C, "variance"), lam).f == lam.f)
    c.canary("canary_rate_normaliser", logpmf.f == z3.If(kk.f == 0, 0, kk.f * f_log(lam.f)) - lam.f - f_lgamma(lam.f + 1))
    c.canary("canary_finite_everywhere", z3.Not(nf(logpmf)))


SQRT_TAU = num(math.sqrt(math.tau))
SQRT2 = num(math.sqrt(2))
LOG_TAU = num(math.log(math.tau))


@contract(P, "Normal", [(D, f"Normal.{m}") for m in ("pdf", "logpdf", "cdf", "logcdf", "mean", "variance", "params_mv")])
def normal(c):
    x, mu, sg = c.pw("x"), c.pw("mu"), c.pw("sigma")
    c.require(sg.f > 0)
    C = _cls(c, "Normal")
    pdf = c.call(c.getattr(C, "pdf"), x, mu, sg)
    zz = (x.f - mu.f) / sg.f
    c.ensure("pdf_is_standard_density", pdf.f == 1 / (sg.f * SQRT_TAU) * f_exp(z3.RealVal("-1/2") * (zz * zz)))
    c.ensure("logpdf_is_log_pdf", c.call(c.getattr(C, "logpdf"), x, mu, sg).f == f_log(pdf.f))
    cdf = c.call(c.getattr(C, "cdf"), x, mu, sg)
    c.ensure("cdf_is_standard", cdf.f == z3.RealVal("1/2") * (1 + f_erf((x.f - mu.f) / (sg.f * SQRT2))))
    c.ensure("logcdf_is_log_cdf", c.call(c.getattr(C, "logcdf"), x, mu, sg).f == f_log(cdf.f))
    c.ensure("mean", c.call(c.getattr(C, "mean"), mu).f == mu.f)
    c.ensure("variance", c.call(c.getattr(C, "variance"), sg).f == sg.f * sg.f)
    m, v = c.pw("m"), c.pw("v")
    c.require(v.f > 0)
    loc, scale = c.call(c.getattr(C, "params_mv"), m, v)
    c.ensure("mv_roundtrip_mean", c.call(c.getattr(C, "mean"), loc).f == m.f)
    c.ensure("mv_roundtrip_variance", c.call(c.getattr(C, "variance"), scale).f == v.f)
    c.canary("canary_half_erf", cdf.f == z3.RealVal("1/2") * f_erf((x.f - mu.f) / (sg.f * SQRT2)))


@contract(P, "LogNormal", [(D, f"LogNormal.{m}") for m in ("pdf", "logpdf", "cdf", "logcdf", "mean", "variance")])
def lognormal(c):
    x, mu, sg = c.pw("x"), c.pw("mu"), c.pw("sigma")
    c.require(sg.f > 0, x.f > 0)
    C = _cls(c, "LogNormal")
    logpdf = c.call(c.getattr(C, "logpdf"), x, mu, sg)
    lx = f_log(x.f)
    zz = (mu.f - lx) / sg.f
    c.ensure("logpdf_is_standard", logpdf.f == -f_log(sg.f) - lx - z3.RealVal("1/2") * (LOG_TAU + zz * zz))
    c.ensure("pdf_is_exp_logpdf", c.call(c.getattr(C, "pdf"), x, mu, sg).f == f_exp(logpdf.f))
    cdf = c.call(c.getattr(C, "cdf"), x, mu, sg)
    c.ensure("cdf_is_normal_cdf_of_log", cdf.f == z3.RealVal("1/2") * (1 + f_erf((lx - mu.f) / (sg.f * SQRT2))))
    lc = c.outcome(c.getattr(C, "logcdf"), x, mu, sg)
    c.expect_return(lc, "logcdf_terminates")
    c.ensure("logcdf_is_log_cdf", lc.value.f == f_log(cdf.f))
    c.ensure("mean", c.call(c.getattr(C, "mean"), mu, sg).f == f_exp(mu.f + sg.f * sg.f / 2))
    c.ensure("variance", c.call(c.getattr(C, "variance"), mu, sg).f == (f_exp(sg.f * sg.f) - 1) * f_exp(2 * mu.f + sg.f * sg.f))
    c.canary("canary", cdf.f == f_erf(lx))


@contract(P, "LogNormal.params_mv", [(D, "LogNormal.params_mv"), (D, "LogNormal.mean"), (D, "LogNormal.variance")])
def lognormal_roundtrip(c):
    """the mean/variance parameterisation round-trips: mean(params_mv(m, v)) = m and variance(params_mv(m, v)) = v for
    m > 0, v > 0.  exp / log / sqrt are uninterpreted; the instances of their algebraic laws the argument uses
    (each one a true fact about the real functions) are stated explicitly below."""
    from pyvc.tensor import f_sqrt

    m, v = c.pw("mean"), c.pw("variance")
    c.require(m.f > 0, v.f > 0)
    C = _cls(c, "LogNormal")
    loc, scale = c.call(c.getattr(C, "params_mv"), m, v)
    q = m.f * m.f
    w = q + v.f
    r = f_sqrt(w)
    a = q / r
    u = 1 + v.f / q
    g = f_log(u)
    c.ensure("loc_formula", loc.f == f_log(a))
    c.ensure("scale_formula", scale.f == f_sqrt(g))
    S = f_sqrt(g)
    L = f_log(a)
    # law instances: sqrt(x)^2 = x (x >= 0); log u >= 0 for u >= 1; exp(log x) = x (x > 0); exp(x + y) = exp x * exp y
    c.axiom(z3.And(r > 0, r * r == w))
    c.axiom(z3.And(g >= 0, S >= 0, S * S == g))
    c.axiom(f_exp(L) == a)
    c.axiom(f_exp(g) == u)
    half = g / 2
    c.axiom(z3.And(f_exp(half) > 0, f_exp(half) * f_exp(half) == f_exp(g)))
    c.axiom(f_exp(L + S * S / 2) == f_exp(L) * f_exp(half))
    c.axiom(f_exp(2 * L + S * S) == f_exp(L) * f_exp(L) * f_exp(g))
    mean = c.call(c.getattr(C, "mean"), loc, scale)
    var = c.call(c.getattr(C, "variance"), loc, scale)
    c.ensure("mean_round_trips", mean.f == m.f)
    c.ensure("variance_round_trips", var.f == v.f)
    c.canary("canary_mean_is_loc", mean.f == loc.f)


ASSUMPTIONS = [
    "exp/log/sqrt/lgamma/erf/gammaincc are uninterpreted real functions (exp/log/sqrt with their algebraic axioms); float constants such as sqrt(2*pi) are the exact rationals of their IEEE values",
    "NOT reachable (declared): integrals of densities, sums of pmf, moments as integrals, isi, Victor-Purpura triangle inequality: bounded numeric checks in native/c20.py (Victor-Purpura bounds, identity, symmetry, cost monotonicity: loop contract in contracts/c20_vp.py)",
]

MUTANTS = [
    dict(file=D, func="Poisson.logpmf", old="torch.special.xlogy(support, rate)", new="support * torch.log(rate)", contracts=["Poisson"], name="seed C20d: 0 * log(0) at the degenerate rate"),
    dict(file=D, func="LogNormal.params_mv", old="loc = torch.log(meansq / torch.sqrt(meansq + variance))", new="loc = torch.log(meansq / torch.sqrt(meansq - variance))", contracts=["LogNormal.params_mv"]),
    dict(file=D, func="LogNormal.params_mv", old="scale = torch.sqrt(torch.log(1 + variance / meansq))", new="scale = torch.log(1 + variance / meansq)", contracts=["LogNormal.params_mv"]),
    dict(file=D, func="LogNormal.logcdf", old="torch.log(cls.cdf(support, loc, scale))", new="torch.log(cls.logcdf(support, loc, scale))", contracts=["LogNormal"], name="D20 regression: LogNormal.logcdf self-recursion"),
    dict(file=D, func="Poisson.logpmf", old="torch.lgamma(support + 1)", new="torch.lgamma(rate + 1)", contracts=["Poisson"], name="D21 regression: Poisson normaliser"),
    dict(file=D, func="Normal.cdf", old="0.5 * (1 + torch.special.erf(", new="0.5 * (torch.special.erf(", contracts=["Normal"]),
    dict(file=D, func="Normal.variance", old="return scale**2", new="return scale", contracts=["Normal"]),
    dict(file=k.FI, func="interp_nearest", old="sample_at / step_time > 0.5", new="sample_at / step_time >= 0.5", contracts=["pair[extrap_nearest,interp_nearest]"]),
    dict(file=k.FI, func="interp_linear", old="return prev_data + slope * sample_at", new="return next_data + slope * sample_at", contracts=["interp_linear[between]"]),
    dict(file=k.FE, func="extrap_linear_backward", old="(step_time - sample_at)", new="(sample_at - step_time)", contracts=["pair[extrap_linear_backward,interp_linear]"]),
]
