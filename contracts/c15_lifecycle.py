"""C15 - trainer / monitor lifecycle.

The REAL CellTrainer, MonitorPool, Observable, Cell, Layer (Biclique), Monitor (StateMonitor) and Hook code is
executed symbolically on a two-connection / one-neuron layer (two cells that share their postsynaptic neuron), with
stub connections / neuron and stub reducers that count what they are handed.  The trainer and layer modes are symbolic
booleans; the structure of the pool (which cells, which monitor names, which are shared) is a concrete family of shapes
(choices below): per-operation contracts are proved for every member of the family - NOT for pools of arbitrary
size (loops over the pool are unrolled on the concrete shape).  The induction over operation sequences is the
representation-invariant argument: every operation is proved to re-establish Inv from any family state satisfying Inv.

Inv(trainer):  every pooled monitor is registered on the layer  <=>  trainer.training
               every pooled monitor is listed once by `monitors`, `named_monitors` lists exactly the (cell, name) pairs
               a pooled monitor observes the layer-relative path of the attribute asked for on ITS cell
Obs(trainer):  one layer step hands each pooled monitor's reducer exactly one observation (the current value of
               the observed attribute) iff trainer.training and layer.training, none otherwise.
"""
from __future__ import annotations

import z3

from pyvc import repo
from pyvc import tensor as tz
from pyvc.harness import contract
from pyvc.interp import Obj
from pyvc.models import Model
from pyvc.tensor import T

P = "C15"
NW = "inferno/neural/network.py"
PO = "inferno/observe/pooling.py"
MO = "inferno/observe/monitors.py"
LB = "inferno/learn/base.py"
INF = "inferno/core/infrastructure.py"
UT = "inferno/_internal/utils.py"
R = z3.RealSort()
SHAPE = tz.Shape((z3.Int("B"), 3))


def cls(c, file, name):
    return c.interp.classv(repo.load_module(file).classes[name])


def component(kind, name, steps):
    """uninterpreted component: every call produces a fresh state value indexed by the global step counter"""
    o = Obj(None, f"{kind}:{name}")
    F = z3.Function(f"{kind}_{name}_state", z3.IntSort(), R)

    def call(it, *xs, **kw):
        v = T(F(z3.IntVal(steps[0])), "float", None, None, SHAPE)
        o.fields["spike" if kind == "neuron" else "synspike"] = v
        return v

    o.fields["__call__"] = Model(call, f"{kind}:{name}.__call__")
    o.fields["outshape"] = (3,)
    o.fields["shape"] = (3,)
    o.fields["batchedshape"] = (z3.Int("B"), 3)
    o.fields["spike" if kind == "neuron" else "synspike"] = T(F(z3.IntVal(-1)), "float", None, None, SHAPE)
    o.fields["updater"] = Obj(None, f"updater:{name}")
    return o, F


class World:
    """two cells (c1,n) and (c2,n) of one real Biclique layer (they share their postsynaptic neuron); optionally a
    second, identically named layer"""

    def __init__(self, c, nlayers=1):
        self.c = c
        self.steps = [0]
        self.layers, self.F, self.cells, self.comp = [], {}, {}, {}
        for L in range(nlayers):
            c1, F1 = component("connection", f"L{L}c1", self.steps)
            c2, F2 = component("connection", f"L{L}c2", self.steps)
            n, FN = component("neuron", f"L{L}n", self.steps)
            c2.fields["updater"] = c1.fields["updater"] if L == 0 else c2.fields["updater"]  # layer 0: one shared updater
            layer = c.call(cls(c, NW, "Biclique"), [("c1", c1), ("c2", c2)], [("n", n)], "sum")
            self.layers.append(layer)
            self.F[L, "c1"], self.F[L, "c2"], self.F[L, "n"] = F1, F2, FN
            self.comp[L, "c1"], self.comp[L, "c2"], self.comp[L, "n"] = c1, c2, n
            self.cells[L, "c1"] = c.call(c.getattr(layer, "get_cell"), "c1", "n")
            self.cells[L, "c2"] = c.call(c.getattr(layer, "get_cell"), "c2", "n")
        self.layer = self.layers[0]
        self.cell1, self.cell2 = self.cells[0, "c1"], self.cells[0, "c2"]
        self.reducers = []

    def reducer(self, tag):
        r = Obj(None, f"reducer:{tag}")
        r.fields["seen"] = []
        r.fields["cleared"] = 0

        def call(it, *xs, **kw):
            r.fields["seen"].append((self.steps[0], xs))
            return None

        def clear(it, **kw):
            r.fields["cleared"] += 1
            r.fields["seen"] = []

        r.fields["__call__"] = Model(call, f"reducer:{tag}.__call__")
        r.fields["clear"] = Model(clear, f"reducer:{tag}.clear")
        self.reducers.append(r)
        return r

    def ctor(self, tag, **kw):
        """the monitor constructor the shipped trainers use"""
        kw.setdefault("train_update", True)
        kw.setdefault("eval_update", False)
        return self.c.call(self.c.getattr(cls(self.c, MO, "StateMonitor"), "partialconstructor"), reducer=self.reducer(tag), **kw)

    def step(self, L=0):
        self.steps[0] += 1
        x = self.c.pw(f"x1_{self.steps[0]}", eshape=SHAPE), self.c.pw(f"x2_{self.steps[0]}", eshape=SHAPE)
        return self.c.call(self.layers[L], {"c1": (x[0],), "c2": (x[1],)})

    def seen(self, monitor):
        return [s for s in monitor.fields["reducer_"].fields["seen"]]


def new_trainer(c):
    return c.call(cls(c, LB, "CellTrainer"))


def listing(c, tr):
    mons = list(c.interp.iterate(c.getattr(tr, "monitors")))
    named = list(c.interp.iterate(c.getattr(tr, "named_monitors")))
    return mons, named


def hooked(layer, m):
    """the layer really holds a forward hook that belongs to this monitor"""
    hs = list(layer.fields.get("_hooks_pre", [])) + list(layer.fields.get("_hooks_post", []))
    own = [m.fields.get("_Hook__prehook_handle"), m.fields.get("_Hook__posthook_handle")]
    return any(h is o for h in hs for o in own if o is not None)


TARGETS = [
    (LB, "CellTrainer.__init__"), (LB, "CellTrainer.add_cell"), (LB, "CellTrainer.del_cell"), (LB, "CellTrainer.add_monitor"), (LB, "CellTrainer.del_monitor"),
    (LB, "CellTrainer.get_monitor"), (LB, "CellTrainer.train"), (LB, "CellTrainer.clear"), (LB, "CellTrainer.update"), (LB, "CellTrainer.monitors"), (LB, "CellTrainer.named_monitors"),
    (LB, "CellTrainer.cells"), (LB, "CellTrainer.named_cells"),
    (PO, "MonitorPool.add_observed"), (PO, "MonitorPool.del_observed"), (PO, "MonitorPool.add_monitor"), (PO, "MonitorPool.del_monitor"), (PO, "MonitorPool.get_monitor"), (PO, "MonitorPool.monitors"),
    (PO, "MonitorPool.named_monitors"), (PO, "MonitorPool.pool"), (PO, "Observable.__init__"), (PO, "Observable.add_monitor"), (PO, "Observable.realign_attribute"), (PO, "Observable.monitors"),
    (NW, "Cell.__init__"), (NW, "Cell.local_remap"), (NW, "Layer._realign_attribute"), (NW, "Layer.add_cell"), (NW, "Layer.get_cell"),
    (MO, "Monitor.register"), (MO, "Monitor.__init__"), (MO, "Monitor.clear"), (MO, "StateMonitor.__init__"), (MO, "StateMonitor._monitor_call"), (MO, "StateMonitor.partialconstructor"),
    (INF, "Hook.register"), (INF, "Hook.deregister"), (INF, "Hook.registered"), (UT, "unique"), (UT, "fzip"), (UT, "rgetattr"), (UT, "rgetitem"), (UT, "getitem"),
]

# cell name -> (layer index, connection) for every pool shape
SHAPES = ["one_empty", "one", "two_shared", "two_shared_plus_private", "two_distinct_tags", "two_layers"]
TWO = ("two_shared", "two_shared_plus_private", "two_distinct_tags", "two_layers")


def owners(shape):
    own = {"a": (0, "c1")}
    if shape in TWO:
        own["b"] = (1, "c1") if shape == "two_layers" else (0, "c2")
    return own


def setup(c, w, tr, shape):
    """bring a fresh trainer to one member of the pool-shape family; returns (cell, name) -> monitor"""
    mons = {}
    own = owners(shape)
    for name, (L, conn) in own.items():
        c.call(c.getattr(tr, "add_cell"), name, w.cells[L, conn])
    if shape == "one_empty":
        return mons
    add = c.getattr(tr, "add_monitor")
    mons["a", "post"] = c.call(add, "a", "post", "neuron.spike", w.ctor("a.post"), False, tc=1.0)
    mons["a", "pre"] = c.call(add, "a", "pre", "connection.synspike", w.ctor("a.pre"), False, tc=1.0)
    if shape in ("two_shared", "two_shared_plus_private", "two_layers"):
        # the second cell asks through the documented aliases: same layer-relative path
        mons["b", "post"] = c.call(add, "b", "post", "postspike", w.ctor("b.post"), False, tc=1.0)
        mons["b", "pre"] = c.call(add, "b", "pre", "prespike", w.ctor("b.pre"), False, tc=1.0)
    if shape == "two_distinct_tags":
        mons["b", "post"] = c.call(add, "b", "post", "neuron.spike", w.ctor("b.post"), False, tc=2.0)
    if shape == "two_shared_plus_private":
        mons["a", "own"] = c.call(add, "a", "own", "neuron.spike", w.ctor("a.own"), True)
    return mons


def expected_value(w, own, key, step):
    cell, name = key
    L, conn = own[cell]
    return w.F[L, "n" if name in ("post", "own") else conn](z3.IntVal(step))


def check_inv(c, w, tr, own, mons, training, tag):
    """Inv: registration <=> trainer mode, listings exact"""
    listed, named = listing(c, tr)
    distinct = []
    for m in mons.values():
        if not any(m is d for d in distinct):
            distinct.append(m)
    c.ensure(f"{tag}:monitors_lists_each_pooled_monitor_once", len(listed) == len(distinct) and all(any(l is d for l in listed) for d in distinct))
    c.ensure(f"{tag}:named_monitors_lists_exactly_the_registered_pairs", sorted(k for k, _ in named) == sorted(mons) and all(m is mons[k] for k, m in named if k in mons))
    for k, m in mons.items():
        reg = c.getattr(m, "registered")
        lay = w.layers[own[k[0]][0]]
        c.ensure(f"{tag}:{k[0]}.{k[1]}:hooked_on_its_own_layer_iff_trainer_training", (reg is True and hooked(lay, m)) if training else (reg is False and not any(hooked(l, m) for l in w.layers)))


def check_obs(c, w, own, mons, trainer_training, tag):
    """Obs: one step of a layer => every monitor of a cell of THAT layer gets exactly one observation, the current
    value of the attribute it was asked to observe, iff trainer and layer are both training; nobody else gets any"""
    for L, lay in enumerate(w.layers):
        ltr = c.bool(f"layer{L}_training_{tag}")
        c.call(c.getattr(lay, "train"), ltr)
        before = {k: len(w.seen(m)) for k, m in mons.items()}
        w.step(L)
        now = w.steps[0]
        both = z3.And(ltr.z, z3.BoolVal(bool(trainer_training)))
        for k, m in mons.items():
            new = w.seen(m)[before[k]:]
            if own[k[0]][0] != L:
                c.ensure(f"{tag}:{k[0]}.{k[1]}:silent_when_another_layer_steps", len(new) == 0)
                continue
            ok_one = len(new) == 1 and new[0][0] == now and len(new[0][1]) == 1
            val_ok = (new[0][1][0].f == expected_value(w, own, k, now)) if ok_one else z3.BoolVal(False)
            c.ensure(f"{tag}:{k[0]}.{k[1]}:one_current_observation_iff_both_training", z3.If(both, val_ok, z3.BoolVal(len(new) == 0)))


@contract(P, "CellTrainer.lifecycle", TARGETS, min_obligations=20)
def lifecycle(c):
    shape = c.choice("pool_shape", SHAPES)
    w = World(c, 2 if shape == "two_layers" else 1)
    own = owners(shape)
    tr = new_trainer(c)
    training0 = c.choice("trainer_training_initially", [True, False])
    if not training0:
        c.call(c.getattr(tr, "train"), False)
    mons = setup(c, w, tr, shape)
    if shape in ("two_shared", "two_shared_plus_private"):
        c.ensure("setup:same_layer_path_same_tags_is_pooled", mons["a", "post"] is mons["b", "post"])
        c.ensure("setup:different_connections_never_pooled", mons["a", "pre"] is not mons["b", "pre"])
    if shape == "two_distinct_tags":
        c.ensure("setup:different_tags_never_pooled", mons["a", "post"] is not mons["b", "post"])
    if shape == "two_layers":
        c.ensure("setup:different_layers_never_pooled", mons["a", "post"] is not mons["b", "post"] and mons["a", "pre"] is not mons["b", "pre"])
    if shape == "two_shared_plus_private":
        c.ensure("setup:unique_monitor_never_pooled", all(mons["a", "own"] is not m for k, m in mons.items() if k != ("a", "own")))
    c.ensure("setup:cell_listing", [x[0] for x in c.interp.iterate(c.getattr(tr, "cells"))] == [w.cells[own[n]] for n in own] and [n for n, _ in c.interp.iterate(c.getattr(tr, "named_cells"))] == list(own))
    check_inv(c, w, tr, own, mons, training0, "pre")
    ops = ["none", "train", "eval", "clear", "update"]
    if shape != "one_empty":
        ops += ["del_monitor_a_post", "add_monitor_again", "add_monitor_unique_replaces", "add_monitor_unique_replaces_post", "del_cell_a", "strip_del_readd_a"]
    if shape in TWO:
        ops += ["del_cell_b", "readd_cell_b"]
    op = c.choice("operation", ops)
    training = training0
    survivors = dict(mons)

    def hooked_any(m):
        return any(hooked(l, m) for l in w.layers)

    if op == "train":
        c.call(c.getattr(tr, "train"), True)
        training = True
    elif op == "eval":
        c.call(c.getattr(tr, "train"), False)
        training = False
    elif op == "clear":
        w.step()
        c.call(c.getattr(tr, "clear"))
        c.ensure("clear:every_monitor_cleared_once", all(m.fields["reducer_"].fields["cleared"] == 1 and not w.seen(m) for m in mons.values()))
    elif op == "update":
        calls = {}
        ups = []
        for (L, k), comp in w.comp.items():
            u = comp.fields.get("updater")
            if k != "n" and not any(u is x for x in ups):
                ups.append(u)
        for i, u in enumerate(ups):
            u.fields["__call__"] = Model(lambda it, i=i, **kw: calls.__setitem__(i, calls.get(i, []) + [kw]), f"updater{i}.__call__")
        used = []
        for n in own:
            u = w.comp[own[n]].fields["updater"]
            if not any(u is x for x in used):
                used.append(u)
        c.call(c.getattr(tr, "update"), flag=1)
        c.ensure("update:each_registered_cells_updater_applied_exactly_once_with_kwargs", all((calls.get(i) == [{"flag": 1}]) == any(u is x for x in used) and (i in calls) == any(u is x for x in used) for i, u in enumerate(ups)))
    elif op == "del_monitor_a_post":
        removed = survivors.pop(("a", "post"))
        c.call(c.getattr(tr, "del_monitor"), "a", "post")
        still_used = any(m is removed for m in survivors.values())
        c.ensure("del_monitor:unshared_monitor_is_unhooked_shared_one_is_kept", hooked_any(removed) == (still_used and training))
        c.ensure("del_monitor:lookup_gone", c.call(c.getattr(tr, "get_monitor"), "a", "post") is None)
    elif op == "add_monitor_again":
        again = c.call(c.getattr(tr, "add_monitor"), "a", "post", "neuron.spike", w.ctor("a.post2"), False, tc=1.0)
        c.ensure("add_monitor:existing_name_returns_existing_monitor", again is mons["a", "post"])
    elif op == "add_monitor_unique_replaces":
        old = survivors["a", "pre"]
        new = c.call(c.getattr(tr, "add_monitor"), "a", "pre", "connection.synspike", w.ctor("a.pre2"), True)
        c.ensure("add_monitor:unique_returns_a_new_monitor", new is not old)
        survivors["a", "pre"] = new
    elif op == "add_monitor_unique_replaces_post":
        old = survivors["a", "post"]
        new = c.call(c.getattr(tr, "add_monitor"), "a", "post", "neuron.spike", w.ctor("a.post2"), True)
        c.ensure("add_monitor:unique_returns_a_new_monitor", new is not old and all(new is not m for m in mons.values()))
        survivors["a", "post"] = new
    elif op == "strip_del_readd_a":
        # every monitor of the cell deleted one by one, then the cell itself, then the cell registered again: nothing stale
        # may be left behind (the pool must have forgotten the cell), the new monitor pools / hooks like any other
        for k_ in [k_ for k_ in survivors if k_[0] == "a"]:
            survivors.pop(k_)
            c.call(c.getattr(tr, "del_monitor"), "a", k_[1])
        c.call(c.getattr(tr, "del_cell"), "a")
        out = c.outcome(c.getattr(tr, "add_cell"), "a", w.cells[own["a"]])
        c.expect_return(out, "readd_after_stripping_every_monitor_is_accepted")
        if not out.ok:
            return
        survivors["a", "post"] = c.call(c.getattr(tr, "add_monitor"), "a", "post", "neuron.spike", w.ctor("a.post4"), False, tc=1.0)
        own = dict([("a", own["a"])] + [(n, o) for n, o in own.items() if n != "a"]) if False else own
    elif op in ("del_cell_a", "del_cell_b", "readd_cell_b"):
        victim = "a" if op == "del_cell_a" else "b"
        c.call(c.getattr(tr, "del_cell"), victim)
        gone = {k: m for k, m in survivors.items() if k[0] == victim}
        survivors = {k: m for k, m in survivors.items() if k[0] != victim}
        own = {n: o for n, o in own.items() if n != victim}
        c.ensure("del_cell:its_unshared_monitors_are_unhooked_shared_ones_kept", all(hooked_any(m) == (training and any(m is s for s in survivors.values())) for m in gone.values()))
        c.ensure("del_cell:cell_listing", [x[0] for x in c.interp.iterate(c.getattr(tr, "cells"))] == [w.cells[own[n]] for n in own])
        if op == "readd_cell_b":
            own = owners(shape)
            c.call(c.getattr(tr, "add_cell"), "b", w.cells[own["b"]])
            survivors["b", "post"] = c.call(c.getattr(tr, "add_monitor"), "b", "post", "neuron.spike", w.ctor("b.post3"), False, tc=1.0)
            c.ensure("readd:pooled_again_iff_same_layer_path_and_tags", (survivors["b", "post"] is survivors["a", "post"]) == (shape != "two_layers"))
    # frame: every monitor of every still-registered cell is the same object as before
    c.ensure("frame:surviving_monitors_are_not_replaced", all(c.call(c.getattr(tr, "get_monitor"), k[0], k[1]) is m for k, m in survivors.items()))
    check_inv(c, w, tr, own, survivors, training, "post")
    check_obs(c, w, own, survivors, training, "post")
    c.canary("canary_records_in_eval", z3.BoolVal(bool(survivors) and not training and any(len(w.seen(m)) > 0 for m in survivors.values())))


@contract(P, "CellTrainer.two_trainers", TARGETS, min_obligations=20)
def two_trainers(c):
    """a second trainer on the same cell(s) never disturbs the first one, whatever it does"""
    w = World(c, 1)
    t1, t2 = new_trainer(c), new_trainer(c)
    tr1 = c.choice("first_trainer_training", [True, False])
    tr2 = c.choice("second_trainer_training", [True, False])
    if not tr1:
        c.call(c.getattr(t1, "train"), False)
    if not tr2:
        c.call(c.getattr(t2, "train"), False)
    own = {"a": (0, "c1"), "b": (0, "c2")}
    mons = setup(c, w, t1, "two_shared")
    names = c.choice("second_trainer_monitor_names", ["same", "different"])
    sfx = "" if names == "same" else "2"
    # the newcomer uses different monitor settings (tags) for (possibly) the same names
    c.call(c.getattr(t2, "add_cell"), "a", w.cell1)
    m2 = {}
    m2["a", "post" + sfx] = c.call(c.getattr(t2, "add_monitor"), "a", "post" + sfx, "neuron.spike", w.ctor("t2.a.post"), False, tc=5.0)
    m2["a", "pre" + sfx] = c.call(c.getattr(t2, "add_monitor"), "a", "pre" + sfx, "connection.synspike", w.ctor("t2.a.pre"), False, tc=5.0)
    c.ensure("second_trainer_gets_its_own_monitors", all(all(x is not y for y in mons.values()) for x in m2.values()))
    op = c.choice("second_trainer_operation", ["none", "train", "eval", "del_monitor", "del_cell", "clear"])
    if op == "train":
        c.call(c.getattr(t2, "train"), True)
        tr2 = True
    elif op == "eval":
        c.call(c.getattr(t2, "train"), False)
        tr2 = False
    elif op == "del_monitor":
        c.call(c.getattr(t2, "del_monitor"), "a", "post" + sfx)
        del m2["a", "post" + sfx]
    elif op == "del_cell":
        c.call(c.getattr(t2, "del_cell"), "a")
        m2 = {}
    elif op == "clear":
        w.step()
        c.call(c.getattr(t2, "clear"))
        c.ensure("clear_of_second_trainer_leaves_first_trainers_records", all(m.fields["reducer_"].fields["cleared"] == 0 for m in mons.values()))
    c.ensure("frame:first_trainers_monitors_are_not_replaced", all(c.call(c.getattr(t1, "get_monitor"), k[0], k[1]) is m for k, m in mons.items()))
    check_inv(c, w, t1, own, mons, tr1, "first")
    check_inv(c, w, t2, {"a": (0, "c1")}, m2, tr2, "second")
    # the cell's own name -> monitor accessor (what MultiStateMonitor 'monitors.<name>.latest' paths of the
    # eligibility-trace trainers read): must still resolve the first trainer's names to the first trainer's monitors
    acc = c.getattr(w.cell1, "monitors")
    still = all(c.interp.getitem(acc, n) is mons["a", n] for n in ("post", "pre"))
    if names == "same":
        c.ensure("cell_monitor_accessor_keeps_first_trainers_monitors[same_names]", still)
    else:
        c.ensure("cell_monitor_accessor_keeps_first_trainers_monitors_when_names_differ", still)
    check_obs(c, w, own, mons, tr1, "first")
    c.canary("canary_second_trainer_eval_silences_first", z3.BoolVal(tr1 and not tr2 and all(len(w.seen(m)) == 0 for m in mons.values())))


@contract(P, "IndependentCellTrainer.iteration", [(LB, "IndependentCellTrainer.__iter__"), (LB, "IndependentCellTrainer.get_unit"), (LB, "IndependentCellTrainer.__init__"), (LB, "CellTrainer.named_monitors_of"), (LB, "CellTrainer.get_cell"), (PO, "MonitorPool.named_monitors_of"), (LB, "CellTrainer.add_cell"), (LB, "CellTrainer.add_monitor")], min_obligations=4)
def iteration(c):
    """what every trainer's forward iterates over: one (cell, auxiliary state, {name: monitor}) triple per registered
    cell, in registration order, each with exactly ITS cell's state and monitors"""
    shape = c.choice("pool_shape", ["one", "two_shared", "two_shared_plus_private", "two_layers"])
    w = World(c, 2 if shape == "two_layers" else 1)
    own = owners(shape)
    tr = c.call(cls(c, LB, "IndependentCellTrainer"))
    states = {}
    Module = cls(c, INF, "Module")
    for name, (L, conn) in own.items():
        states[name] = c.interp.instantiate(Module, [], {}) if name == "a" else None  # a cell may have no auxiliary state
        c.call(c.getattr(tr, "add_cell"), name, w.cells[L, conn], states[name])
    mons = {}
    add = c.getattr(tr, "add_monitor")
    mons["a", "post"] = c.call(add, "a", "post", "neuron.spike", w.ctor("a.post"), False, tc=1.0)
    mons["a", "pre"] = c.call(add, "a", "pre", "connection.synspike", w.ctor("a.pre"), False, tc=1.0)
    if "b" in own:
        mons["b", "post"] = c.call(add, "b", "post", "postspike", w.ctor("b.post"), False, tc=1.0)
        mons["b", "pre"] = c.call(add, "b", "pre", "prespike", w.ctor("b.pre"), False, tc=1.0)
    if shape == "two_shared_plus_private":
        mons["a", "own"] = c.call(add, "a", "own", "neuron.spike", w.ctor("a.own"), True)
    triples = list(c.interp.iterate(tr))
    c.ensure("one_triple_per_registered_cell_in_registration_order", [t[0] for t in triples] == [w.cells[own[n]] for n in own])
    for (name, (L, conn)), t in zip(own.items(), triples):
        exp = {k[1]: m for k, m in mons.items() if k[0] == name}
        c.ensure(f"{name}:its_own_auxiliary_state", t[1] is states[name])
        c.ensure(f"{name}:exactly_its_own_monitors_by_name", isinstance(t[2], dict) and sorted(t[2]) == sorted(exp) and all(t[2][k] is exp[k] for k in exp))
        unit = c.call(c.getattr(tr, "get_unit"), name)
        um = unit.fields["monitors"]
        c.ensure(f"{name}:get_unit_agrees", unit.fields["cell"] is w.cells[L, conn] and unit.fields["state"] is states[name] and sorted(um.d) == sorted(exp) and all(um.d[k] is exp[k] for k in exp))
        got = c.call(c.getattr(tr, "get_cell"), name)
        c.ensure(f"{name}:get_cell_agrees", got[0] is w.cells[L, conn] and got[1] is states[name])
    c.canary("canary_monitors_of_first_cell_everywhere", z3.BoolVal(len(triples) > 1 and all(t[2].get("pre") is mons["a", "pre"] for t in triples)))


MON_TARGETS = [
    (MO, "Monitor.__init__"), (MO, "Monitor.register"), (MO, "InputMonitor.__init__"), (MO, "InputMonitor._monitor_call"), (MO, "InputMonitor.partialconstructor"),
    (MO, "OutputMonitor.__init__"), (MO, "OutputMonitor._monitor_call"), (MO, "OutputMonitor.partialconstructor"), (MO, "StateMonitor.__init__"), (MO, "StateMonitor._monitor_call"),
    (MO, "StateMonitor.partialconstructor"), (MO, "DifferenceMonitor.__init__"), (MO, "DifferenceMonitor._monitor_pre_call"), (MO, "DifferenceMonitor._monitor_post_call"),
    (MO, "DifferenceMonitor.partialconstructor"), (MO, "DifferenceMonitor.clear"), (MO, "MultiStateMonitor.__init__"), (MO, "MultiStateMonitor._monitor_call"), (MO, "MultiStateMonitor.partialconstructor"),
    (INF, "Hook.register"), (INF, "Hook.deregister"), (INF, "ContextualHook.__init__"), (UT, "rgetattr"),
]


@contract(P, "Monitor.kinds", MON_TARGETS, min_obligations=10)
def monitor_kinds(c):
    """every shipped monitor class, built by its partial constructor, hands its reducer exactly one observation per
    call of the observed module - the documented quantity - iff it is registered and armed for the module's mode"""
    it = c.interp
    kind = c.choice("monitor_class", ["InputMonitor", "OutputMonitor", "StateMonitor", "StateMonitor[prehook]", "DifferenceMonitor", "MultiStateMonitor"])
    Module = cls(c, INF, "Module")
    root = it.instantiate(Module, [], {})
    sub = it.instantiate(Module, [], {})
    root.fields["child"] = sub
    training = c.bool("module_training")
    tr_up, ev_up = c.bool("train_update"), c.bool("eval_update")
    s_before, s_after, s2 = c.pw("state_before"), c.pw("state_after"), c.pw("other_state")
    x, y = c.pw("x"), c.pw("y")
    seen = []
    red = Obj(None, "reducer")
    red.fields["__call__"] = Model(lambda itp, *xs, **kw: seen.append(xs), "reducer.__call__")
    red.fields["clear"] = Model(lambda itp, **kw: None, "reducer.clear")

    # the observed module: forward changes its state
    def fwd(itp, *a, **k):
        sub.fields["state"] = s_after
        return y

    sub.fields["forward"] = Model(fwd, "forward")
    sub.fields["state"] = s_before
    sub.fields["other"] = s2
    sub.fields["training"] = training
    root.fields["training"] = training
    base = kind.split("[")[0]
    kw = dict(reducer=red, train_update=tr_up, eval_update=ev_up)
    if kind == "StateMonitor[prehook]":
        kw["as_prehook"] = True
    if base == "MultiStateMonitor":
        kw["subattrs"] = ("state", "other")
    ctor = c.call(c.getattr(cls(c, MO, base), "partialconstructor"), **kw)
    attr = {"InputMonitor": "child", "OutputMonitor": "child", "StateMonitor": "child.state", "DifferenceMonitor": "child.state", "MultiStateMonitor": "child"}[base]
    # State-like monitors are attached to the root and read a dotted path below it (what pooled monitors do)
    m = c.call(ctor, attr, root)
    c.ensure("registered_on_construction", c.getattr(m, "registered") is True)
    target = sub if base in ("InputMonitor", "OutputMonitor") else root
    c.ensure("hooked_on_the_resolved_module", hooked(target, m))
    if target is root:
        root.fields["forward"] = Model(lambda itp, *a, **k: c.call(sub, *a), "root.forward")
    c.call(target, x)
    armed = z3.Or(z3.And(tr_up.z, training.z), z3.And(ev_up.z, z3.Not(training.z)))
    exp = {
        "InputMonitor": lambda: len(seen[0]) == 1 and seen[0][0].f == x.f,
        "OutputMonitor": lambda: len(seen[0]) == 1 and seen[0][0].f == y.f,
        "StateMonitor": lambda: len(seen[0]) == 1 and seen[0][0].f == s_after.f,
        "StateMonitor[prehook]": lambda: len(seen[0]) == 1 and seen[0][0].f == s_before.f,
        "DifferenceMonitor": lambda: len(seen[0]) == 1 and seen[0][0].f == s_after.f - s_before.f,
        "MultiStateMonitor": lambda: len(seen[0]) == 2 and z3.And(seen[0][0].f == s_after.f, seen[0][1].f == s2.f),
    }[kind]
    c.ensure("one_observation_of_the_documented_quantity_iff_armed", z3.If(armed, exp() if len(seen) == 1 else z3.BoolVal(False), z3.BoolVal(len(seen) == 0)))
    n = len(seen)
    c.call(c.getattr(m, "deregister"))
    c.call(target, x)
    c.ensure("silent_after_deregister", len(seen) == n and not hooked(target, m))
    c.call(c.getattr(m, "deregister"))  # trainer.eval() twice
    c.call(c.getattr(m, "register"))
    c.call(c.getattr(m, "register"))  # trainer.train() twice: no error, one hook
    c.ensure("reregistered_on_the_same_module_once", hooked(target, m) and len(target.fields.get("_hooks_pre", [])) + len(target.fields.get("_hooks_post", [])) == (2 if base == "DifferenceMonitor" else 1))
    sub.fields["state"] = s_before
    c.call(target, x)
    c.ensure("records_again_after_reregister_iff_armed", z3.If(armed, z3.BoolVal(len(seen) == n + 1), z3.BoolVal(len(seen) == n)))
    c.canary("canary_always_records", z3.And(z3.Not(armed), z3.BoolVal(len(seen) > 0)))


# every monitor is a Hook: dropping a trainer relies on the finalizer of each (possibly re-registered) hook being bound to the
# handles it currently holds, and observation "exactly when enabled" on the StateHook firing predicate - the C16 lifecycle
# contracts are therefore obligations of this property too
from pyvc.harness import REGISTRY as _REG  # noqa: E402
from . import c16_hooks as _c16  # noqa: E402,F401

for _cd in list(_REG.get("C16", [])):
    if _cd.name in ("Hook.lifecycle", "Hook.flags_reconfigured", "StateHook.forward") and not any(x.name == _cd.name for x in _REG.get(P, [])):
        contract(P, _cd.name, list(_cd.targets), min_obligations=_cd.min_obligations)(_cd.fn)

# ... and the pooling key of Observable.add_monitor (two cells are pooled only when name, tags and the LAYER-relative target
# agree), a small contract of its own in C18, is an obligation here as well
from . import c18_dastdp as _c18  # noqa: E402,F401

for _cd in list(_REG.get("C18", [])):
    if _cd.name == "Observable.add_monitor[pooling key]" and not any(x.name == _cd.name for x in _REG.get(P, [])):
        contract(P, _cd.name, list(_cd.targets), min_obligations=_cd.min_obligations)(_cd.fn)

MUTANTS = [
    dict(file=PO, func="MonitorPool.del_observed", old="        if name in self.observed_:\n            del self.observed_[name]", new="            if name in self.observed_:\n                del self.observed_[name]", contracts=["CellTrainer.lifecycle"], name="seed C15f: a cell without monitors is never forgotten by the pool"),
    dict(file=PO, func="MonitorPool.add_monitor", old="            if unique:\n                del self.monitors_[observed][name]", new="            if unique:\n                monitor.deregister()\n                del self.monitors_[observed][name]", contracts=["CellTrainer.lifecycle"], name="seed C15: unique re-add deregisters the replaced monitor although another cell pools it"),
    dict(file=PO, func="MonitorPool.del_monitor", old="        if not any(m is removed for m in self.monitors):\n            removed.deregister()", new="        removed.deregister()", contracts=["CellTrainer.lifecycle"], name="D14 regression (del_monitor)"),
    dict(file=PO, func="MonitorPool.del_observed", old="                if not any(m is monitor for m in self.monitors):\n                    monitor.deregister()", new="                monitor.deregister()", contracts=["CellTrainer.lifecycle"], name="D14 regression (del_observed)"),
    dict(file=PO, func="MonitorPool.del_observed", old="                if not any(m is monitor for m in self.monitors):\n                    monitor.deregister()", new="                pass", contracts=["CellTrainer.lifecycle"], name="deleted cell's monitors stay hooked"),
    dict(file=LB, func="CellTrainer.monitors", old="return self.monitor_pool_.monitors", new="return self.monitor_pool_.monitors()", contracts=["CellTrainer.lifecycle"], name="D15 regression"),
    dict(file=PO, func="Observable.add_monitor", old="if not obs.__basis() or id(obs.__basis()) != id(self.__basis()):", new="if not (obs.__basis() or id(obs.__basis()) != id(self.__basis())):", contracts=["CellTrainer.lifecycle"], name="D26 regression: cross-layer aliasing"),
    dict(file=LB, func="CellTrainer.update", old="map(lambda c: c[0].updater, self.cells)", new="map(lambda c: c.updater, self.cells)", contracts=["CellTrainer.lifecycle"], name="D25 regression"),
    dict(file=LB, func="CellTrainer.train", old="        if mode:\n            for monitor in self.monitor_pool_.monitors:\n                monitor.register()", new="        if not mode:\n            for monitor in self.monitor_pool_.monitors:\n                monitor.register()", contracts=["CellTrainer.lifecycle"]),
    dict(file=LB, func="CellTrainer.train", old="        Module.train(self, mode)\n", new="", contracts=["CellTrainer.lifecycle"], name="trainer mode flag not propagated to the pool"),
    dict(file=PO, func="MonitorPool.add_monitor", old="        if not self.training:\n            monitor.deregister()", new="        pass", contracts=["CellTrainer.lifecycle"], name="monitor added in eval mode stays hooked"),
    dict(file=PO, func="Observable.add_monitor", old="            if hasattr(monitors[name], \"_tags\") and monitors[name]._tags == tags:", new="            if hasattr(monitors[name], \"_tags\"):", contracts=["CellTrainer.lifecycle"], name="tags ignored when pooling"),
    dict(file=NW, func="Cell.local_remap", old='"prespike": ["connection", "synspike"],', new='"prespike": ["connection", "syncurrent"],', contracts=["CellTrainer.lifecycle"]),
    dict(file=NW, func="Layer._realign_attribute", old='return f"neurons_.{neuron}{\'.\' if attr else \'\'}{attr}"', new='return f"neurons_.{neuron}"', contracts=["CellTrainer.lifecycle"]),
    dict(file=MO, func="Monitor.register", old="        elif not self.registered:", new="        elif self.registered:", contracts=["CellTrainer.lifecycle"]),
    dict(file=PO, func="MonitorPool.monitors", old="return unique(chain.from_iterable(m.values() for m in self.monitors_.values()))", new="return chain.from_iterable(m.values() for m in self.monitors_.values())", contracts=["CellTrainer.lifecycle"], name="pooled monitor listed (and cleared) once per cell"),
    dict(file=LB, func="CellTrainer.train", old="            for monitor in self.monitor_pool_.monitors:\n                monitor.deregister()", new="            for monitor in list(self.monitor_pool_.monitors):\n                monitor.deregister()", contracts=["CellTrainer.lifecycle"], expect="survives", name="control: materialising the iterator first is harmless"),
]
MUTANTS += [
    dict(file=LB, func="IndependentCellTrainer.__iter__", old="                dict(self.monitor_pool_.named_monitors_of(name)),", new="                dict(self.monitor_pool_.named_monitors_of(next(iter(self.cells_)))),", contracts=["IndependentCellTrainer.iteration"], name="every cell is trained from the first cell's monitors"),
    dict(file=MO, func="StateMonitor.__init__", old="posthook=\"_monitor_call\" if not as_prehook else None,", new="posthook=\"_monitor_call\",", contracts=["Monitor.kinds"]),
    dict(file=MO, func="DifferenceMonitor._monitor_post_call", old="self.reducer_(*self.map_(res, self.__data))", new="self.reducer_(*self.map_(self.__data, res))", contracts=["Monitor.kinds"]),
    dict(file=MO, func="MultiStateMonitor.__init__", old='self.__observed_attrs = tuple(f"{attr}.{satr}" for satr in subattrs)', new='self.__observed_attrs = tuple(f"{attr}.{satr}" for satr in subattrs[:1])', contracts=["Monitor.kinds"]),
    dict(file=MO, func="Monitor.register", old="                self._observed = weakref.ref(module)", new="                pass", contracts=["Monitor.kinds"]),
]
ASSUMPTIONS = [
    "C15: pool shapes are a finite family (<= 2 cells from one or two identically named layers, sharing a neuron or not, <= 3 monitor names per cell, shared / tag-distinct / unique / alias-attribute requests); per-operation clauses are proved for every member with symbolic layer modes and both trainer modes, not for pools of arbitrary size",
    "C15: the step from per-operation preservation of Inv to arbitrary operation sequences is the representation-invariant induction (generic Lean lemma invariant_fold, lean/Induction.lean); longer real sequences are run by the bounded stand-in",
    "C15: garbage collection is not modelled: WeakValueDictionary entries are treated as live while referenced from a pool (drop-last-reference-and-collect sequences: bounded stand-in only)",
    "C15: generator functions and generator expressions are evaluated eagerly (finite, no interleaved side effects)",
    "C15: components (connections, neuron, reducers, updaters) are stubs: the value handed to a reducer is compared with the uninterpreted state of the observed component at the current step",
]
