"""C06 - a connection delay is a pure per-synapse time shift.

The argument is a chain of contracts, each discharged on the real code:

  (1) connection level (this file, via contracts/c05_connections.make): with per-synapse delays d the REAL forward of
      LinearDense / LinearDirect / LinearLateral returns the documented linear map of the delayed reads
      current_at(selector), the selector being the per-synapse delay for every sample; the learning views
      syncurrent / synspike show the same delayed reads; a maximum delay of zero and no delay take the undelayed path.
  (2) delayed read (this file): the REAL _synparam_at, with RecordTensor.select consumed BY ITS C02 CONTRACT
      (contracts/select_contract.py; its precondition is an obligation here), returns for a delay d = dt*s within the
      supported maximum the sample pushed round(s) steps before the newest one when s is within tolerance of the grid
      - in particular the present value for d = 0 - the synapse's interpolation of the two bracketing samples between
      grid points, and the out-of-bounds value (or the value at the limit) beyond the supported delay.
  (3) history (C04, proved there): one synapse step stores the new value as the newest sample and shifts every older
      sample one step back; constructor / clear leave every slot at rest (zero current, no spike).
  (4) induction lemma (this file, pure): from (3), the sample k steps back at step t is the value of step t - k for
      k <= t and the resting value otherwise.
"""
from __future__ import annotations

import z3

from pyvc import tensor as tz
from pyvc.harness import contract
from pyvc.models import Model
from pyvc.sym import SV, ceil_real, floor_real, num, round_half_even, smod
from pyvc.tensor import T

from . import c05_connections as c05
from . import select_contract
from .fixtures import INF, Rec

P = "C06"
SM = "inferno/neural/synapses/mixins.py"
R = z3.RealSort()
I_UF = z3.Function("synapse_interp", R, R, R, R, R)

for _k in ("LinearDense", "LinearDirect", "LinearLateral"):
    c05.make(P, _k)
c05.make_conv(P)
c05.make_conv_layout(P)  # the per-tap delay selector must use the same row order as the unfolded input


@contract(P, "_synparam_at[select by contract]", [(SM, "_synparam_at")], min_obligations=6)
def delayed_read(c):
    N, ptr = c.int("N"), c.int("ptr")
    dt, tau = c.real("dt"), c.real("tau")
    c.require(N >= 2, 0 <= ptr, ptr < N, dt > 0, tau >= 0, tau <= z3.ToReal(N.z))
    r = Rec(c, N, ptr, "float", dt=dt)
    # class invariant of the synapse records (C04: sized max(ceil(delay/dt) + 1, 1)): the supported delay fits
    maxd = c.real("max_delay_in_steps")
    c.require(maxd >= 0, maxd <= z3.ToReal(N.z - 1), maxd > z3.ToReal(N.z - 2))
    r.owner.fields["_x_duration"] = dt * maxd
    L, j = c.int("L"), c.int("j")
    c.require(L >= 1, 0 <= j, j < L)
    sf = c.func("delay_in_steps_at", z3.IntSort(), R)
    s = sf(j.z)
    selector = T(lambda t: dt.z * sf(t), "float", L, "last", r.S)
    ob_mode = c.choice("overbound", ["value", "none"])
    ob = c.real("ob") if ob_mode == "value" else None
    log = []
    select_contract.install(c, log)

    def interp_fn(itp, prev, nxt, sample_at, step, **kw):
        return T(I_UF(prev.f, nxt.f, sample_at.f / num(step) if False else _unit(sample_at.f, num(step)), num(step)), "float", None, None, prev.eshape)

    out = c.outcome(c.function(SM, "_synparam_at"), r.rec, selector, Model(interp_fn, "synapse interpolation"), {}, dt * tau, ob, None)
    c.expect_return(out)
    res = out.value
    val = res.at(j.z)
    c.ensure("one_read_per_synapse", num(res.tlen) == L.z)
    b = z3.If(s < 0, z3.RealVal(0), z3.If(s > maxd.z, maxd.z, s))  # clamped to the supported range
    rr, cl, fl = round_half_even(b), ceil_real(b), floor_real(b)
    d = z3.ToReal(rr) - b
    on = z3.If(d >= 0, d, -d) <= tau.z
    M = lambda k: r.M0(1 + k)  # noqa: E731   M(k): the sample pushed k steps before the newest one
    dist = s - b
    within = z3.If(dist >= 0, dist, -dist) <= tau.z
    base = z3.If(on, M(rr), I_UF(M(cl), M(fl), _unit(dt.z * (z3.ToReal(cl) - b), dt.z), dt.z))
    exp = base if ob is None else z3.If(within, base, ob.z)
    c.ensure("delayed_read_is_the_time_shifted_sample", val == exp)
    c.ensure("zero_delay_reads_the_present_value", z3.Implies(s == 0, val == r.M0(1)))
    c.ensure("grid_delay_reads_the_sample_k_steps_back", z3.Implies(z3.And(s == z3.ToReal(rr), s >= 0, s <= maxd.z), val == M(rr)))
    c.ensure("nothing_written", z3.And(r.ptr == ptr, not r.owner.writes))
    c.ensure("select_called_once_with_default_offset", len(log) == 1 and z3.is_true(z3.simplify(log[0]["offset"] == 1)))
    c.canary("canary_reads_present_value_always", val == r.M0(1))


def _unit(term, dt):
    from pyvc.sym import unit_abstract

    return unit_abstract(term, dt)


@contract(P, "history.induction_step", [(SM, "CurrentMixin.current@setter"), (SM, "SpikeMixin.spike@setter")], min_obligations=2)
def induction(c):
    """pure lemma over the C01/C04 step contracts: H_t(k) = the sample k steps back after step t.
       (3a) H_0(k) = 0 (rest)          (3b) H_{t+1}(0) = x_{t+1}        (3c) H_{t+1}(k) = H_t(k - 1) for k >= 1
       claim  P(t): forall k >= 0. H_t(k) = (x_{t-k} if k <= t - 1 ... ) with steps numbered from 1; proved: P(0) and P(t) => P(t+1)"""
    H = z3.Function("H", z3.IntSort(), z3.IntSort(), R)
    x = z3.Function("x", z3.IntSort(), R)
    t, k = c.int("t"), c.int("k")
    c.require(t >= 0, k >= 0)
    spec = lambda tt, kk: z3.If(kk < tt, x(tt - kk), z3.RealVal(0))  # noqa: E731   steps 1..tt have happened
    c.ensure("base_case_rest_state", z3.Implies(H(0, k.z) == 0, H(0, k.z) == spec(z3.IntVal(0), k.z)))
    hyp = z3.And(H(t.z + 1, 0) == x(t.z + 1), z3.Implies(k.z >= 1, H(t.z + 1, k.z) == H(t.z, k.z - 1)), z3.Implies(k.z >= 1, H(t.z, k.z - 1) == spec(t.z, k.z - 1)))
    c.ensure("induction_step_time_shift", z3.Implies(hyp, H(t.z + 1, k.z) == spec(t.z + 1, k.z)))
    c.canary("canary_no_shift", z3.Implies(hyp, H(t.z + 1, k.z) == spec(t.z, k.z)))


# link (3) of the chain: the synapse step / clear contracts proved for C04 are obligations of this property too
from pyvc.harness import REGISTRY as _REG  # noqa: E402
from . import c04_synapses as _c04  # noqa: E402,F401

for _cd in list(_REG.get("C04", [])):
    # ... and the delayed READS of every synapse class: `*_at[wiring]` (the mixins hand the right record, selector,
    # interpolation, tolerance and overbound to _synparam_at) and the double-exponential synapse's own current_at
    if (_cd.name.endswith(".forward") or _cd.name.endswith("_at[wiring]") or _cd.name == "DoubleExponentialCurrent.current_at") and not any(x.name == _cd.name for x in _REG.get(P, [])):
        contract(P, _cd.name, list(_cd.targets), min_obligations=_cd.min_obligations)(_cd.fn)


# link (2'): _synparam_at consumes RecordTensor.select BY CONTRACT; the contract itself - the tensor-time select with any
# number of query times per element, which is what a connection's per-synapse delays ask for - is proved in C02 and is an
# obligation of this property too, so that a change inside select is reported here as well
from . import c02_select as _c02  # noqa: E402,F401

for _cd in list(_REG.get("C02", [])):
    if _cd.name in ("RecordTensor.select[tensor,many times per element]", "RecordTensor.select/insert[default offset]") and not any(x.name == _cd.name for x in _REG.get(P, [])):
        contract(P, _cd.name, list(_cd.targets), min_obligations=_cd.min_obligations)(_cd.fn)


@contract(P, "synapse.delay@setter[histories follow the NEW maximum delay]", [("inferno/neural/mixins.py", "DelayedMixin.delay@setter"), ("inferno/neural/base.py", "InfernoSynapse.delay@setter")], min_obligations=3)
def delay_setter(c):
    """a connection's supported maximum delay may be changed after construction through synapse.delay: afterwards every
    history of the synapse spans exactly the NEW delay (the size a synapse constructed with that delay has), the reported
    delay is the new one, and the step time is untouched"""
    from . import c14_config as c14
    from pyvc import repo as _repo

    cls = c.choice("synapse", ["DeltaCurrent", "DeltaPlusCurrent", "SingleExponentialCurrent", "DoubleExponentialCurrent"])
    file, kw = c14.SYN[cls]
    dt, d0, d1 = c.real("dt"), c.real("delay_at_construction"), c.real("new_delay")
    c.require(dt > 0, d0 >= 0, d1 >= 0)
    cv = c.interp.classv(_repo.load_module(file).classes[cls])
    A = c.call(cv, (3,), dt, delay=d0, batch_size=2, inplace=False, **kw)
    c.setattr(A, "delay", d1)
    B = c.call(cv, (3,), dt, delay=d1, batch_size=2, inplace=False, **kw)
    c.ensure("reports_the_new_delay", c14.same(c.getattr(A, "delay"), d1))
    c.ensure("step_time_untouched", c14.same(c.getattr(A, "dt"), dt))
    fa, fb = c14.cfg_fields(A), c14.cfg_fields(B)
    dur = {k: v for k, v in fa.items() if k.endswith("_duration")}
    c.ensure("has_delayed_histories", len(dur) >= 1 and sorted(fa) == sorted(fb))
    c.ensure("every_history_spans_the_new_delay", z3.And(*[num(v) == d1.z for v in dur.values()]) if dur else False)
    conj = [c14.same(fa[k], fb[k]) for k in fa if k in fb]
    c.ensure("histories_sized_like_a_synapse_constructed_with_the_new_delay", z3.And(*[x if not isinstance(x, bool) else z3.BoolVal(x) for x in conj]) if conj else False)
    c.canary("canary_keeps_the_old_delay", z3.And(d0.z != d1.z, *[num(v) == d0.z for v in dur.values()]) if dur else z3.BoolVal(False))

MUTANTS = [
    dict(file="inferno/neural/mixins.py", func="DelayedMixin.delay@setter", old="                getattr(self, cstr).duration = value", new="                getattr(self, cstr).duration = self.__delay", contracts=["synapse.delay@setter[histories follow the NEW maximum delay]"], name="seed C06g: histories resized to the OLD maximum delay"),
    dict(file="inferno/neural/synapses/expcurrent.py", func="DoubleExponentialCurrent.current_at", old="bounded_selector = selector.clamp(min=0, max=self.spike_.duration)", new="bounded_selector = selector.clamp(min=0, max=self.spike_.dt)", contracts=["DoubleExponentialCurrent.current_at"], name="seed C06f: delays of the double-exponential synapse clamped to one step"),
    dict(file=c05.CONV, func="Conv2D.selector", old='"f c h w -> 1 (c h w) 1 f"', new='"f c h w -> 1 (c w h) 1 f"', contracts=["Conv2D.layouts"], name="seed C06d: delay selector flattens the kernel as (c w h)"),
    dict(file=INF, func="RecordTensor.reset", old="        if fill is not None:", new="        if fill:", contracts=["DeltaCurrent.forward", "SingleExponentialCurrent.forward"], name="seed C06b: clearing with fill 0 leaves the delay history in place"),
    dict(file=SM, func="_synparam_at", old="                tolerance=tolerance,\n", new="", contracts=["_synparam_at[select by contract]"], name="seed C04b: tolerance keyword dropped (select falls back to its own default)"),
    dict(file=SM, func="_synparam_at", old="bounded_selector = selector.clamp(min=0, max=value.duration)", new="bounded_selector = selector.clamp(min=0)", contracts=["_synparam_at[select by contract]"], name="delay not clamped to the supported maximum (select precondition breaks)"),
    dict(file=SM, func="_synparam_at", old="                tolerance=tolerance,\n", new="                tolerance=0.0,\n", contracts=["_synparam_at[select by contract]"], name="tolerance not forwarded to select"),
    dict(file=SM, func="_synparam_at", old="(selector - bounded_selector).abs() <= tolerance, res, overbound", new="(selector - bounded_selector).abs() <= tolerance, overbound, res", contracts=["_synparam_at[select by contract]"]),
    dict(file=c05.NB, func="Connection.syncurrent", old="            return self.synapse.current_at(self.selector)", new="            return self.synapse.current", contracts=["LinearDense.forward"]),
    dict(file=c05.LIN, func="LinearDirect.selector", old="            delays = self.delay\n", new="            delays = self.delay * 2\n", contracts=["LinearDirect.forward"]),
    dict(file=c05.LIN, func="LinearDense.forward", old="                res = ein.einsum(res, self.weight, \"b i o, o i -> b o\") + self.bias", new="                res = ein.einsum(res, self.weight, \"b i o, o i -> b o\")", contracts=["LinearDense.forward"]),
]
ASSUMPTIONS = c05.ASSUMPTIONS[:2] + [
    "C06: RecordTensor.select is consumed by its C02 contract (proved there for tensor query times with any number of times per element); its precondition is discharged here as an obligation",
    "C06: real arithmetic - the float32 rounding of delay/dt for non-representable step times (1.3, 0.1) is NOT covered by the proof; bounded stand-in native/c06.py runs those step times on the real classes",
    "C06: the induction over steps is proved as a pure lemma over the step contracts of C04 (newest sample stored, history shifted, rest state after constructor/clear)",
    "C06: Conv2D delayed forward: bounded stand-in only",
]
