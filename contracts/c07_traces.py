"""C07 - traces and fold reducers: one-step recurrences, reducer wiring, view/dump/clear (contracts on the real code).

The closed forms over whole histories (sum over past events of A*exp(-(t-t_f)/tau), ...) follow from the one-step
recurrences proved here by induction (lemmas geom_closed / nearest_closed / event_elapsed, stated in lemmas/).
"""
from __future__ import annotations

import z3

from pyvc import repo
from pyvc import tensor as tz
from pyvc.harness import contract
from pyvc.models import Model
from pyvc.sym import SV, num, smod
from pyvc.tensor import T, f_exp

from .fixtures import INF

P = "C07"
TR = "inferno/core/trace.py"
RB = "inferno/observe/reducers/base.py"
RT = "inferno/observe/reducers/trace.py"
RG = "inferno/observe/reducers/general.py"
RS = "inferno/observe/reducers/stats.py"
MATH = "inferno/core/math.py"


def b2r(b):
    return z3.If(b, z3.RealVal(1), z3.RealVal(0))


# ----------------------------------------------------------------------- one-step kernels
def _kernel(name, scaled=False, nearest=False, value=False):
    @contract(P, f"core.{name}", (TR, name), tags=("kernel",))
    def k(c, name=name):
        has_state = c.choice("state", ["tensor", "none"])
        obs, x = c.pw("obs"), c.pw("x")
        decay, A = c.real("decay"), c.real("A")
        st = x if has_state == "tensor" else None
        fn = c.function(TR, name)
        if value:
            scale = c.real("scale")
            r = c.call(fn, obs, st, decay=decay, scale=scale)
            exp = scale.z * obs.f if st is None else decay.z * x.f + scale.z * obs.f
            c.ensure("recurrence", r.f == exp)
            c.canary("canary", r.f == obs.f)
            return
        if scaled:
            scale = c.real("scale")
            mf = c.func("match", z3.RealSort(), z3.BoolSort())
            crit = Model(lambda interp, o: o._map(lambda z: mf(z), "bool"), "criterion")
            r = c.call(fn, obs, st, decay=decay, amplitude=A, scale=scale, matchfn=crit)
            m = mf(obs.f)
            inc = scale.z * obs.f + A.z
        else:
            tol_mode = c.choice("tolerance", ["none", "value"])
            target = c.real("target")
            if tol_mode == "none":
                r = c.call(fn, obs, st, decay=decay, amplitude=A, target=target, tolerance=None)
                m = obs.f == target.z
            else:
                tol = c.real("tol")
                c.require(tol > 0)
                r = c.call(fn, obs, st, decay=decay, amplitude=A, target=target, tolerance=tol)
                d = obs.f - target.z
                m = z3.If(d >= 0, d, -d) <= tol.z
            inc = A.z
        if st is None:
            exp = z3.If(m, inc, 0)
        elif nearest:
            exp = z3.If(m, inc, decay.z * x.f)
        else:
            exp = decay.z * x.f + z3.If(m, inc, 0)
        c.ensure("recurrence", r.f == exp)
        c.canary("canary_no_decay", r.f == (x.f + z3.If(m, inc, 0)))

    return k


_kernel("trace_nearest", nearest=True)
_kernel("trace_cumulative")
_kernel("trace_nearest_scaled", scaled=True, nearest=True)
_kernel("trace_cumulative_scaled", scaled=True)
_kernel("trace_cumulative_value", value=True)


def _expkernel(name, base, rate):
    @contract(P, f"core.{name}", [(TR, name), (TR, base)], tags=("kernel",))
    def k(c, name=name):
        obs, x = c.pw("obs"), c.pw("x")
        dt, tc, A, target = c.real("dt"), c.real("tc"), c.real("A"), c.real("target")
        c.require(dt > 0, tc > 0)
        kw = dict(step_time=dt, amplitude=A, target=target, tolerance=None)
        kw["rate_constant" if rate else "time_constant"] = tc
        r = c.call(c.function(TR, name), obs, x, **kw)
        dec = f_exp(-(tc.z * dt.z)) if rate else f_exp(-dt.z / tc.z)
        m = obs.f == target.z
        exp = z3.If(m, A.z, dec * x.f) if "nearest" in name else dec * x.f + z3.If(m, A.z, 0)
        c.ensure("recurrence_with_exp_decay", r.f == exp)
        c.canary("canary", r.f == x.f)

    return k


_expkernel("exp_trace_nearest", "trace_nearest", False)
_expkernel("exprate_trace_nearest", "trace_nearest", True)
_expkernel("exp_trace_cumulative", "trace_cumulative", False)
_expkernel("exprate_trace_cumulative", "trace_cumulative", True)


@contract(P, "core.exponential_smoothing", (MATH, "exponential_smoothing"), tags=("kernel",))
def ema_kernel(c):
    obs, lvl = c.pw("obs"), c.pw("lvl")
    a = c.real("alpha")
    has = c.choice("level", ["tensor", "none"])
    r = c.call(c.function(MATH, "exponential_smoothing"), obs, lvl if has == "tensor" else None, alpha=a)
    c.ensure("ema", r.f == (obs.f if has == "none" else a.z * obs.f + (1 - a.z) * lvl.f))
    c.canary("canary", r.f == lvl.f)


# ----------------------------------------------------------------------- reducer classes
def new_reducer(c, file, cls, *args, **kw):
    it = c.interp
    cv = it.classv(repo.load_module(file).classes[cls])
    return it.instantiate(cv, list(args), dict(kw))


def install_storage(c, red, N, ptr, dtype="float", initial=False):
    """Give the reducer's record N slots of symbolic history D, pointer ptr (state after >= 1 observations)."""
    S = tz.Shape((tz.Star("S"),))
    c.require(z3.Int("numel_S") > 0)
    data = c.seq("D", N, dtype, "first", S)
    red.fields["_data__data"] = data
    red.fields["_data__constraints"][0] = N
    red.fields["_extras"]["_data__pointer"] = ptr
    red.fields["_extras"]["_initial"] = initial
    red.writes.clear()
    return data, S


class RV:
    def __init__(self, c, red, N, ptr):
        self.c, self.red, self.N, self.ptr0 = c, red, N, ptr
        self.D0 = c.symbols["D"]

    @property
    def data(self):
        return self.red.fields["_data__data"]

    @property
    def ptr(self):
        return self.red.fields["_extras"]["_data__pointer"]

    def M0(self, k):
        return self.D0(smod(num(self.ptr0) - num(k), num(self.N)))

    def M1(self, k):
        return self.data.at(smod(num(self.ptr) - num(k), num(self.N)))


TRACE_CLASSES = [
    ("NearestTraceReducer", True, False),
    ("CumulativeTraceReducer", False, False),
    ("ScaledNearestTraceReducer", True, True),
    ("ScaledCumulativeTraceReducer", False, True),
]


def _mk_trace_reducer(cls, nearest, scaled):
    @contract(P, f"{cls}.forward", [(RT, f"{cls}.fold"), (RT, f"{cls}.__init__"), (RB, "FoldReducer.forward"), (RB, "FoldReducer.push"), (RB, "FoldReducer.peek")], tags=("reducer",))
    def fwd(c, cls=cls):
        dt, tc, A = c.real("dt"), c.real("tc"), c.real("A")
        dur = c.real("dur")
        N, ptr, k = c.int("N"), c.int("ptr"), c.int("k")
        c.require(dt > 0, tc > 0, A != 0, dur >= 0, N >= 1, 0 <= ptr, ptr < N, 0 <= k, k < N)
        inplace = c.bool("inplace")
        if scaled:
            scale = c.real("scale")
            mf = c.func("match", z3.RealSort(), z3.BoolSort())
            crit = Model(lambda interp, o: o._map(lambda z: mf(z), "bool"), "criterion")
            red = new_reducer(c, RT, cls, dt, tc, A, scale, crit, duration=dur, inplace=inplace)
        else:
            target = c.real("target")
            # matching is exact, or within a configured tolerance of the target
            tol = c.real("tolerance") if c.choice("tolerance", ["none", "value"]) == "value" else None
            if tol is not None:
                c.require(tol > 0)
            red = new_reducer(c, RT, cls, dt, tc, A, target, tol, duration=dur, inplace=inplace)
        c.ensure("decay_is_exp", num(c.getattr(red, "decay")) == f_exp(-dt.z / tc.z))
        first = c.choice("observation", ["subsequent", "first_after_clear_keepshape"])
        install_storage(c, red, N, ptr, initial=(first != "subsequent"))
        rv = RV(c, red, N, ptr)
        obs = c.pw("obs", "float", eshape=tz.Shape((tz.Star("S"),)))
        out = c.outcome(c.getattr(red, "forward"), obs)
        c.expect_return(out)
        dec = f_exp(-dt.z / tc.z)
        if scaled:
            m, inc = mf(obs.f), scale.z * obs.f + A.z
        else:
            d_ = obs.f - target.z
            m, inc = (obs.f == target.z) if tol is None else (z3.If(d_ >= 0, d_, -d_) <= tol.z), A.z
        prev = rv.M0(1)
        if first != "subsequent":
            exp = z3.If(m, inc, 0)
        elif nearest:
            exp = z3.If(m, inc, dec * prev)
        else:
            exp = dec * prev + z3.If(m, inc, 0)
        newest = smod(num(k) - 1, num(N)) == 0
        c.ensure("newest_is_fold", z3.Implies(newest, rv.M1(k) == exp))
        c.ensure("history_shifted", z3.Implies(z3.Not(newest), rv.M1(k) == rv.M0(k - 1)))
        c.ensure("initial_flag_cleared", red.fields["_extras"]["_initial"] is False)
        c.canary("canary_nothing_pushed", rv.M1(k) == rv.M0(k))

    @contract(P, f"{cls}.dt@setter", [(RT, f"{cls}.dt@setter"), (RB, "RecordReducer.dt@setter")], tags=("reducer",))
    def dtset(c, cls=cls):
        dt, dt2, tc, A = c.real("dt"), c.real("dt2"), c.real("tc"), c.real("A")
        c.require(dt > 0, dt2 > 0, tc > 0, A != 0)
        if scaled:
            red = new_reducer(c, RT, cls, dt, tc, A, c.real("scale"), None)
        else:
            red = new_reducer(c, RT, cls, dt, tc, A, c.real("target"), None)
        c.setattr(red, "dt", dt2)
        c.ensure("decay_recomputed", num(c.getattr(red, "decay")) == f_exp(-dt2.z / tc.z))
        c.ensure("dt_reported", num(c.getattr(red, "dt")) == dt2.z)
        c.ensure("record_dt", num(red.fields["_data__dt"]) == dt2.z)
        c.canary("canary_stale_decay", z3.And(dt.z != dt2.z, num(c.getattr(red, "decay")) == f_exp(-dt.z / tc.z)))

    @contract(P, f"{cls}.interpolate", [(RT, f"{cls}.interpolate")], tags=("reducer",))
    def interp(c, cls=cls):
        dt, tc, A = c.real("dt"), c.real("tc"), c.real("A")
        c.require(dt > 0, tc > 0, A != 0)
        red = new_reducer(c, RT, cls, dt, tc, A, c.real("x1"), None)
        p, n, ts = c.pw("p"), c.pw("n"), c.pw("ts")
        r = c.call(c.getattr(red, "interpolate"), p, n, ts, dt)
        c.ensure("analytic_decay_with_own_tau", r.f == p.f * f_exp(-ts.f / tc.z))
        c.canary("canary", r.f == p.f)


for _t in TRACE_CLASSES:
    _mk_trace_reducer(*_t)


@contract(P, "EventReducer.forward", [(RG, "EventReducer.fold"), (RG, "EventReducer.interpolate"), (RB, "FoldReducer.forward")], tags=("reducer",))
def event(c):
    dt = c.real("dt")
    N, ptr, k = c.int("N"), c.int("ptr"), c.int("k")
    c.require(dt > 0, N >= 1, 0 <= ptr, ptr < N, 0 <= k, k < N)
    mf = c.func("match", z3.RealSort(), z3.BoolSort())
    crit = Model(lambda interp, o: o._map(lambda z: mf(z), "bool"), "criterion")
    red = new_reducer(c, RG, "EventReducer", dt, crit, "zero")
    first = c.choice("observation", ["subsequent", "first"])
    install_storage(c, red, N, ptr, initial=(first == "first"))
    rv = RV(c, red, N, ptr)
    obs = c.pw("obs", "float", eshape=tz.Shape((tz.Star("S"),)))
    out = c.outcome(c.getattr(red, "forward"), obs)
    c.expect_return(out)
    exp = z3.If(mf(obs.f), 0, 0 if first == "first" else rv.M0(1) + dt.z)
    newest = smod(num(k) - 1, num(N)) == 0
    c.ensure("time_since_event", z3.Implies(newest, rv.M1(k) == exp))
    c.ensure("history_shifted", z3.Implies(z3.Not(newest), rv.M1(k) == rv.M0(k - 1)))
    p, n, ts = c.pw("p"), c.pw("n"), c.pw("ts")
    r = c.call(c.getattr(red, "interpolate"), p, n, ts, dt)
    c.ensure("interpolate_elapsed", r.f == p.f + ts.f)
    c.canary("canary", rv.M1(k) == rv.M0(k))


@contract(P, "PassthroughReducer.forward", [(RG, "PassthroughReducer.fold"), (RG, "PassthroughReducer.interpolate"), (RB, "FoldReducer.forward")], tags=("reducer",))
def passthrough(c):
    dt = c.real("dt")
    N, ptr, k = c.int("N"), c.int("ptr"), c.int("k")
    c.require(dt > 0, N >= 1, 0 <= ptr, ptr < N, 0 <= k, k < N)
    red = new_reducer(c, RG, "PassthroughReducer", dt)
    first = c.choice("observation", ["subsequent", "first"])
    install_storage(c, red, N, ptr, initial=(first == "first"))
    rv = RV(c, red, N, ptr)
    obs = c.pw("obs", "float", eshape=tz.Shape((tz.Star("S"),)))
    out = c.outcome(c.getattr(red, "forward"), obs)
    c.expect_return(out)
    newest = smod(num(k) - 1, num(N)) == 0
    c.ensure("reproduces_observation", z3.Implies(newest, rv.M1(k) == obs.f))
    c.ensure("history_shifted", z3.Implies(z3.Not(newest), rv.M1(k) == rv.M0(k - 1)))
    p, n, ts = c.pw("p"), c.pw("n"), c.pw("ts")
    r = c.call(c.getattr(red, "interpolate"), p, n, ts, dt)
    c.ensure("interpolate_previous", r.f == p.f)
    c.canary("canary", rv.M1(k) == rv.M0(k))


@contract(P, "EMAReducer.forward", [(RS, "EMAReducer.fold"), (RS, "EMAReducer.interpolate"), (MATH, "exponential_smoothing"), (RB, "FoldReducer.forward")], tags=("reducer",))
def ema(c):
    dt, a = c.real("dt"), c.real("alpha")
    N, ptr, k = c.int("N"), c.int("ptr"), c.int("k")
    c.require(dt > 0, 0 <= a, a <= 1, N >= 1, 0 <= ptr, ptr < N, 0 <= k, k < N)
    red = new_reducer(c, RS, "EMAReducer", dt, a)
    first = c.choice("observation", ["subsequent", "first"])
    install_storage(c, red, N, ptr, initial=(first == "first"))
    rv = RV(c, red, N, ptr)
    obs = c.pw("obs", "float", eshape=tz.Shape((tz.Star("S"),)))
    out = c.outcome(c.getattr(red, "forward"), obs)
    c.expect_return(out)
    exp = obs.f if first == "first" else a.z * obs.f + (1 - a.z) * rv.M0(1)
    newest = smod(num(k) - 1, num(N)) == 0
    c.ensure("ema_formula", z3.Implies(newest, rv.M1(k) == exp))
    c.ensure("history_shifted", z3.Implies(z3.Not(newest), rv.M1(k) == rv.M0(k - 1)))
    c.canary("canary", rv.M1(k) == rv.M0(k))


@contract(P, "CAReducer.forward", [(RS, "CAReducer.fold"), (RS, "CAReducer.clear"), (RB, "FoldReducer.forward")], tags=("reducer",))
def ca(c):
    dt = c.real("dt")
    N, ptr, k, cnt = c.int("N"), c.int("ptr"), c.int("k"), c.int("count")
    c.require(dt > 0, N >= 1, 0 <= ptr, ptr < N, 0 <= k, k < N, cnt >= 1)
    red = new_reducer(c, RS, "CAReducer", dt)
    first = c.choice("observation", ["subsequent", "first"])
    install_storage(c, red, N, ptr, initial=(first == "first"))
    red.fields["_extras"]["_count"] = cnt if first != "first" else 0
    rv = RV(c, red, N, ptr)
    obs = c.pw("obs", "float", eshape=tz.Shape((tz.Star("S"),)))
    out = c.outcome(c.getattr(red, "forward"), obs)
    c.expect_return(out)
    c1 = red.fields["_extras"]["_count"]
    newest = smod(num(k) - 1, num(N)) == 0
    if first == "first":
        c.ensure("first_is_obs", z3.Implies(newest, rv.M1(k) == obs.f))
        c.ensure("count_is_one", num(c1) == 1)
    else:
        c.ensure("count_incremented", num(c1) == cnt.z + 1)
        s = rv.M0(1)
        c.ensure("running_mean_step", z3.Implies(newest, rv.M1(k) == s + (obs.f - s) / z3.ToReal(cnt.z + 1)))
        # induction step of "equals the arithmetic mean": if s = S/cnt then s' = (S+obs)/(cnt+1)
        S = c.real("S")
        c.ensure("mean_invariant_step", z3.Implies(z3.And(newest, s == S.z / z3.ToReal(cnt.z)), rv.M1(k) == (S.z + obs.f) / z3.ToReal(cnt.z + 1)))
    c.ensure("history_shifted", z3.Implies(z3.Not(newest), rv.M1(k) == rv.M0(k - 1)))
    c.canary("canary", rv.M1(k) == rv.M0(k))


@contract(P, "FoldReducer.view_dump_peek", [(RB, "FoldReducer.view"), (RB, "FoldReducer.dump"), (RB, "FoldReducer.peek")], tags=("reducer",))
def view_dump(c):
    dt = c.real("dt")
    N, ptr, j = c.int("N"), c.int("ptr"), c.int("j")
    c.require(dt > 0, N >= 1, 0 <= ptr, ptr < N, 0 <= j, j < N)
    red = new_reducer(c, RG, "PassthroughReducer", dt)
    initial = c.choice("initial", [False, True])
    install_storage(c, red, N, ptr, initial=initial)
    rv = RV(c, red, N, ptr)
    which = c.choice("op", ["view", "dump", "peek"])
    calls = []
    if which == "view":
        # modular: RecordTensor.select is consumed by contract (C02); here only the wiring of its arguments is checked
        def sel_summary(interp, fi, args, kwargs):
            calls.append((args, kwargs))
            return T(z3.Real("select_result"), "float", None, None, tz.Shape((tz.Star("S"),)))

        c.interp.summaries[(INF, "RecordTensor.select")] = sel_summary
        t, tol = c.real("t"), c.real("tol")
        out = c.outcome(c.getattr(red, "view"), t, tol)
        c.expect_return(out)
        if initial:
            c.ensure("none_before_first_observation", out.value is None and not calls)
            return
        ok = len(calls) == 1
        c.ensure("select_called_once", ok)
        if ok:
            args, kw = calls[0]
            from pyvc.interp import BoundMethod

            c.ensure("time_forwarded", z3.And(args[0] is red.fields["data_"], num(args[1]) == t.z))
            c.ensure("uses_own_interpolation", isinstance(args[2], BoundMethod) and args[2].self_obj is red and args[2].func.qualname.endswith(".interpolate"))
            c.ensure("tolerance_forwarded", num(kw.get("tolerance")) == tol.z)
            c.ensure("default_offset", "offset" not in kw and len(args) == 3)
            c.ensure("returns_selection", out.value.f == z3.Real("select_result"))
    elif which == "dump":
        out = c.outcome(c.getattr(red, "dump"))
        c.expect_return(out)
        if initial:
            c.ensure("none_before_first_observation", out.value is None)
            return
        v = out.value
        c.ensure("length", num(v.tlen) == N.z)
        c.ensure("newest_first", v.at(j) == rv.M0(1 + j.z))
        c.canary("canary_oldest_first", v.at(j) == rv.M0(N.z - j.z))
    else:
        out = c.outcome(c.getattr(red, "peek"))
        c.expect_return(out)
        if initial:
            c.ensure("none_before_first_observation", out.value is None)
        else:
            c.ensure("latest", out.value.f == rv.M0(1))


@contract(P, "FoldReducer.clear", [(RB, "FoldReducer.clear"), (RS, "CAReducer.clear")], tags=("reducer",))
def clear(c):
    dt = c.real("dt")
    N, ptr, k = c.int("N"), c.int("ptr"), c.int("k")
    c.require(dt > 0, N >= 1, 0 <= ptr, ptr < N, 0 <= k, k < N)
    cls = c.choice("class", ["PassthroughReducer", "CAReducer"])
    red = new_reducer(c, RG if cls == "PassthroughReducer" else RS, cls, dt)
    install_storage(c, red, N, ptr, initial=False)
    if cls == "CAReducer":
        red.fields["_extras"]["_count"] = c.int("count")
    keep = c.choice("keepshape", [True, False])
    out = c.outcome(c.getattr(red, "clear"), keep)
    c.expect_return(out)
    c.ensure("initial_again", red.fields["_extras"]["_initial"] is True)
    c.ensure("pointer_reset", num(red.fields["_extras"]["_data__pointer"]) == 0)
    d = red.fields["_data__data"]
    if keep:
        c.ensure("storage_refilled", z3.And(num(d.tlen) == N.z, d.at(k) == 0))
    else:
        c.ensure("storage_dropped", c.interp.truth(c.getattr(red.fields["data_"], "ignored")))
    if cls == "CAReducer":
        c.ensure("count_reset", num(red.fields["_extras"]["_count"]) == 0)
    # pre-first-observation behaviour: peek/view/dump answer None
    c.ensure("peek_none", c.call(c.getattr(red, "peek")) is None)



T3F = "inferno/learn/trainers/three_factor_stdp.py"


def _mk_conditional(cls, nearest):
    """two-input reducers: the trace of `obs` is updated where the separately observed condition holds"""
    @contract(P, f"{cls}.forward", [(RT, f"{cls}.fold"), (RT, f"{cls}.__init__"), (RB, "FoldReducer.forward"), (RB, "FoldReducer.push"), (RB, "FoldReducer.peek")], tags=("reducer",))
    def fwd(c, cls=cls):
        dt, tc, A, scale = c.real("dt"), c.real("tc"), c.real("A"), c.real("scale")
        dur = c.real("dur")
        N, ptr, k = c.int("N"), c.int("ptr"), c.int("k")
        c.require(dt > 0, tc > 0, dur >= 0, N >= 1, 0 <= ptr, ptr < N, 0 <= k, k < N)
        inplace = c.bool("inplace")
        red = new_reducer(c, RT, cls, dt, tc, A, scale, duration=dur, inplace=inplace)
        c.ensure("decay_is_exp", num(c.getattr(red, "decay")) == f_exp(-dt.z / tc.z))
        first = c.choice("observation", ["subsequent", "first_after_clear_keepshape"])
        install_storage(c, red, N, ptr, initial=(first != "subsequent"))
        rv = RV(c, red, N, ptr)
        S = tz.Shape((tz.Star("S"),))
        obs, cond = c.pw("obs", "float", eshape=S), c.pw("cond", "bool", eshape=S)
        out = c.outcome(c.getattr(red, "forward"), obs, cond)
        c.expect_return(out)
        dec = f_exp(-dt.z / tc.z)
        m, inc = cond.f, scale.z * obs.f + A.z
        prev = rv.M0(1)
        if first != "subsequent":
            exp = z3.If(m, inc, 0)
        elif nearest:
            exp = z3.If(m, inc, dec * prev)
        else:
            exp = dec * prev + z3.If(m, inc, 0)
        newest = smod(num(k) - 1, num(N)) == 0
        c.ensure("newest_is_fold_where_the_condition_holds", z3.Implies(newest, rv.M1(k) == exp))
        c.ensure("history_shifted", z3.Implies(z3.Not(newest), rv.M1(k) == rv.M0(k - 1)))
        c.canary("canary_condition_ignored", z3.And(newest, rv.M1(k) == z3.If(first != "subsequent", inc, (inc if nearest else dec * prev + inc)), z3.Not(m), inc != 0, dec * prev != inc))

    @contract(P, f"{cls}.dt@setter+interpolate", [(RT, f"{cls}.dt@setter"), (RT, f"{cls}.interpolate"), (RB, "RecordReducer.dt@setter")], tags=("reducer",))
    def dtset(c, cls=cls):
        dt, dt2, tc, A = c.real("dt"), c.real("dt2"), c.real("tc"), c.real("A")
        c.require(dt > 0, dt2 > 0, tc > 0)
        red = new_reducer(c, RT, cls, dt, tc, A, c.real("scale"))
        c.setattr(red, "dt", dt2)
        c.ensure("decay_recomputed", num(c.getattr(red, "decay")) == f_exp(-dt2.z / tc.z))
        c.ensure("dt_reported", z3.And(num(c.getattr(red, "dt")) == dt2.z, num(red.fields["_data__dt"]) == dt2.z))
        p, n, ts = c.pw("p"), c.pw("n"), c.pw("ts")
        r = c.call(c.getattr(red, "interpolate"), p, n, ts, dt2)
        c.ensure("analytic_decay_with_own_tau", r.f == p.f * f_exp(-ts.f / tc.z))
        c.canary("canary_stale_decay", z3.And(dt.z != dt2.z, num(c.getattr(red, "decay")) == f_exp(-dt.z / tc.z)))


_mk_conditional("ConditionalNearestTraceReducer", True)
_mk_conditional("ConditionalCumulativeTraceReducer", False)


@contract(P, "EligibilityTraceReducer.forward", [(T3F, "EligibilityTraceReducer.fold"), (T3F, "EligibilityTraceReducer.__init__"), (T3F, "EligibilityTraceReducer.dt@setter"), (T3F, "EligibilityTraceReducer.interpolate"), (RB, "FoldReducer.forward")], tags=("reducer",))
def eligibility(c):
    """z(t) = z(t - dt) exp(-dt/tau_z) + (obs x cond)/tau_z  with obs / cond reshaped by the connection's receptive
    views (one arbitrary element of the receptive axis: the contraction over it is linear)"""
    from .trainer_stubs import recept
    from pyvc.models import WeakMethodV

    dt, dt2, tc = c.real("dt"), c.real("dt2"), c.real("tc")
    N, ptr, k = c.int("N"), c.int("ptr"), c.int("k")
    c.require(dt > 0, dt2 > 0, tc > 0, N >= 1, 0 <= ptr, ptr < N, 0 <= k, k < N)
    calls = []

    def view(tag):
        def fn(itp, x):
            calls.append(tag)
            return recept(x)

        return WeakMethodV(Model(fn, tag))

    red = new_reducer(c, T3F, "EligibilityTraceReducer", dt, tc, obs_reshape=view("obs_view"), cond_reshape=view("cond_view"))
    c.ensure("decay_and_scale", z3.And(num(c.getattr(red, "decay")) == f_exp(-dt.z / tc.z), num(c.getattr(red, "scale")) == 1 / tc.z))
    first = c.choice("observation", ["subsequent", "first_after_clear_keepshape"])
    install_storage(c, red, N, ptr, initial=(first != "subsequent"))
    rv = RV(c, red, N, ptr)
    S = tz.Shape((tz.Star("S"),))
    obs, cond = c.pw("trace", "float", eshape=S), c.pw("spike", "bool", eshape=S)
    out = c.outcome(c.getattr(red, "forward"), obs, cond)
    c.expect_return(out)
    dec = f_exp(-dt.z / tc.z)
    term = z3.If(cond.f, obs.f, 0) / tc.z
    exp = term if first != "subsequent" else dec * rv.M0(1) + term
    newest = smod(num(k) - 1, num(N)) == 0
    c.ensure("newest_is_decayed_eligibility_plus_scaled_product", z3.Implies(newest, rv.M1(k) == exp))
    c.ensure("history_shifted", z3.Implies(z3.Not(newest), rv.M1(k) == rv.M0(k - 1)))
    c.ensure("observation_and_condition_go_through_their_own_views", calls == ["obs_view", "cond_view"])
    red2 = new_reducer(c, T3F, "EligibilityTraceReducer", dt, tc, obs_reshape=view("obs_view"), cond_reshape=view("cond_view"))
    c.setattr(red2, "dt", dt2)
    c.ensure("decay_recomputed_on_dt_change", num(c.getattr(red2, "decay")) == f_exp(-dt2.z / tc.z))
    p, n, ts = c.pw("p"), c.pw("n"), c.pw("ts")
    r = c.call(c.getattr(red2, "interpolate"), p, n, ts, dt2)
    c.ensure("analytic_decay_with_own_tau", r.f == p.f * f_exp(-ts.f / tc.z))
    c.canary("canary_no_decay", z3.And(newest, rv.M1(k) == rv.M0(1) + term, first == "subsequent", rv.M0(1) != 0, dec != 1))

ASSUMPTIONS = [
    "match criteria (criterion callables) are pure element-wise predicates (uninterpreted)",
    "inferno.exp / math.exp are the same real exponential function (uninterpreted `exp` with its axioms)",
    "closed forms over whole histories follow from the one-step recurrences by induction (lemmas/ *.lean when built); per-step clauses are what is discharged here",
]


def _mk_ctor_flags(cls, file, args):
    @contract(P, f"{cls}.__init__[record configuration]", [(file, f"{cls}.__init__"), (RB, "FoldReducer.__init__"), (RB, "RecordReducer.__init__")], tags=("reducer",), min_obligations=3)
    def ctor(c, cls=cls):
        """what the constructor is told about the history is what the record is: step time, duration, INCLUSIVE flag (one
        extra slot, so that view(duration) is readable), and the in-place flag - none of them mixed up with another"""
        dt, dur = c.real("dt"), c.real("dur")
        c.require(dt > 0, dur >= 0)
        incl = c.choice("inclusive", [False, True])
        inplace = c.choice("inplace", [False, True])
        a = [x() if callable(x) and not isinstance(x, Model) else x for x in args]
        red = new_reducer(c, file, cls, dt, *a, duration=dur, inclusive=incl, inplace=inplace)
        c.ensure("record_step_time_and_duration", z3.And(num(red.fields["_data__dt"]) == dt.z, num(red.fields["_data__duration"]) == dur.z))
        c.ensure("record_inclusive_flag", as_b(red.fields["_data__inclusive"]) == z3.BoolVal(incl))
        c.ensure("inplace_flag", as_b(c.getattr(red, "inplace")) == z3.BoolVal(inplace))
        c.ensure("reported_configuration", z3.And(num(c.getattr(red, "dt")) == dt.z, num(c.getattr(red, "duration")) == dur.z))
        c.canary("canary_always_inclusive", as_b(red.fields["_data__inclusive"]))

    return ctor


def as_b(v):
    from pyvc.sym import as_bool

    return as_bool(v) if not isinstance(v, bool) else z3.BoolVal(v)


for _cls, _file, _args in (
    ("EMAReducer", RS, (0.25,)),
    ("CAReducer", RS, ()),
    ("PassthroughReducer", RG, ()),
    ("EventReducer", RG, (Model(lambda it, x: x, "criterion"),)),
    ("NearestTraceReducer", RT, (3.0, 0.5, True)),
    ("CumulativeTraceReducer", RT, (3.0, 0.5, True)),
    ("ScaledNearestTraceReducer", RT, (3.0, 0.5, 2.0, Model(lambda it, x: x, "criterion"))),
    ("ScaledCumulativeTraceReducer", RT, (3.0, 0.5, 2.0, Model(lambda it, x: x, "criterion"))),
    ("ConditionalNearestTraceReducer", RT, (3.0, 0.5, 2.0)),
    ("ConditionalCumulativeTraceReducer", RT, (3.0, 0.5, 2.0)),
):
    _mk_ctor_flags(_cls, _file, _args)

# FoldReducer.view consumes RecordTensor.select BY CONTRACT (see above); the contract itself - the scalar-time and the
# tensor-time select, which is what view(time) asks for with a plain float resp. a per-element tensor - is proved in C02
# and is an obligation of this property too, so that a change inside select is reported here as well
from pyvc.harness import REGISTRY as _REG  # noqa: E402
from . import c02_select as _c02  # noqa: E402,F401

for _cd in list(_REG.get("C02", [])):
    if _cd.name in ("RecordTensor.select[scalar]", "RecordTensor.select[tensor]") and not any(x.name == _cd.name for x in _REG.get(P, [])):
        contract(P, _cd.name, list(_cd.targets), min_obligations=_cd.min_obligations)(_cd.fn)

MUTANTS = [
    dict(file=RS, func="EMAReducer.__init__", old="FoldReducer.__init__(self, step_time, duration, inclusive, inplace, 0)", new="FoldReducer.__init__(self, step_time, duration, inplace, inclusive, 0)", contracts=["EMAReducer.__init__[record configuration]"], name="seed C07g: inclusive and inplace swapped on the way to the base class"),
    dict(file=RT, func="CumulativeTraceReducer.fold", old="            tolerance=self.tolerance,\n", new="", contracts=["CumulativeTraceReducer.forward"], name="seed C07f: the configured matching tolerance is not handed to the trace kernel"),
    dict(file=RT, func="ConditionalCumulativeTraceReducer.fold", old="matchfn=partial(lambda o, c: c, c=cond),", new="matchfn=partial(lambda o, c: ~c, c=cond),", contracts=["ConditionalCumulativeTraceReducer.forward"], name="conditional trace updated where the condition does NOT hold"),
    dict(file=T3F, func="EligibilityTraceReducer.__init__", old="        self.scale = 1 / self.time_constant", new="        self.scale = 1.0", contracts=["EligibilityTraceReducer.forward"], name="eligibility increment not scaled by 1/tau_z"),
    dict(file=T3F, func="EligibilityTraceReducer.dt@setter", old="        self.decay = math.exp(-self.dt / self.time_constant)", new="        pass", contracts=["EligibilityTraceReducer.forward"], name="eligibility decay not recomputed on dt change"),
    dict(file=TR, func="trace_cumulative", old="return (decay * trace) + (amplitude * mask.to(dtype=trace.dtype))", new="return trace + (amplitude * mask.to(dtype=trace.dtype))"),
    dict(file=TR, func="trace_nearest", old="return torch.where(mask, amplitude, decay * trace)", new="return torch.where(mask, decay * trace, amplitude)"),
    dict(file=TR, func="trace_cumulative", old="mask = torch.abs(observation - target) <= tolerance", new="mask = torch.abs(observation - target) < tolerance"),
    dict(file=RG, func="EventReducer.fold", old="state + self.dt", new="state", contracts=["EventReducer.forward"]),
    dict(file=RS, func="CAReducer.fold", old="/ self._count", new="/ (self._count + 1)", contracts=["CAReducer.forward"]),
    dict(file=RT, func="CumulativeTraceReducer.dt@setter", old="self.decay = exp(-self.dt / self.time_constant)", new="pass", contracts=["CumulativeTraceReducer.dt@setter"]),
    dict(file=RB, func="FoldReducer.dump", old="return self.data_.value.flip(0)", new="return self.data_.value", contracts=["FoldReducer.view_dump_peek"]),
    dict(file=RB, func="FoldReducer.dump", old="self.data_.align(0)", new="self.data_.align(self.data_.recordsz - 1)", contracts=["FoldReducer.view_dump_peek"]),
    dict(file=RB, func="FoldReducer.clear", old="        self._initial = True", new="        pass", contracts=["FoldReducer.clear"]),
    dict(file=RB, func="FoldReducer.forward", old="self.push(self.fold(*inputs, self.peek()))", new="self.push(self.fold(*inputs, self.data_.peek()))", contracts=["PassthroughReducer.forward"], expect="survives", name="control: reading the record directly is equivalent while _initial is False"),
    dict(file=RB, func="FoldReducer.view", old="self.interpolate, tolerance=tolerance", new="self.interpolate, tolerance=1e-07", contracts=["FoldReducer.view_dump_peek"]),
]
