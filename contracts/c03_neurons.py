"""C03 - neuron step contract: threshold, reset, absolute refractory period, spike flag."""
from __future__ import annotations

import z3

from pyvc import repo
from pyvc import tensor as tz
from pyvc.harness import contract
from pyvc.models import Model
from pyvc.sym import num
from pyvc.tensor import T, f_exp

P = "C03"
ND = "inferno/neural/functional/neuron_dynamics.py"
NA = "inferno/neural/functional/neuron_adaptation.py"
NL = "inferno/neural/neurons/linear.py"
NN = "inferno/neural/neurons/nonlinear.py"
NM = "inferno/neural/neurons/mixins.py"
R = z3.RealSort()


def step_spec(I, r, v, dyn, dt, theta, rt, reset_fn, has_v):
    """the statement: out of refractory period AND integrated voltage reaches threshold <=> spike; reset; r' """
    r1 = z3.If(r - dt > 0, r - dt, 0)
    free = r1 == 0
    vint = z3.If(free, dyn(I), v) if has_v else dyn(z3.If(free, I, 0))
    sp = z3.And(free, vint >= theta)
    return sp, z3.If(sp, reset_fn(vint), vint), z3.If(sp, rt, r1), r1, vint


def _thresholding(name, linear):
    @contract(P, f"nf.{name}", (ND, name), tags=("kernel",))
    def k(c, name=name):
        I, r, v, th = c.pw("I"), c.pw("r"), c.pw("v"), c.pw("theta")
        dt, rt = c.real("dt"), c.real("rt")
        dyn = c.func("dyn", R, R)
        c.require(dt > 0, rt >= 0, r.f >= 0)
        dynm = Model(lambda interp, x: x._map(lambda z: dyn(z)), "dynamics")
        has_v = c.choice("voltages", ["tensor", "none"]) == "tensor"
        kw = dict(step_time=dt, thresh_v=th, refrac_t=rt)
        if linear:
            rest, slope, icpt = c.real("rest"), c.real("slope"), c.real("icpt")
            kw.update(rest_v=rest, v_slope=slope, v_intercept=icpt)
            reset_fn = lambda vi: rest.z + slope.z * (vi - rest.z) - icpt.z  # noqa: E731
        else:
            reset = c.real("reset")
            kw.update(reset_v=reset)
            reset_fn = lambda vi: reset.z  # noqa: E731
        s, v1, r1 = c.call(c.function(ND, name), I, r, dynm, v if has_v else None, **kw)
        sp, ev, er, rdec, vint = step_spec(I.f, r.f, v.f, dyn, dt.z, th.f, rt.z, reset_fn, has_v)
        c.ensure("spike_iff_free_and_reaches_threshold", s.f == sp)
        c.ensure("voltage_reset_or_integrated", v1.f == ev)
        c.ensure("refrac_update", r1.f == er)
        c.ensure("refrac_nonneg", r1.f >= 0)
        # one-step refractory window: still refractory after the decrement => no spike, countdown, locked voltage
        c.ensure("window_no_spike", z3.Implies(r.f > dt.z, z3.And(z3.Not(s.f), r1.f == r.f - dt.z)))
        if has_v:
            c.ensure("window_voltage_locked", z3.Implies(r.f > dt.z, v1.f == v.f))
        c.ensure("spike_rearms_refractory", z3.Implies(s.f, r1.f == rt.z))
        c.canary("canary_never_spikes", s.f == False)  # noqa: E712

    return k


_thresholding("voltage_thresholding_constant", False)
_thresholding("voltage_thresholding_linear", True)


@contract(P, "lemma.refractory_window", [(ND, "voltage_thresholding_constant")], tags=("lemma",))
def window_lemma(c):
    """Induction step of: a spike at step t is followed by no spike before step t + max(1, ceil(rt/dt)).
    Invariant J(j): after j further steps (0 <= j), r_j = rt - j*dt while rt - j*dt > 0.  Step: if r_j - dt > 0 then the
    kernel gives no spike and r_{j+1} = r_j - dt.  The count of such steps is ceil(rt/dt) - 1 (floor-gap fact below)."""
    rt, dt = c.real("rt"), c.real("dt")
    j = c.int("j")
    c.require(dt > 0, rt >= 0, j >= 0)
    I, v, th = c.pw("I"), c.pw("v"), c.pw("theta")
    dyn = c.func("dyn", R, R)
    dynm = Model(lambda interp, x: x._map(lambda z: dyn(z)), "dynamics")
    rj = rt.z - z3.ToReal(j.z) * dt.z
    c.require(rj > 0)
    r = T(rj, "float")
    s, v1, r1 = c.call(c.function(ND, "voltage_thresholding_constant"), I, r, dynm, v, step_time=dt, reset_v=c.real("reset"), thresh_v=th, refrac_t=rt)
    c.ensure("step_keeps_invariant_and_silence", z3.Implies(rj - dt.z > 0, z3.And(z3.Not(s.f), r1.f == rt.z - z3.ToReal(j.z + 1) * dt.z, v1.f == v.f)))
    # arithmetic fact linking the invariant to the statement's bound: j + 1 < rt/dt  <=>  rt - (j+1) dt > 0
    from pyvc.sym import ceil_real

    cl = ceil_real(rt.z / dt.z)
    c.ensure("bound_is_ceil", z3.Implies(j.z + 1 < cl, rj - dt.z > 0))
    c.canary("canary_spikes_in_window", z3.And(rj - dt.z > 0, s.f))


def _integration(name, spec):
    @contract(P, f"nf.{name}", (ND, name), tags=("kernel",))
    def k(c, name=name):
        I, v = c.pw("I"), c.pw("v")
        p = {n: c.real(n) for n in ("dt", "tau", "rest", "R", "crit", "a", "rh", "delta")}
        c.require(p["dt"] > 0, p["tau"] > 0, p["delta"] != 0)
        kws, exp = spec(I.f, v.f, {k_: x.z for k_, x in p.items()}, p)
        r = c.call(c.function(ND, name), I, v, **kws)
        c.ensure("documented_update_equation", r.f == exp)
        c.canary("canary_identity", r.f == v.f)

    return k


_integration("voltage_integration_linear", lambda I, v, z, p: (
    dict(step_time=p["dt"], time_constant=p["tau"], rest_v=p["rest"], resistance=p["R"]),
    z["rest"] + (v - z["rest"] - z["R"] * I) * f_exp(-z["dt"] / z["tau"]) + z["R"] * I))
_integration("voltage_integration_quadratic", lambda I, v, z, p: (
    dict(step_time=p["dt"], rest_v=p["rest"], crit_v=p["crit"], affinity=p["a"], time_constant=p["tau"], resistance=p["R"]),
    v + z["dt"] / z["tau"] * (z["a"] * (v - z["rest"]) * (v - z["crit"]) + z["R"] * I)))
_integration("voltage_integration_exponential", lambda I, v, z, p: (
    dict(step_time=p["dt"], rest_v=p["rest"], rheobase_v=p["rh"], sharpness=p["delta"], time_constant=p["tau"], resistance=p["R"]),
    v + z["dt"] / z["tau"] * (-(v - z["rest"]) + z["delta"] * f_exp((v - z["rh"]) / z["delta"]) + z["R"] * I)))


def _adapt_tensor(c, name, K):
    t = c.seq(name, K, "float", "last", tz.Shape((tz.Star("S"),)))
    return t


@contract(P, "nf.adaptation", [(NA, "adaptive_currents_linear"), (NA, "adaptive_thresholds_linear_voltage"), (NA, "adaptive_thresholds_linear_spike")], tags=("kernel",))
def adaptation(c):
    K, j = c.int("K"), c.int("j")
    c.require(K >= 1, 0 <= j, j < K)
    a = _adapt_tensor(c, "w", K)
    A = c.symbols["w"]
    v, r = c.pw("v"), c.pw("r")
    s = c.pw("s", "bool")
    dt = c.real("dt")
    c.require(dt > 0, r.f >= 0)
    which = c.choice("fn", ["currents_linear", "thresholds_spike", "thresholds_voltage"])
    lock = c.choice("refracs", ["given", "none"]) == "given"
    tc = c.seq("tc", K, "float", "first", tz.Shape(()))
    tc.pure_time = True
    inc = c.seq("inc", K, "float", "first", tz.Shape(()))
    inc.pure_time = True
    TC, INC = c.symbols["tc"], c.symbols["inc"]
    c.require(TC(j.z) > 0)
    sj = z3.If(s.f, INC(j.z), 0)
    frozen = z3.And(lock, r.f > 0)
    if which == "currents_linear":
        rest, vc = c.real("rest"), c.real("vc")
        out = c.call(c.function(NA, "adaptive_currents_linear"), a, v, s, step_time=dt, rest_v=rest, time_constant=tc, voltage_coupling=vc, spike_increment=inc, refracs=r if lock else None)
        euler = dt.z / TC(j.z) * (vc.z * (v.f - rest.z) - A(j.z))
        c.ensure("euler_step_frozen_in_refractory", out.at(j) == z3.If(frozen, A(j.z), A(j.z) + euler) + sj)
    elif which == "thresholds_spike":
        out = c.call(c.function(NA, "adaptive_thresholds_linear_spike"), a, s, step_time=dt, time_constant=tc, spike_increment=inc, refracs=r if lock else None)
        c.ensure("decay_frozen_in_refractory", out.at(j) == z3.If(frozen, A(j.z), A(j.z) * f_exp(-dt.z / TC(j.z))) + sj)
    else:
        rest, ar, rr_ = c.real("rest"), c.real("ar"), c.real("rr")
        out = c.call(c.function(NA, "adaptive_thresholds_linear_voltage"), a, v, step_time=dt, rest_v=rest, adapt_rate=ar, rebound_rate=rr_, refracs=r if lock else None)
        euler = dt.z * (ar.z * (v.f - rest.z) - rr_.z * A(j.z))
        c.ensure("euler_step_frozen_in_refractory", out.at(j) == z3.If(frozen, A(j.z), A(j.z) + euler))
    c.canary("canary_unchanged", out.at(j) == A(j.z))


# ----------------------------------------------------------------------- neuron classes (wiring + class invariant)
def _kw(c, names):
    return {n: c.real(n) for n in names}


CLASSES = {
    # name: (file, ctor kwargs (symbolic reals), constraints builder, kind)
    "LIF": (NL, ["rest_v", "reset_v", "thresh_v", "refrac_t", "time_constant", "resistance"], "linear_const"),
    "GLIF1": (NL, ["rest_v", "reset_v", "thresh_v", "refrac_t", "time_constant", "resistance"], "linear_const"),
    "QIF": (NN, ["rest_v", "crit_v", "affinity", "reset_v", "thresh_v", "refrac_t", "time_constant", "resistance"], "quad_const"),
    "EIF": (NN, ["rest_v", "rheobase_v", "sharpness", "reset_v", "thresh_v", "refrac_t", "time_constant", "resistance"], "exp_const"),
}


def _mk_class(cls):
    file, names, kind = CLASSES[cls]

    @contract(P, f"{cls}.forward", [(file, f"{cls}.forward"), (file, f"{cls}._integrate_v"), (file, f"{cls}.__init__"), (NM, "SpikeRefractoryMixin.spike"), (NM, "VoltageMixin.voltage@setter"), (NM, "RefractoryMixin.refrac@setter")], tags=("class",))
    def fwd(c, cls=cls):
        dt = c.real("dt")
        kw = _kw(c, names)
        z = {k_: v_.z for k_, v_ in kw.items()}
        c.require(dt > 0, kw["rest_v"] < kw["thresh_v"], kw["reset_v"] < kw["thresh_v"], kw["refrac_t"] >= 0, kw["time_constant"] > 0, kw["resistance"] != 0)
        if "sharpness" in kw:
            c.require(kw["sharpness"] > 0)
        if "affinity" in kw:
            c.require(kw["affinity"] > 0, kw["crit_v"] > kw["rest_v"], kw["crit_v"] <= kw["thresh_v"])
        if "rheobase_v" in kw:
            c.require(kw["rheobase_v"] > kw["rest_v"], kw["rheobase_v"] <= kw["thresh_v"])
        cv = c.interp.classv(repo.load_module(file).classes[cls])
        out = c.outcome(cv, (3,), dt, **kw)
        c.expect_return(out, "constructor")
        n = out.value
        S = tz.Shape((1, 3))
        V = c.pw("V", "float", eshape=S)
        Rr = c.pw("Rr", "float", eshape=S)
        I = c.pw("I", "float", eshape=S)
        c.require(Rr.f >= 0, Rr.f <= z["refrac_t"])  # class invariant 0 <= refrac <= refrac_t
        n.fields["_voltage__data"] = V
        n.fields["_refrac__data"] = Rr
        lockarg = c.choice("refrac_lock", [True, False, "default"])
        lock = True if lockarg == "default" else lockarg  # documented default: voltages are locked while refractory
        res = c.outcome(c.getattr(n, "forward"), I, **({} if lockarg == "default" else {"refrac_lock": lockarg}))
        c.expect_return(res)
        sp = res.value
        if kind == "linear_const":
            dyn = lambda i: z["rest_v"] + (V.f - z["rest_v"] - z["resistance"] * i) * f_exp(-dt.z / z["time_constant"]) + z["resistance"] * i  # noqa: E731
        elif kind == "quad_const":
            dyn = lambda i: V.f + dt.z / z["time_constant"] * (z["affinity"] * (V.f - z["rest_v"]) * (V.f - z["crit_v"]) + z["resistance"] * i)  # noqa: E731
        else:
            dyn = lambda i: V.f + dt.z / z["time_constant"] * (-(V.f - z["rest_v"]) + z["sharpness"] * f_exp((V.f - z["rheobase_v"]) / z["sharpness"]) + z["resistance"] * i)  # noqa: E731
        esp, ev, er, _rd, _vi = step_spec(I.f, Rr.f, V.f, dyn, dt.z, z["thresh_v"], z["refrac_t"], lambda vi: z["reset_v"], lock)
        v1 = c.getattr(n, "voltage")
        r1 = c.getattr(n, "refrac")
        c.ensure("returns_spikes_of_step_contract", sp.f == esp)
        c.ensure("stores_voltage", v1.f == ev)
        c.ensure("stores_refrac", r1.f == er)
        c.ensure("invariant_refrac_range", z3.And(r1.f >= 0, r1.f <= z["refrac_t"]))
        attr = c.getattr(n, "spike")
        # the known finding D22 is confined to refrac_t = 0: outside that witness class the clause must hold (stated first so
        # that a change breaking it for refrac_t > 0 is never mistaken for the recorded finding)
        c.ensure("spike_attribute_equals_last_output_when_refrac_t_positive", z3.Implies(z["refrac_t"] > 0, attr.f == sp.f))
        c.ensure("spike_attribute_equals_last_output", attr.f == sp.f)
        c.canary("canary_voltage_unchanged", v1.f == V.f)

    @contract(P, f"{cls}.clear", [(file, f"{cls}.clear")], tags=("class",))
    def clr(c, cls=cls):
        dt = c.real("dt")
        kw = _kw(c, names)
        c.require(dt > 0, kw["rest_v"] < kw["thresh_v"], kw["reset_v"] < kw["thresh_v"], kw["refrac_t"] >= 0, kw["time_constant"] > 0, kw["resistance"] != 0)
        if "sharpness" in kw:
            c.require(kw["sharpness"] > 0)
        if "affinity" in kw:
            c.require(kw["affinity"] > 0, kw["crit_v"] > kw["rest_v"], kw["crit_v"] <= kw["thresh_v"])
        if "rheobase_v" in kw:
            c.require(kw["rheobase_v"] > kw["rest_v"], kw["rheobase_v"] <= kw["thresh_v"])
        cv = c.interp.classv(repo.load_module(file).classes[cls])
        n = c.call(cv, (3,), dt, **kw)
        c.ensure("constructed_at_rest", z3.And(c.getattr(n, "voltage").f == kw["rest_v"].z, c.getattr(n, "refrac").f == 0))
        n.fields["_voltage__data"] = c.pw("V", "float", eshape=tz.Shape((1, 3)))
        n.fields["_refrac__data"] = c.pw("Rr", "float", eshape=tz.Shape((1, 3)))
        c.call(c.getattr(n, "clear"))
        c.ensure("clear_restores_constructor_state", z3.And(c.getattr(n, "voltage").f == kw["rest_v"].z, c.getattr(n, "refrac").f == 0))


for _c in CLASSES:
    _mk_class(_c)


# ----------------------------------------------------------------------- adaptive neuron classes
ADAPTIVE = {
    "ALIF": (NL, ["rest_v", "reset_v", "thresh_eq_v", "refrac_t", "tc_membrane", "resistance"], "linear", "threshold"),
    "GLIF2": (NL, ["rest_v", "reset_v_add", "reset_v_mul", "thresh_eq_v", "refrac_t", "tc_membrane", "resistance"], "linear", "threshold_rate"),
    "Izhikevich": (NN, ["rest_v", "crit_v", "affinity", "reset_v", "thresh_v", "refrac_t", "tc_membrane", "resistance"], "quad", "current"),
    "AdEx": (NN, ["rest_v", "rheobase_v", "sharpness", "reset_v", "thresh_v", "refrac_t", "tc_membrane", "resistance"], "exp", "current"),
}


def _mk_adaptive(cls):
    file, names, dynkind, akind = ADAPTIVE[cls]
    mixin = "AdaptiveThresholdMixin" if akind.startswith("threshold") else "AdaptiveCurrentMixin"
    state_attr = "threshold_adaptation_" if akind.startswith("threshold") else "current_adaptation_"

    @contract(P, f"{cls}.forward", [(file, f"{cls}.forward"), (file, f"{cls}._integrate_v"), (file, f"{cls}.__init__"), (NM, f"{mixin}.__init__"), (NM, f"{mixin}.{state_attr[:-1]}@setter"), (NM, "SpikeRefractoryMixin.spike"), (NA, "apply_adaptive_thresholds" if akind.startswith("threshold") else "apply_adaptive_currents")], tags=("class",))
    def fwd(c, cls=cls):
        dt = c.real("dt")
        kw = _kw(c, names)
        z = {k_: v_.z for k_, v_ in kw.items()}
        th_name = "thresh_eq_v" if "thresh_eq_v" in kw else "thresh_v"
        c.require(dt > 0, kw["rest_v"] < kw[th_name], kw["refrac_t"] >= 0, kw["tc_membrane"] > 0, kw["resistance"] != 0)
        if "reset_v" in kw:
            c.require(kw["reset_v"] < kw[th_name])
        if "sharpness" in kw:
            c.require(kw["sharpness"] > 0, kw["rheobase_v"] > kw["rest_v"], kw["rheobase_v"] <= kw["thresh_v"])
        if "affinity" in kw:
            c.require(kw["affinity"] > 0, kw["crit_v"] > kw["rest_v"], kw["crit_v"] <= kw["thresh_v"])
        # two adaptation components with symbolic constants; component j is arbitrary
        p1, p2, i1, i2, v1_, v2_ = (c.real(n) for n in ("ad_const_0", "ad_const_1", "incr_0", "incr_1", "vc_0", "vc_1"))
        c.require(p1 > 0, p2 > 0)
        akw = {"rc_adaptation" if akind == "threshold_rate" else "tc_adaptation": (p1, p2), "spike_increment": (i1, i2)}
        if akind == "current":
            akw["voltage_coupling"] = (v1_, v2_)
        reductions = []

        def batchreduce(itp, x, dim=0, **k2):
            reductions.append((x, dim))
            # one arbitrary sample: the configured reduction (mean by default) is applied to it alone; the batch
            # dimension disappears from the shape
            es = tz.Shape(x.eshape.items[1:]) if x.eshape is not None and len(x.eshape.items) > 1 else x.eshape
            return T(x.f, x.dtype, x.tlen, x.taxis, es, x.nan)

        cv = c.interp.classv(repo.load_module(file).classes[cls])
        out = c.outcome(cv, (3,), dt, batch_reduction=Model(batchreduce, "batch_reduction"), **kw, **akw)
        c.expect_return(out, "constructor")
        n = out.value
        S, SU = tz.Shape((1, 3)), tz.Shape((3,))
        V, Rr, I = c.pw("V", "float", eshape=S), c.pw("Rr", "float", eshape=S), c.pw("I", "float", eshape=S)
        c.require(Rr.f >= 0, Rr.f <= z["refrac_t"])
        n.fields["_voltage__data"] = V
        n.fields["_refrac__data"] = Rr
        A = c.seq("A", 2, "float", "last", SU)
        AF = c.symbols["A"]
        n.fields[state_attr] = A
        j = c.int("j")
        c.require(0 <= j, j < 2)
        sel = lambda a, b: z3.If(j.z == 0, a.z, b.z)  # noqa: E731
        lockarg = c.choice("refrac_lock", [True, False, "default"])
        lock = True if lockarg == "default" else lockarg
        adapt = c.choice("adapt", [True, False, None, "default"])
        training = c.bool("training")
        n.fields["training"] = training
        SA = c.interp.torch_ns.get("sum")(A, dim=-1).f  # the (uninterpreted) sum over the adaptation axis
        fkw = {}
        if lockarg != "default":
            fkw["refrac_lock"] = lockarg
        if adapt != "default":
            fkw["adapt"] = adapt
        else:
            adapt = None  # documented default: adapt follows the module's training mode
        res = c.outcome(c.getattr(n, "forward"), I, **fkw)
        c.expect_return(res)
        sp = res.value
        tau, Rm = z["tc_membrane"], z["resistance"]
        if dynkind == "linear":
            dyn = lambda i: z["rest_v"] + (V.f - z["rest_v"] - Rm * i) * f_exp(-dt.z / tau) + Rm * i  # noqa: E731
        elif dynkind == "quad":
            dyn = lambda i: V.f + dt.z / tau * (z["affinity"] * (V.f - z["rest_v"]) * (V.f - z["crit_v"]) + Rm * i)  # noqa: E731
        else:
            dyn = lambda i: V.f + dt.z / tau * (-(V.f - z["rest_v"]) + z["sharpness"] * f_exp((V.f - z["rheobase_v"]) / z["sharpness"]) + Rm * i)  # noqa: E731
        if akind.startswith("threshold"):
            thresh, Ieff = z[th_name] + SA, I.f
        else:
            thresh, Ieff = z[th_name], I.f - SA
        if cls == "GLIF2":
            reset_fn = lambda vi: z["rest_v"] + z["reset_v_mul"] * (vi - z["rest_v"]) - z["reset_v_add"]  # noqa: E731
        else:
            reset_fn = lambda vi: z["reset_v"]  # noqa: E731
        esp, ev, er, _rd, _vi = step_spec(Ieff, Rr.f, V.f, dyn, dt.z, thresh, z["refrac_t"], reset_fn, lock)
        v1, r1 = c.getattr(n, "voltage"), c.getattr(n, "refrac")
        c.ensure("returns_spikes_of_step_contract_with_adapted_" + ("threshold" if akind.startswith("threshold") else "input"), sp.f == esp)
        c.ensure("stores_voltage", v1.f == ev)
        c.ensure("stores_refrac", r1.f == er)
        c.ensure("invariant_refrac_range", z3.And(r1.f >= 0, r1.f <= z["refrac_t"]))
        a1 = n.fields[state_attr]
        does = z3.BoolVal(True) if adapt is True else (z3.BoolVal(False) if adapt is False else training.z)
        # the adaptation rule is stated over the step's OWN results (spikes, voltage, refractory state), which the
        # clauses above pin to the step contract: keeps the nonlinear terms syntactically aligned
        esp, ev, er = sp.f, v1.f, r1.f
        frozen = z3.And(z3.BoolVal(bool(lock)), er > 0)
        Aj = AF(j.z)
        if akind == "threshold":
            upd = z3.If(frozen, Aj, Aj * f_exp(-dt.z / sel(p1, p2)))
        elif akind == "threshold_rate":
            upd = z3.If(frozen, Aj, Aj * f_exp(-dt.z / (1 / sel(p1, p2))))
        else:
            upd = z3.If(frozen, Aj, Aj + dt.z / sel(p1, p2) * (sel(v1_, v2_) * (ev - z["rest_v"]) - Aj))
        upd = upd + z3.If(esp, sel(i1, i2), 0)
        c.ensure("adaptation_updated_iff_adapting_by_the_documented_rule", a1.at(j.z) == z3.If(does, upd, Aj))
        # `does` is decided on this path: the documented batch reduction is applied exactly once, over dimension 0
        c.ensure("adaptation_state_keeps_its_unbatched_shape", tuple(a1.eshape.items) == (3,) and a1.tlen == 2)
        c.ensure("batch_reduction_applied_once_over_dim_0_iff_adapting", z3.If(does, z3.BoolVal(len(reductions) == 1 and all(d == 0 for _x, d in reductions)), z3.BoolVal(len(reductions) == 0)))
        attr = c.getattr(n, "spike")
        c.ensure("spike_attribute_equals_last_output_when_refrac_t_positive", z3.Implies(z["refrac_t"] > 0, attr.f == sp.f))
        c.ensure("spike_attribute_equals_last_output", attr.f == sp.f)
        c.canary("canary_adaptation_unchanged", z3.And(does, a1.at(j.z) == Aj, esp, sel(i1, i2) != 0, z3.Not(frozen)))

    @contract(P, f"{cls}.clear", [(file, f"{cls}.clear")], tags=("class",))
    def clr(c, cls=cls):
        dt = c.real("dt")
        kw = _kw(c, names)
        th_name = "thresh_eq_v" if "thresh_eq_v" in kw else "thresh_v"
        c.require(dt > 0, kw["rest_v"] < kw[th_name], kw["refrac_t"] >= 0, kw["tc_membrane"] > 0, kw["resistance"] != 0)
        if "reset_v" in kw:
            c.require(kw["reset_v"] < kw[th_name])
        if "sharpness" in kw:
            c.require(kw["sharpness"] > 0, kw["rheobase_v"] > kw["rest_v"], kw["rheobase_v"] <= kw["thresh_v"])
        if "affinity" in kw:
            c.require(kw["affinity"] > 0, kw["crit_v"] > kw["rest_v"], kw["crit_v"] <= kw["thresh_v"])
        p1, i1 = c.real("ad_const_0"), c.real("incr_0")
        c.require(p1 > 0)
        akw = {"rc_adaptation" if akind == "threshold_rate" else "tc_adaptation": p1, "spike_increment": i1}
        if akind == "current":
            akw["voltage_coupling"] = c.real("vc_0")
        cv = c.interp.classv(repo.load_module(file).classes[cls])
        n = c.call(cv, (3,), dt, **kw, **akw)
        c.ensure("constructed_at_rest_without_adaptation", z3.And(c.getattr(n, "voltage").f == kw["rest_v"].z, c.getattr(n, "refrac").f == 0, tz.coerce(n.fields[state_attr].f, "float") == 0))
        n.fields["_voltage__data"] = c.pw("V", "float", eshape=tz.Shape((1, 3)))
        n.fields["_refrac__data"] = c.pw("Rr", "float", eshape=tz.Shape((1, 3)))
        A = c.seq("A", 1, "float", "last", tz.Shape((3,)))
        n.fields[state_attr] = A
        keep = c.choice("keep_adaptations", [True, False, "default"])
        c.call(c.getattr(n, "clear"), **({} if keep == "default" else {"keep_adaptations": keep}))
        a1 = n.fields[state_attr]
        c.ensure("clear_restores_rest_state", z3.And(c.getattr(n, "voltage").f == kw["rest_v"].z, c.getattr(n, "refrac").f == 0))
        if keep is False:
            c.ensure("clear_resets_adaptation_when_asked", (a1.at(0) if a1.tlen is not None else tz.coerce(a1.f, "float")) == 0)
        else:
            c.ensure("clear_keeps_learned_adaptation_by_default", a1 is A)


for _c in ADAPTIVE:
    _mk_adaptive(_c)

ASSUMPTIONS = [
    "A1 real arithmetic: the float countdown refrac - dt is exact (bounded float stand-in in native/c03.py)",
    "dynamics callables are pure element-wise functions (uninterpreted in the thresholding kernels)",
    "the value of torch.sum over the adaptation axis is uninterpreted (the step contract does not depend on it)",
    "adaptive classes (ALIF, GLIF2, Izhikevich, AdEx): class-level contracts with TWO adaptation components of symbolic constants (component index arbitrary); the sum over the adaptation axis is an uninterpreted constant tied to the adaptation tensor; the configured batch reduction of adaptations is applied to one arbitrary sample (identity) and its single application over dimension 0 is checked",
]

# the batch-size setter of a neuron must leave every sample - kept or new - in the rest state a fresh neuron starts from
# (clear-after-resize): the C14 contract on the real InfernoNeuron.batchsz setter is an obligation of this property too
from pyvc.harness import REGISTRY as _REG  # noqa: E402
from . import c14_config as _c14  # noqa: E402,F401

for _cd in list(_REG.get("C14", [])):
    if _cd.name == "LIF[setters_vs_constructor]" and not any(x.name == _cd.name for x in _REG.get(P, [])):
        contract(P, _cd.name, list(_cd.targets), min_obligations=_cd.min_obligations)(_cd.fn)

MUTANTS = [
    dict(file=NL, func="ALIF.forward", old="            thresh_v=nf.apply_adaptive_thresholds(\n                self.thresh_eq_v, self.threshold_adaptation\n            ),", new="            thresh_v=self.thresh_eq_v,", contracts=["ALIF.forward"], name="ALIF ignores its threshold adaptation"),
    dict(file=NL, func="GLIF2.forward", old="time_constant=1 / self.rc_adaptation,", new="time_constant=self.rc_adaptation,", contracts=["GLIF2.forward"], name="GLIF2 uses the rate constant as a time constant"),
    dict(file=NM, func="AdaptiveCurrentMixin.current_adaptation@setter", old="self.current_adaptation_ = self.__batchreduce(value, 0)", new="self.current_adaptation_ = self.__batchreduce(value, 1)", contracts=["Izhikevich.forward"], name="adaptation reduced over a non-batch dimension"),
    dict(file=NN, func="AdEx.forward", old="inputs=nf.apply_adaptive_currents(inputs, self.current_adaptation),", new="inputs=inputs,", contracts=["AdEx.forward"], name="AdEx ignores its adaptation current"),
    dict(file=NN, func="Izhikevich.forward", old="                voltages=voltages,\n                spikes=spikes,", new="                voltages=self.voltage,\n                spikes=spikes,", contracts=["Izhikevich.forward"], expect="survives", name="control: the stored voltage is the voltage just computed"),
    dict(file=ND, func="voltage_thresholding_constant", old="(refracs - step_time).clamp(min=0)", new="(refracs - step_time)"),
    dict(file=ND, func="voltage_thresholding_constant", old="mask = refracs == 0", new="mask = refracs <= step_time"),
    dict(file=ND, func="voltage_thresholding_constant", old="voltages >= thresh_v", new="voltages > thresh_v"),
    dict(file=ND, func="voltage_thresholding_constant", old="spikes = torch.logical_and(mask, voltages >= thresh_v)", new="spikes = voltages >= thresh_v", name="seed C03: refractory mask dropped from the spike decision"),
    dict(file=ND, func="voltage_thresholding_linear", old="spikes = torch.logical_and(mask, voltages >= thresh_v)", new="spikes = voltages >= thresh_v"),
    dict(file=ND, func="voltage_thresholding_constant", old="refracs = refracs.where(~spikes, refrac_t)", new="refracs = refracs.where(spikes, refrac_t)"),
    dict(file=ND, func="voltage_thresholding_constant", old="voltages = voltages.where(~mask, dynamics(inputs * mask))", new="voltages = voltages.where(mask, dynamics(inputs * mask))"),
    dict(file=ND, func="voltage_integration_linear", old="decay = exp(-step_time / time_constant)", new="decay = exp(step_time / time_constant)"),
    dict(file=NL, func="LIF.forward", old="reset_v=self.reset_v,", new="reset_v=self.rest_v,", contracts=["LIF.forward", "GLIF1.forward"]),
    dict(file=NA, func="adaptive_thresholds_linear_spike", old="refracs.unsqueeze(-1) > 0, decayed", new="refracs.unsqueeze(-1) >= 0, decayed", contracts=["nf.adaptation"]),
    dict(file=NL, func="LIF.clear", old="torch.zeros_like(self.refrac)", new="torch.ones_like(self.refrac)", contracts=["LIF.clear"]),
]
