"""C13 - resizing a record: size formula, newest min(old,new) observations preserved, zero fill, uninitialised-safe;
constraint bookkeeping (reconstrain add/edit/remove) on the real ShapedTensor code."""
from __future__ import annotations

import z3

from pyvc import repo
from pyvc import tensor as tz
from pyvc.harness import contract
from pyvc.sym import ceil_real, num, smod

from .fixtures import INF

P = "C13"


def size_formula(dur, dt, incl):
    n = ceil_real(dur / dt) + z3.If(incl, 1, 0)
    return z3.If(n >= 1, n, 1)


def build(c, storage):
    it = c.interp
    mod = repo.load_module(INF)
    Module = it.classv(mod.classes["Module"])
    RT = it.classv(mod.classes["RecordTensor"])
    dt, dur = c.real("dt"), c.real("dur")
    incl = c.bool("incl")
    c.require(dt > 0, dur >= 0)
    owner = it.instantiate(Module, [], {})
    rec = it.instantiate(RT, [owner, "x", dt, dur, None], {"inclusive": incl})
    N0 = owner.fields["_x_constraints"][0]
    c.ensure("constructor_size_formula", num(N0) == size_formula(dur.z, dt.z, incl.z))
    D = None
    ptr = c.int("ptr")
    if storage == "initialized":
        c.require(0 <= ptr, ptr < N0, z3.Int("numel_S") > 0, z3.Int("ndim_S") >= 0)
        data = c.seq("D", N0, "float", "first", tz.Shape((tz.Star("S"),)))
        owner.fields["_x_data"] = data
        owner.fields["_extras"]["_x_pointer"] = ptr
        D = c.symbols["D"]
    elif storage == "empty":
        owner.fields["_x_data"] = c.call(it.torch_ns.get("empty"), 0)
    return owner, rec, dt, dur, incl, N0, ptr, D


def _mk_setter(which):
    @contract(P, f"RecordTensor.{which}@setter", [(INF, f"RecordTensor.{which}@setter"), (INF, "RecordTensor.duration@setter"), (INF, "ShapedTensor.reconstrain"), (INF, "ShapedTensor.__make_compatible"), (INF, "RecordTensor.align"), (INF, "_constraints_consistent"), (INF, "_constraint_dimensionality"), (INF, "_constraints_compatible")])
    def setter(c, which=which):
        storage = c.choice("storage", ["initialized", "none", "empty"])
        owner, rec, dt, dur, incl, N0, ptr, D = build(c, storage)
        k = c.int("k")
        if which == "dt":
            new = c.real("new_dt")
            c.require(new > 0)
            ndt, ndur, nincl = new.z, dur.z, incl.z
        elif which == "duration":
            new = c.real("new_dur")
            c.require(new >= 0)
            ndt, ndur, nincl = dt.z, new.z, incl.z
        else:
            new = c.bool("new_incl")
            ndt, ndur, nincl = dt.z, dur.z, new.z
        try:
            c.setattr(rec, which, new)
        except Exception as e:
            from pyvc.sym import SymRaise

            if isinstance(e, SymRaise):
                c.ensure(f"never_fails[{e.exc_name}]" + ("_uninitialised_safe" if storage != "initialized" else ""), False)
                return
            raise
        N1 = owner.fields["_x_constraints"][0]
        c.ensure("size_formula_with_new_values", num(N1) == size_formula(ndur, ndt, nincl))
        c.ensure("reports_back", z3.And(num(c.getattr(rec, "dt")) == ndt, num(c.getattr(rec, "duration")) == ndur, c.getattr(rec, "inclusive") is new if which == "inclusive" else True))
        if which != "inclusive":
            from pyvc.sym import as_bool

            c.ensure("inclusive_untouched", as_bool(c.getattr(rec, "inclusive")) == incl.z)
        if storage != "initialized":
            c.ensure("still_uninitialised", c.interp.truth(c.getattr(rec, "ignored")))
            return
        d1 = owner.fields["_x_data"]
        p1 = owner.fields["_extras"]["_x_pointer"]
        mn = z3.If(num(N0) <= num(N1), num(N0), num(N1))
        c.ensure("storage_has_new_size", num(d1.tlen) == num(N1))
        c.ensure("pointer_valid", z3.And(num(p1) >= 0, num(p1) < num(N1)))
        # k ranges are put into the path condition (not under an implication) so that the index algebra is linear
        c.require(1 <= k, k.z <= mn)
        M0 = D(smod(num(ptr) - num(k), num(N0)))
        M1 = d1.at(smod(num(p1) - num(k), num(N1)))
        c.ensure("newest_min_old_new_preserved_at_same_steps_before_present", M1 == M0)
        c.canary("canary_oldest_preserved_instead", z3.And(num(N1) < num(N0), k.z == 1, M1 == D(smod(num(ptr) - num(N0), num(N0))), D(smod(num(ptr) - 1, num(N0))) != D(smod(num(ptr) - num(N0), num(N0)))))
        if c.ex.branch(num(N1) > num(N0)):
            k2 = c.int("k2")
            c.require(k2.z > num(N0), k2.z <= num(N1))
            c.ensure("older_new_slots_zero", d1.at(smod(num(p1) - num(k2), num(N1))) == 0)


for _w in ("dt", "duration", "inclusive"):
    _mk_setter(_w)



@contract(P, "_constraints_consistent", [(INF, "_constraints_consistent")], min_obligations=2)
def constraints_consistent(c):
    """the helper that decides whether a (non-strict) constraint set can hold for a tensor of `ndims` dimensions: up to
    three constraints on concrete (positive or negative) dims with SYMBOLIC sizes - consistent exactly when no two of them
    resolve to the same tensor dimension with different sizes (a positive dim and its negative alias with EQUAL sizes
    are fine)"""
    ndims = c.choice("ndims", [1, 2, 3])
    dims_all = list(range(-ndims, ndims))
    k = c.choice("constraints", [n_ for n_ in (1, 2, 3) if n_ <= len(dims_all)])
    picks = []
    for i in range(k):
        d = c.choice(f"dim{i}", [x for x in dims_all if x not in picks])
        picks.append(d)
    sizes = [c.int(f"size{i}") for i in range(k)]
    c.require(*[s_ >= 0 for s_ in sizes])
    cons = {d: s_ for d, s_ in zip(picks, sizes)}
    out = c.outcome(c.function(INF, "_constraints_consistent"), cons, ndims)
    c.expect_return(out)
    clash = []
    for i in range(k):
        for j in range(i + 1, k):
            if picks[i] % ndims == picks[j] % ndims:
                clash.append(sizes[i].z != sizes[j].z)
    want = z3.Not(z3.Or(clash)) if clash else z3.BoolVal(True)
    from pyvc.sym import as_bool

    c.ensure("consistent_iff_no_two_constraints_disagree_on_one_dimension", as_bool(out.value) == want)
    c.canary("canary_always_consistent", as_bool(out.value))


@contract(P, "RecordTensor.__init__[configuration reaches the base class]", [(INF, "RecordTensor.__init__"), (INF, "ShapedTensor.__init__"), (INF, "ShapedTensor.strict"), (INF, "ShapedTensor.dimensionality")], min_obligations=3)
def record_ctor_config(c):
    """what the constructor is told about constraint handling is what the record does: the strict flag (a NON-strict record
    may name one observation dimension by a positive and a negative index), the user constraints shifted past the time axis,
    the time constraint from the size formula"""
    it = c.interp
    mod = repo.load_module(INF)
    Module = it.classv(mod.classes["Module"])
    RT = it.classv(mod.classes["RecordTensor"])
    dt, dur = c.real("dt"), c.real("dur")
    incl = c.bool("incl")
    c.require(dt > 0, dur >= 0)
    strict = c.choice("strict", [False, True])
    s0 = c.int("size_of_observation_dim")
    c.require(s0 >= 1)
    cons = {0: s0, -1: s0} if not strict else {0: s0}  # non-strict: both constraints name the only observation dimension
    owner = it.instantiate(Module, [], {})
    rec = it.instantiate(RT, [owner, "x", dt, dur, None], {"constraints": cons, "strict": strict, "inclusive": incl})
    c.ensure("strict_flag_is_the_one_given", c.getattr(rec, "strict") is strict)
    stored = owner.fields["_x_constraints"]
    want = {0: None, 1: s0} | ({-1: s0} if not strict else {})
    c.ensure("user_constraints_shifted_past_the_time_axis", sorted(stored) == sorted(want) and all(z3.is_true(z3.simplify(num(stored[k]) == num(v))) for k, v in want.items() if v is not None))
    c.ensure("time_constraint_is_the_size_formula", num(stored[0]) == size_formula(dur.z, dt.z, incl.z))
    # dimensionality a tensor needs: strict counts positive and negative indices separately, non-strict takes the larger reach
    c.ensure("dimensionality_follows_the_strict_flag", num(c.getattr(rec, "dimensionality")) == (2 if not strict else 2))
    c.canary("canary_always_strict", z3.BoolVal(c.getattr(rec, "strict") is True))


@contract(P, "RecordTensor.reconstrain[storage not initialised yet]", [(INF, "RecordTensor.reconstrain"), (INF, "ShapedTensor.reconstrain")], min_obligations=2)
def record_reconstrain_uninit(c):
    """adding, editing and removing a constraint on an observation dimension never fails merely because the storage is not
    initialised yet (None, or the empty tensor the reducers start from): the bookkeeping is updated - shifted past the
    time axis - and the time constraint is left alone"""
    storage = c.choice("storage", ["none", "empty"])
    owner, rec, dt, dur, incl, N0, ptr, D = build(c, storage)
    size = c.int("size")
    c.require(size >= 1)
    dim = c.choice("dim", [0, -1])
    out = c.outcome(c.getattr(rec, "reconstrain"), dim, size)
    c.expect_return(out, "adding_a_constraint_does_not_fail")
    if not out.ok:
        return
    key = dim + 1 if dim >= 0 else dim
    cons = owner.fields["_x_constraints"]
    c.ensure("constraint_recorded_past_the_time_axis", key in cons and z3.is_true(z3.simplify(num(cons[key]) == size.z)))
    c.ensure("time_constraint_untouched", num(cons[0]) == num(N0))
    recorded = key in cons
    out2 = c.outcome(c.getattr(rec, "reconstrain"), dim, None)
    c.expect_return(out2, "removing_it_again_does_not_fail")
    c.ensure("constraint_removed", key not in owner.fields["_x_constraints"])
    c.canary("canary_nothing_recorded", z3.BoolVal(not recorded))

MUTANTS = [
    dict(file=INF, func="RecordTensor.reconstrain", old="        if not self._ignore(self.__data):\n            self.align()", new="        if self.__data is not None:\n            self.align()", contracts=["RecordTensor.reconstrain[storage not initialised yet]"], name="seed C13g: reconstrain aligns (and fails on) empty storage"),
    dict(file=INF, func="RecordTensor.__init__", old="            strict=strict,\n            live=live,", new="            live=live,", contracts=["RecordTensor.__init__[configuration reaches the base class]"], name="seed C13f: strict flag not forwarded to the base class"),
    dict(file=INF, func="_constraints_consistent", old="        elif hypoth[dim] == size:\n            continue\n", new="", contracts=["_constraints_consistent"], name="seed C13e: a dimension named twice is a conflict even when the sizes agree"),
    dict(file=INF, func="RecordTensor.duration@setter", old='        value = argtest.gte("duration", value, 0, float)\n', new='        value = argtest.gte("duration", value, 0, float)\n        if value == self.__duration:\n            return\n', contracts=["RecordTensor.inclusive@setter", "RecordTensor.duration@setter"], name="seed C13b/C14b: duration setter returns early when unchanged (the inclusive setter relies on it to resize)"),
    dict(file=INF, func="RecordTensor.dt@setter", old="size = max(math.ceil(self.__duration / self.__dt) + self.__inclusive, 1)", new="size = max(math.ceil(self.__duration / self.__dt), 1) + self.__inclusive", contracts=["RecordTensor.dt@setter"], name="seed C13: inclusive outside max()"),
    dict(file=INF, func="RecordTensor.dt@setter", old="size = max(math.ceil(self.__duration / self.__dt) + self.__inclusive, 1)", new="size = max(round(self.__duration / self.__dt) + self.__inclusive, 1)", contracts=["RecordTensor.dt@setter"], name="seed C14: round instead of ceil"),
    dict(file=INF, func="RecordTensor.duration@setter", old="                if not self._ignore(self.__data):\n                    self.align(0)", new="                self.align(0)", contracts=["RecordTensor.duration@setter", "RecordTensor.inclusive@setter"], name="D4 regression: align on uninitialised storage"),
    dict(file=INF, func="ShapedTensor.__make_compatible", old="slices[dim] = slice(tensor.shape[dim] - size, None)", new="slices[dim] = slice(None, size)", contracts=["RecordTensor.duration@setter"]),
    dict(file=INF, func="ShapedTensor.__make_compatible", old="return torch.cat((zeros(tensor, shape=shape), tensor), dim)", new="return torch.cat((tensor, zeros(tensor, shape=shape)), dim)", contracts=["RecordTensor.duration@setter"]),
    dict(file=INF, func="RecordTensor.duration@setter", old="math.ceil(self.__duration / self.__dt) + self.__inclusive", new="math.floor(self.__duration / self.__dt) + self.__inclusive", contracts=["RecordTensor.duration@setter"]),
]
ASSUMPTIONS = [
    "A1: duration/dt is evaluated in exact real arithmetic (non-representable ratios are exercised by the bounded stand-in)",
    "class invariant assumed on entry: recordsz = max(ceil(duration/dt)+inclusive, 1) (established by the constructor, proved preserved here)",
]


@contract(P, "ShapedTensor.reconstrain[bookkeeping]", [(INF, "ShapedTensor.reconstrain"), (INF, "ShapedTensor.valid"), (INF, "_constraints_compatible"), (INF, "_constraint_dimensionality"), (INF, "_constraints_consistent")])
def bookkeeping(c):
    """add / remove / edit of constraints on a rank-3 tensor with symbolic sizes (dims enumerated, sizes symbolic):
    refusals leave constraints and data untouched, removal never assigns data, a tensor reported valid satisfies
    every constraint."""
    it = c.interp
    mod = repo.load_module(INF)
    Module = it.classv(mod.classes["Module"])
    ST = it.classv(mod.classes["ShapedTensor"])
    s = [c.int(f"s{i}") for i in range(3)]
    c.require(*[x >= 1 for x in s])
    from pyvc.tensor import T

    strict = c.choice("strict", [True, False])
    storage = c.choice("storage", ["tensor", "none"])
    data = T(z3.Real("v"), "float", None, None, tz.Shape(tuple(s))) if storage == "tensor" else None
    d0 = c.choice("existing_dim", [0, -1, 1])
    s_exist = s[d0] if storage == "tensor" else c.int("c0")
    c.require(s_exist >= 0)
    owner = it.instantiate(Module, [], {})
    st = it.instantiate(ST, [owner, "x", data, {d0: s_exist}], {"strict": strict})
    op = c.choice("op", ["add", "remove_present", "remove_absent", "edit_same_size", "edit_other_size_ignored"])
    before = dict(owner.fields["_x_constraints"])
    owner.writes.clear()
    newdim = c.choice("new_dim", [2, -2, -3]) if op == "add" else None
    size = c.int("size")
    c.require(size >= 0)
    if op == "add":
        out = c.outcome(c.getattr(st, "reconstrain"), newdim, size)
    elif op == "remove_present":
        out = c.outcome(c.getattr(st, "reconstrain"), d0, None)
    elif op == "remove_absent":
        out = c.outcome(c.getattr(st, "reconstrain"), 2 if d0 != 2 else 0, None)
    elif op == "edit_same_size":
        out = c.outcome(c.getattr(st, "reconstrain"), d0, s_exist)
    else:
        if storage == "tensor":
            return
        out = c.outcome(c.getattr(st, "reconstrain"), d0, size)
    after = owner.fields["_x_constraints"]
    same_data = owner.fields.get("_x_data") is data
    if out.raised:
        c.ensure("refusal_has_no_side_effects", after == before and same_data and "_x_data" not in owner.writes)
        if op == "remove_absent":
            c.ensure("removing_unconstrained_dim_is_value_error", out.raised == "ValueError")
        if op in ("remove_present", "edit_same_size", "edit_other_size_ignored"):
            c.ensure("must_not_be_refused", False)
        if op == "add" and storage == "tensor":
            nd = newdim if newdim >= 0 else 3 + newdim
            keys = {d0, newdim}
            need = (max(max(keys) + 1, 0) - min(min(keys), 0)) if strict else max(max(keys) + 1, abs(min(keys)))
            c.ensure("add_refused_only_when_incompatible", z3.Or(size.z != s[nd].z, need > 3))
        return
    c.ensure("data_never_assigned", same_data and "_x_data" not in owner.writes)
    if op == "add":
        c.ensure("constraint_added", set(after) == {d0, newdim} and after[newdim] is size)
        if storage == "tensor":
            nd = newdim if newdim >= 0 else 3 + newdim
            keys = {d0, newdim}
            need = (max(max(keys) + 1, 0) - min(min(keys), 0)) if strict else max(max(keys) + 1, abs(min(keys)))
            c.ensure("accepted_only_if_tensor_satisfies_it", z3.And(size.z == s[nd].z, need <= 3))
    elif op == "remove_present":
        c.ensure("constraint_removed", d0 not in after)
    elif op == "edit_same_size":
        c.ensure("unchanged", set(after) == {d0})
    else:
        c.ensure("size_updated_while_uninitialised", after[d0] is size)
    valid = c.getattr(st, "valid")
    if storage == "tensor" and c.interp.truth(valid):
        conj = []
        for d, sz in after.items():
            nd = d if d >= 0 else 3 + d
            conj.append(num(sz) == s[nd].z)
        c.ensure("valid_implies_every_constraint_satisfied", z3.And(*conj) if conj else True)
    c.canary("canary_impossible", s[0].z < 0)
