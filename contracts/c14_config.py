"""C14 - configuration-path independence: a component configured by setters reports that configuration, sizes its
histories like a freshly constructed component with the same configuration, and one setter never changes another
attribute's reported value.  Method: build TWO real components symbolically -- A(cfg0) then setters to cfg1, and
B(cfg1) -- and compare every configuration field of every registered record/tensor."""
from __future__ import annotations

import z3

from pyvc import repo
from pyvc.harness import contract
from pyvc.models import Model
from pyvc.sym import SV, as_bool, num
from pyvc.tensor import T

P = "C14"
SC = "inferno/neural/synapses/current.py"
SE = "inferno/neural/synapses/expcurrent.py"
NB = "inferno/neural/base.py"
NMX = "inferno/neural/mixins.py"
RB = "inferno/observe/reducers/base.py"
RG = "inferno/observe/reducers/general.py"
RT = "inferno/observe/reducers/trace.py"
NL = "inferno/neural/neurons/linear.py"


def cfg_fields(obj):
    """configuration-bearing fields of every record/tensor registered on the component"""
    out = {}
    for k, v in obj.fields.items():
        if k.endswith(("_dt", "_duration", "_inclusive")) and k.startswith("_"):
            out[k] = v
        if k.endswith("_constraints") and isinstance(v, dict):
            for d, s in v.items():
                out[f"{k}[{d}]"] = s
        if k.endswith("_data") and isinstance(v, T):
            out[k + ".dtype"] = {"bool": 0, "int": 1, "float": 2}.get(v.dtype, 3)  # a resize must not change what the storage holds
            out[k + ".tlen"] = v.tlen
            if v.eshape is not None:
                for i, it in enumerate(v.eshape.items):
                    out[f"{k}.eshape[{i}]"] = it
    return out


def same(a, b):
    if a is None or b is None:
        return a is b
    if isinstance(a, bool) and isinstance(b, bool):
        return a == b
    if (isinstance(a, SV) and a.is_bool) or (isinstance(b, SV) and b.is_bool) or isinstance(a, bool) or isinstance(b, bool):
        return as_bool(a) == as_bool(b)
    return num(a) == num(b)


def derived_scalars(obj):
    """plain numeric attributes a constructor derives from the configuration (e.g. the cached `decay = exp(-dt / tc)` of
    the trace reducers): a setter must leave them as a fresh component of the new configuration has them"""
    out = {}
    for k, v in obj.fields.items():
        if k.startswith("_") or isinstance(v, bool):
            continue
        if isinstance(v, (int, float)) or (isinstance(v, SV) and not v.is_bool):
            out[k] = v
    return out


def compare(c, A, B, label):
    da, db = derived_scalars(A), derived_scalars(B)
    if da or db:
        c.ensure(f"{label}:same_derived_attributes", sorted(da) == sorted(db))
        conj = [same(da[k], db[k]) for k in da if k in db]
        c.ensure(f"{label}:derived_attributes_as_fresh", z3.And(*[x if not isinstance(x, bool) else z3.BoolVal(x) for x in conj]) if conj else True)
    fa, fb = cfg_fields(A), cfg_fields(B)
    c.ensure(f"{label}:same_registered_fields", sorted(fa) == sorted(fb))
    conj = [same(fa[k], fb[k]) for k in fa if k in fb]
    c.ensure(f"{label}:histories_sized_and_configured_as_fresh", z3.And(*[x if not isinstance(x, bool) else z3.BoolVal(x) for x in conj]) if conj else True)


SYN = {
    "DeltaCurrent": (SC, dict(spike_charge=1.5)),
    "DeltaPlusCurrent": (SC, dict(spike_charge=1.5)),
    "SingleExponentialCurrent": (SE, dict(spike_charge=1.5, time_constant=4.0)),
    "DoubleExponentialCurrent": (SE, dict(spike_charge=1.5, tc_decay=6.0, tc_rise=2.0)),
}


def _mk_syn(cls):
    file, kw = SYN[cls]

    @contract(P, f"{cls}[setters_vs_constructor]", [(NB, "InfernoSynapse.dt@setter"), (NB, "InfernoSynapse.delay@setter"), (NMX, "DelayedMixin.dt@setter"), (NMX, "DelayedMixin.delay@setter"), (NMX, "BatchMixin.batchsz@setter"), (NMX, "DelayedMixin.add_delayed"), (NMX, "BatchMixin.add_batched"), (NB, "InfernoSynapse.inplace@setter")], tags=("config",))
    def syn(c, cls=cls):
        dt0, dl0, dt1, dl1 = c.real("dt0"), c.real("delay0"), c.real("dt1"), c.real("delay1")
        b0, b1 = c.int("batch0"), c.int("batch1")
        c.require(dt0 > 0, dt1 > 0, dl0 >= 0, dl1 >= 0, b0 >= 1, b1 >= 1)
        cv = c.interp.classv(repo.load_module(file).classes[cls])
        A = c.call(cv, (3,), dt0, delay=dl0, batch_size=b0, inplace=False, **kw)
        order = c.choice("setter_order", ["dt,delay,batch", "batch,delay,dt", "delay"])
        reported0 = dict(dt=c.getattr(A, "dt"), delay=c.getattr(A, "delay"), batchsz=c.getattr(A, "batchsz"), inplace=c.getattr(A, "inplace"))
        newv = dict(dt=dt1, delay=dl1, batch=b1)
        names = order.split(",")
        for n in names:
            attr = "batchsz" if n == "batch" else n
            before = {k: c.getattr(A, k) for k in ("dt", "delay", "batchsz", "inplace")}
            c.setattr(A, attr, newv[n])
            after = {k: c.getattr(A, k) for k in ("dt", "delay", "batchsz", "inplace")}
            c.ensure(f"{attr}:reports_back", same(after[attr], newv[n]))
            c.ensure(f"{attr}:other_attributes_unchanged", z3.And(*[z3.BoolVal(True)] + [same(after[k], before[k]) if not isinstance(same(after[k], before[k]), bool) else z3.BoolVal(same(after[k], before[k])) for k in after if k != attr]))
        cfg1 = dict(dt=dt1 if "dt" in names else dt0, delay=dl1 if "delay" in names else dl0, batch=b1 if "batch" in names else b0)
        B = c.call(cv, (3,), cfg1["dt"], delay=cfg1["delay"], batch_size=cfg1["batch"], inplace=False, **kw)
        compare(c, A, B, "synapse")
        c.setattr(A, "inplace", True)
        c.ensure("inplace:reports_back_and_isolated", z3.And(c.getattr(A, "inplace") is True, same(c.getattr(A, "dt"), cfg1["dt"]), same(c.getattr(A, "delay"), cfg1["delay"])))
        c.canary("canary_impossible", dt0.z < 0)


for _s in SYN:
    _mk_syn(_s)


def _mk_reducer(cls, file, args, kwargs):
    own = [(file, f"{cls}.dt@setter"), (file, f"{cls}.__init__")] if file == RT else []
    @contract(P, f"{cls}[setters_vs_constructor]", [(RB, "RecordReducer.dt@setter"), (RB, "RecordReducer.duration@setter"), (RB, "RecordReducer.inplace@setter"), (RB, "RecordReducer.add_record")] + own, tags=("config",))
    def red(c, cls=cls):
        dt0, du0, dt1, du1 = c.real("dt0"), c.real("dur0"), c.real("dt1"), c.real("dur1")
        c.require(dt0 > 0, dt1 > 0, du0 >= 0, du1 >= 0)
        incl = c.choice("inclusive", [False, True])
        cv = c.interp.classv(repo.load_module(file).classes[cls])
        mk = lambda dt, du: c.call(cv, dt, *args, duration=du, inclusive=incl, **kwargs)  # noqa: E731
        A = mk(dt0, du0)
        order = c.choice("setter_order", ["dt,duration", "duration,dt", "duration"])
        newv = dict(dt=dt1, duration=du1)
        names = order.split(",")
        for n in names:
            before = {k: c.getattr(A, k) for k in ("dt", "duration", "inplace")}
            c.setattr(A, n, newv[n])
            after = {k: c.getattr(A, k) for k in ("dt", "duration", "inplace")}
            c.ensure(f"{n}:reports_back", same(after[n], newv[n]))
            oth = [same(after[k], before[k]) for k in after if k != n]
            c.ensure(f"{n}:other_attributes_unchanged", z3.And(*[x if not isinstance(x, bool) else z3.BoolVal(x) for x in oth]))
        B = mk(dt1 if "dt" in names else dt0, du1 if "duration" in names else du0)
        compare(c, A, B, "reducer")
        c.canary("canary_impossible", dt0.z < 0)


_mk_reducer("PassthroughReducer", RG, (), {})
_mk_reducer("CumulativeTraceReducer", RT, (3.0, 0.5, True), {})
_mk_reducer("NearestTraceReducer", RT, (3.0, 0.5, True), {})
_mk_reducer("ScaledNearestTraceReducer", RT, (3.0, 0.5, 2.0, Model(lambda it, x: x, "criterion")), {})
_mk_reducer("ScaledCumulativeTraceReducer", RT, (3.0, 0.5, 2.0, Model(lambda it, x: x, "criterion")), {})
_mk_reducer("ConditionalNearestTraceReducer", RT, (3.0, 0.5, 2.0), {})
_mk_reducer("ConditionalCumulativeTraceReducer", RT, (3.0, 0.5, 2.0), {})
_mk_reducer("EventReducer", RG, (Model(lambda it, x: x, "criterion"),), {})


@contract(P, "LIF[setters_vs_constructor]", [(NL, "LIF.dt@setter"), (NMX, "BatchMixin.batchsz@setter")], tags=("config",))
def lif(c):
    dt0, dt1 = c.real("dt0"), c.real("dt1")
    b0, b1 = c.int("batch0"), c.int("batch1")
    c.require(dt0 > 0, dt1 > 0, b0 >= 1, b1 >= 1)
    cv = c.interp.classv(repo.load_module(NL).classes["LIF"])
    kw = dict(rest_v=-60.0, reset_v=-65.0, thresh_v=-50.0, refrac_t=2.0, time_constant=20.0, resistance=1.0)
    A = c.call(cv, (3,), dt0, batch_size=b0, **kw)
    c.setattr(A, "dt", dt1)
    c.ensure("dt:reports_back", same(c.getattr(A, "dt"), dt1))
    c.ensure("dt:batch_unchanged", same(c.getattr(A, "batchsz"), b0))
    # dirty state first: the batch-size setter must leave EVERY sample (kept or new) in the rest state a fresh
    # component of that batch size starts from
    A.fields["_voltage__data"] = c.pw("V_dirty", "float", eshape=A.fields["_voltage__data"].eshape)
    A.fields["_refrac__data"] = c.pw("R_dirty", "float", eshape=A.fields["_refrac__data"].eshape)
    c.setattr(A, "batchsz", b1)
    from pyvc import tensor as _tz

    c.ensure("batchsz:every_sample_at_rest_like_a_fresh_component", z3.And(_tz.coerce(c.getattr(A, "voltage").f, "float") == -60, _tz.coerce(c.getattr(A, "refrac").f, "float") == 0))
    c.ensure("batchsz:reports_back", same(c.getattr(A, "batchsz"), b1))
    c.ensure("batchsz:dt_unchanged", same(c.getattr(A, "dt"), dt1))
    B = c.call(cv, (3,), dt1, batch_size=b1, **kw)
    compare(c, A, B, "neuron")
    c.ensure("state_shapes_follow_batch", z3.And(same(A.fields["_voltage__data"].eshape.items[0], b1), same(A.fields["_refrac__data"].eshape.items[0], b1)))
    c.canary("canary_impossible", dt0.z < 0)


LIN = "inferno/neural/connections/linear.py"


@contract(P, "Connection[setters_delegate_to_the_synapse]", [(NB, "Connection.__init__"), (NB, "Connection.synapse"), (NB, "Connection.synapse@setter"), (NB, "Connection.dt"), (NB, "Connection.dt@setter"), (NB, "Connection.batchsz"), (NB, "Connection.batchsz@setter"), (NB, "Connection.delayedby")], tags=("config",))
def connection_setters(c):
    """a connection has no configuration of its own: step time, batch size and maximum delay are the synapse's, the
    setters write through, and replacing the synapse replaces THE registered sub-module (so that the layer, the
    checkpoint and every later forward see the new one)"""
    from . import layoutfree as lf

    log = []
    lf.install(c)
    dt0, dt1 = c.real("dt0"), c.real("dt1")
    B0, B1 = c.int("B0"), c.int("B1")
    md = c.real("max_delay")
    c.require(dt0 > 0, dt1 > 0, B0 >= 1, B1 >= 1, md > 0)
    kind = c.choice("connection", ["LinearDense", "LinearDirect", "LinearLateral"])
    cv = c.interp.classv(repo.load_module(LIN).classes[kind])
    delayed = c.choice("delayed", [True, False])
    args = ((4,), (3,), dt0) if kind == "LinearDense" else ((4,), dt0)
    conn = c.call(cv, *args, synapse=lf.synapse_ctor(c, log), delay=(md if delayed else None), batch_size=B0)
    syn = c.getattr(conn, "synapse")
    c.ensure("reports_the_synapse_configuration", z3.And(num(c.getattr(conn, "dt")) == dt0.z, num(c.getattr(conn, "batchsz")) == B0.z, (num(c.getattr(conn, "delayedby")) == md.z) if delayed else z3.BoolVal(c.getattr(conn, "delayedby") is None)))
    c.setattr(conn, "dt", dt1)
    c.setattr(conn, "batchsz", B1)
    c.ensure("setters_write_through_to_the_synapse", z3.And(num(syn.fields["dt"]) == dt1.z, num(syn.fields["batchsz"]) == B1.z))
    c.ensure("and_report_back", z3.And(num(c.getattr(conn, "dt")) == dt1.z, num(c.getattr(conn, "batchsz")) == B1.z))
    new = c.call(lf.synapse_ctor(c, log), 4, dt1, md, B1)
    before = set(conn.fields)
    c.setattr(conn, "synapse", new)
    c.ensure("synapse_replaced_in_place", c.getattr(conn, "synapse") is new and conn.fields.get("synapse_") is new)
    c.ensure("no_stray_attribute_created", set(conn.fields) == before)
    x = c.pw("x")
    log.clear()
    c.call(c.getattr(conn, "forward"), T(x.f, "float", None, None, None))
    c.ensure("forward_steps_the_new_synapse", len([e for e in log if e[0] == "call"]) == 1 and new.fields["current"] is not None and syn.fields["current"] is not new.fields["current"])
    c.canary("canary_dt_not_written", num(syn.fields["dt"]) == dt0.z)


# a RecordTensor is itself a configurable component: its dt / duration / inclusive setter contracts (C13) belong here too
from pyvc.harness import REGISTRY as _REG  # noqa: E402
from . import c13_resize as _c13  # noqa: E402,F401

for _cd in list(_REG.get("C13", [])):
    if "setter" in _cd.name and not any(x.name == _cd.name for x in _REG.get("C14", [])):
        contract("C14", _cd.name, list(_cd.targets), min_obligations=_cd.min_obligations)(_cd.fn)


ASSUMPTIONS = [
    "equality is established on configuration fields (dt, duration, inclusive, constraints, storage sizes) of every registered record/tensor; equal outputs from a cleared state then follow from determinism of the step functions (C03/C04/C07 contracts) and clear() = constructor state (C17/C03/C04)",
    "resizing the batch dimension is modelled by keeping the fixed element position among the surviving elements (values) and updating the element shape; new batch entries are zero (fresh selector)",
    "Connection-level setters (synapse, dt, batchsz on LinearDense/Conv2D) and VirtualTensor.to(dtype): bounded stand-in only",
]

MUTANTS = [
    dict(file="inferno/core/infrastructure.py", func="ShapedTensor.__make_compatible", old="            return torch.cat((zeros(tensor, shape=shape), tensor), dim)", new="            return torch.cat((torch.zeros(shape, device=tensor.device), tensor), dim)", contracts=["DeltaCurrent[setters_vs_constructor]"], name="seed C14g: growing a history pads with float32 zeros (boolean spike histories turn into floats)"),
    dict(file=RT, func="CumulativeTraceReducer.dt@setter", old="        FoldReducer.dt.fset(self, value)\n        self.decay = exp(-self.dt / self.time_constant)", new="        self.decay = exp(-self.dt / self.time_constant)\n        FoldReducer.dt.fset(self, value)", contracts=["CumulativeTraceReducer[setters_vs_constructor]"], name="seed C14e: cached decay computed before the new step time is stored"),
    dict(file=NB, func="InfernoNeuron.batchsz@setter", old="        BatchShapeMixin.batchsz.fset(self, value)\n        self.clear()", new="        self.clear()\n        BatchShapeMixin.batchsz.fset(self, value)", contracts=["LIF[setters_vs_constructor]"], name="seed C11d: neuron state cleared BEFORE the batch resize (new samples start at 0 V instead of rest)"),
    dict(file=NB, func="Connection.synapse@setter", old="self.synapse_ = value", new="self.synapses = value", contracts=["Connection[setters_delegate_to_the_synapse]"], name="D13 regression"),
    dict(file=NB, func="Connection.batchsz@setter", old="self.synapse.batchsz = value", new="pass", contracts=["Connection[setters_delegate_to_the_synapse]"]),
    dict(file=NMX, func="DelayedMixin.delay@setter", old="getattr(self, cstr).duration = value", new="getattr(self, cstr).duration = value + self.__step_time", contracts=["DeltaCurrent[setters_vs_constructor]", "SingleExponentialCurrent[setters_vs_constructor]"], name="D11 regression: delay setter oversizes records"),
    dict(file=RB, func="RecordReducer.duration@setter", old="            self.__duration = value", new="            self.__step_time = value", contracts=["PassthroughReducer[setters_vs_constructor]"], name="D12 regression: duration setter overwrites step time"),
    dict(file=NMX, func="DelayedMixin.dt@setter", old="            self.__step_time = value", new="            pass", contracts=["DeltaCurrent[setters_vs_constructor]"]),
    dict(file=NMX, func="BatchMixin.batchsz@setter", old="getattr(self, cstr).reconstrain(0, value)", new="pass", contracts=["DeltaCurrent[setters_vs_constructor]", "LIF[setters_vs_constructor]"]),
]
