"""C19 - spike encoders.  Deductive part: Bernoulli encoders (zero silence, boolean, steps rows, time first); the
refractory Poisson encoder's interval construction (increments = draw*scale + refrac/dt with the given refrac, number of
bins) up to the cumulative sum; the floor-gap lemma that turns those increments into the minimum spike distance.
Everything that depends on the sampled schedule as a whole (cumsum + scatter over a symbolic number of bins, the
online generators, Poisson-interval silence) is bounded-checked over seeds in native/c19.py."""
from __future__ import annotations

import ast

import z3

from pyvc import tensor as tz
from pyvc.harness import contract
from pyvc.models import Model
from pyvc.sym import SV, SymRaise, Unsupported, ceil_real, cur, floor_real, num
from pyvc.tensor import T

P = "C19"
EN = "inferno/neural/functional/encoding.py"


def _record_bernoulli(c):
    """wrap the torch.bernoulli model so that the generator each draw is given is recorded"""
    tn = c.interp.torch_ns._table
    orig = tn["bernoulli"]
    gens = []

    def rec(p, generator=None):
        gens.append(generator)
        return orig(p)

    tn["bernoulli"] = rec
    return gens, (lambda: tn.__setitem__("bernoulli", orig))


@contract(P, "homogenous_poisson_bernoulli_approx", [(EN, "homogenous_poisson_bernoulli_approx")])
def bernoulli(c):
    x = c.pw("intensity_hz")
    steps = c.int("steps")
    dt = c.real("dt")
    t = c.int("t")
    c.require(x.f >= 0, steps >= 1, dt > 0, 0 <= t, t < steps)
    gens, undo = _record_bernoulli(c)
    try:
        out = c.outcome(c.function(EN, "homogenous_poisson_bernoulli_approx"), x, steps, dt, generator="<the generator>")
    finally:
        undo()
    c.expect_return(out)
    r = out.value
    c.ensure("every_draw_uses_the_given_generator", len(gens) >= 1 and all(g == "<the generator>" for g in gens))
    c.ensure("boolean", r.dtype == "bool")
    c.ensure("time_first_with_steps_rows", z3.And(r.tlen is not None and r.taxis == "first", num(r.tlen) == steps.z))
    c.ensure("silent_at_zero_intensity", z3.Implies(x.f == 0, z3.Not(r.at(t))))
    c.canary("canary_always_silent", z3.Not(r.at(t)))


@contract(P, "inhomogeneous_poisson_bernoulli_approx", [(EN, "inhomogeneous_poisson_bernoulli_approx")])
def bernoulli_inhom(c):
    x = c.pw("intensity_hz")
    dt = c.real("dt")
    c.require(x.f >= 0, dt > 0)
    gens, undo = _record_bernoulli(c)
    try:
        out = c.outcome(c.function(EN, "inhomogeneous_poisson_bernoulli_approx"), x, dt, generator="<the generator>")
    finally:
        undo()
    c.expect_return(out)
    c.ensure("every_draw_uses_the_given_generator", len(gens) >= 1 and all(g == "<the generator>" for g in gens))
    r = out.value
    c.ensure("boolean", r.dtype == "bool")
    c.ensure("silent_at_zero_intensity", z3.Implies(x.f == 0, z3.Not(r.f)))
    c.ensure("certain_at_saturating_intensity", z3.Implies(x.f / 1000 * dt.z >= 1, r.f))
    c.canary("canary_always_silent", z3.Not(r.f))


class _Stop(Exception):
    pass


@contract(P, "homogeneous_poisson_exp_interval[intervals]", [(EN, "homogeneous_poisson_exp_interval")])
def refractory_increments(c):
    """symbolic execution of the real function up to the cumulative sum: the j-th inter-spike interval (in steps) is
    draw_j * scale + rho with rho = refrac/dt for the GIVEN refrac (dt when None) and scale = 1000/(f dt) (- rho when
    compensating); nbins = floor(steps / max(rho, 1))."""
    f_hz = c.pw("f_hz")
    steps, j = c.int("steps"), c.int("j")
    dt = c.real("dt")
    rmode = c.choice("refrac", ["none", "value"])
    refrac = c.real("refrac") if rmode == "value" else None
    comp = c.choice("compensate", [True, False])
    c.require(f_hz.f > 0, steps >= 1, dt > 0, j >= 0)
    if refrac is not None:
        c.require(refrac >= 0)
    XI = c.func("xi", z3.IntSort(), z3.RealSort())
    box = {}

    def exponential_(it, self_t, lambd=1.0, generator=None):
        box["generator"] = generator
        box["nbins"] = self_t.tlen
        return T(lambda t: XI(t), "float", self_t.tlen, "first", self_t.eshape)

    def cumsum(it, self_t, dim=0):
        box["inc"] = self_t
        raise _Stop()

    T.exponential_ = lambda self, lambd=1.0, generator=None: exponential_(None, self, lambd, generator)
    T.cumsum = lambda self, dim=0: cumsum(None, self, dim)
    try:
        try:
            c.call(c.function(EN, "homogeneous_poisson_exp_interval"), f_hz, steps, dt, refrac=refrac, compensate=comp, generator="<the generator>")
        except _Stop:
            pass
    finally:
        del T.exponential_
        T.cumsum = lambda self, dim=0: (_ for _ in ()).throw(__import__("pyvc.sym", fromlist=["Unsupported"]).Unsupported("cumsum"))
    ok = "inc" in box
    c.ensure("reaches_cumulative_sum", ok)
    c.ensure("the_draw_uses_the_given_generator", box.get("generator") == "<the generator>")
    if not ok:
        return
    rho = (refrac.z if refrac is not None else dt.z) / dt.z
    scale = 1000 / dt.z / f_hz.f - (rho if comp else 0)
    c.ensure("interval_is_draw_times_scale_plus_refractory_steps", box["inc"].at(j) == XI(j.z) * scale + rho)
    mx = z3.If(rho >= 1, rho, z3.RealVal(1))
    c.ensure("number_of_bins", num(box["nbins"]) == floor_real(z3.ToReal(steps.z) / mx))
    c.canary("canary_refrac_ignored", z3.And(box["inc"].at(j) == XI(j.z) * (1000 / dt.z / f_hz.f - (1 if comp else 0)) + 1, rho != 1))


@contract(P, "lemma.floor_gap", [(EN, "homogeneous_poisson_exp_interval")], tags=("lemma",))
def floor_gap(c):
    """positions q = floor(min(S, steps)) with S' = S + (xi*scale + rho), xi*scale >= 0 and rho a whole number of steps:
    two consecutive retained positions (both < steps) differ by at least rho.  Induction over j extends this to any two
    spikes of one element (monotone cumulative sum)."""
    S, inc, steps = c.real("S"), c.real("draw_times_scale"), c.int("steps")
    rho = c.int("rho")
    c.require(inc >= 0, rho >= 0, S >= 0, steps >= 1)
    S2 = S.z + inc.z + z3.ToReal(rho.z)
    cl = lambda v: z3.If(v <= z3.ToReal(steps.z), v, z3.ToReal(steps.z))  # noqa: E731
    q1, q2 = floor_real(cl(S.z)), floor_real(cl(S2))
    c.ensure("consecutive_positions_at_least_rho_apart", z3.Implies(z3.And(q2 < steps.z), q2 - q1 >= rho.z))
    c.ensure("positions_monotone", q2 >= q1)
    c.ensure("clamped_positions_discarded_row", z3.Implies(S2 >= z3.ToReal(steps.z), q2 == steps.z))
    c.canary("canary_gap_without_rho", z3.And(q2 - q1 >= rho.z + 1, q2 < steps.z))


ASSUMPTIONS = [
    "RNG draws are universally quantified: exponential draws xi_j are arbitrary reals (>= 0 used only in the gap lemma), Bernoulli draws arbitrary booleans constrained only by p = 0 => never, p >= 1 => always",
    "A1 real arithmetic: refrac/dt exact (the IEEE behaviour of refrac // dt or refrac / dt for non-representable dt is exercised by the bounded stand-in with dt = 0.1)",
    "NOT proved (bounded over seeds only): reproducibility beyond generator forwarding (torch RNG determinism is trusted)",
    "offline refractory encoder, whole raster for any number of steps: cumsum is an uninterpreted prefix sum; after the solver has proved every interval >= rho at a fresh index, the instances of lean/ClosedForms.lean prefix_sum_gap / prefix_sum_lower at the two scatter witnesses are assumed (S(w2) - S(w1) >= (w2 - w1) rho, S(w) >= (w + 1) rho); scatter_ as for the Poisson-interval encoder",
    "offline Poisson-interval encoder, zero silence for any number of steps: cumsum is an uninterpreted prefix sum that is 0 for an identically-zero summand (the solver proves the summand is zero at a fresh index), scatter_ is 'row written => some bin carries that index' with a Skolem witness; masked row indexing res[:, mask] is the arbitrary selected element",
    "online generators: for any number of steps by loop contracts (one arbitrary iteration of the real body + invariant; lean invariant_fold is the induction); the [steps<=3] contracts are kept as unrolled cross-checks of the loop-contract machinery",
]


@contract(P, "homogenous_poisson_bernoulli_approx_online[steps<=3]", [(EN, "homogenous_poisson_bernoulli_approx_online")])
def bernoulli_online(c):
    """the generator form (evaluated eagerly): for a CONCRETE number of steps (1, 2, 3 - the loop is unrolled; the
    intensities, step time and every draw stay symbolic) it yields exactly that many boolean slices, each silent where
    the intensity is zero and firing surely at saturating intensity"""
    x = c.pw("intensity_hz")
    dt = c.real("dt")
    steps = c.choice("steps", [1, 2, 3])
    c.require(x.f >= 0, dt > 0)
    gens, undo = _record_bernoulli(c)
    try:
        out = c.outcome(c.function(EN, "homogenous_poisson_bernoulli_approx_online"), x, steps, dt, generator="<the generator>")
    finally:
        undo()
    c.expect_return(out)
    slices = list(out.value)
    c.ensure("every_draw_uses_the_given_generator", len(gens) == steps and all(g == "<the generator>" for g in gens))
    c.ensure("yields_exactly_steps_slices", len(slices) == steps)
    c.ensure("every_slice_boolean_with_the_input_layout", all(sl.dtype == "bool" and sl.tlen is None for sl in slices))
    c.ensure("silent_at_zero_intensity", z3.Implies(x.f == 0, z3.And(*[z3.Not(sl.f) for sl in slices])))
    c.ensure("certain_at_saturating_intensity", z3.Implies(x.f / 1000 * dt.z >= 1, z3.And(*[sl.f for sl in slices])))
    c.canary("canary_always_silent", z3.And(*[z3.Not(sl.f) for sl in slices]))


def _with_draws(c, kind):
    """install per-call fresh non-negative draws for the in-place samplers used by the online encoders; returns an
    uninstaller.  Exponential draws are arbitrary reals >= 0; Poisson draws are arbitrary integers >= 0 that are 0 for
    a zero rate."""
    n = [0]
    tn = c.interp.torch_ns._table
    saved = (getattr(T, "exponential_", None), tn.get("poisson"), tn.get("empty_like"))

    def fresh(tag, dtype="float"):
        n[0] += 1
        d = c.pw(f"{tag}_draw_{n[0]}", dtype)
        c.require(d.f >= 0)
        return d

    gens = []

    def exponential_(self_t, lambd=1.0, generator=None):
        gens.append(generator)
        d = fresh("exp")
        return T(d.f, "float", None, None, self_t.eshape)

    def poisson(rate, generator=None):
        gens.append(generator)
        d = fresh("poisson", "int")
        c.require(z3.Implies(tz.coerce(rate.f, "float") == 0, d.f == 0))
        r = T(tz.coerce(d.f, "float"), "float", None, None, rate.eshape)
        return r

    T.exponential_ = exponential_
    tn["poisson"] = poisson
    tn["empty_like"] = lambda x, **k: T(x.f, x.dtype, None, None, x.eshape)

    def undo():
        if saved[0] is None:
            del T.exponential_
        else:
            T.exponential_ = saved[0]
        for k_, v in (("poisson", saved[1]), ("empty_like", saved[2])):
            if v is None:
                tn.pop(k_, None)
            else:
                tn[k_] = v

    undo.generators = gens
    return undo


@contract(P, "poisson_interval_online[steps<=3]", [(EN, "poisson_interval_online")])
def poisson_online(c):
    """generator form, CONCRETE number of steps (1-3, loop unrolled), everything else symbolic incl. every draw: yields
    that many boolean slices, never a spike where the intensity is zero, at most one spike per step (trivially) and a
    fresh interval is drawn exactly for the elements that fired"""
    x = c.pw("intensity_hz")
    dt = c.real("dt")
    steps = c.choice("steps", [1, 2, 3])
    c.require(x.f >= 0, dt > 0)
    undo = _with_draws(c, "poisson")
    try:
        out = c.outcome(c.function(EN, "poisson_interval_online"), x, steps, dt, generator="<the generator>")
    finally:
        undo()
    c.expect_return(out)
    c.ensure("every_draw_uses_the_given_generator", len(undo.generators) == steps + 1 and all(g == "<the generator>" for g in undo.generators))
    slices = list(out.value)
    c.ensure("yields_exactly_steps_slices", len(slices) == steps)
    c.ensure("every_slice_boolean", all(sl.dtype == "bool" and sl.tlen is None for sl in slices))
    c.ensure("silent_at_zero_intensity", z3.Implies(x.f == 0, z3.And(*[z3.Not(sl.f) for sl in slices])))
    c.canary("canary_always_silent", z3.And(*[z3.Not(sl.f) for sl in slices]))


@contract(P, "homogeneous_poisson_exp_interval_online[steps<=3]", [(EN, "homogeneous_poisson_exp_interval_online")])
def refractory_online(c):
    """generator form, CONCRETE number of steps (2, 3): after a spike the next interval is draw*scale + refrac/dt >= refrac/dt,
    so with a refractory period of at least two (three) steps the next one (two) slices are silent"""
    f_hz = c.pw("f_hz")
    dt = c.real("dt")
    steps = c.choice("steps", [2, 3])
    rmode = c.choice("refrac", ["none", "value"])
    refrac = c.real("refrac") if rmode == "value" else None
    comp = c.choice("compensate", [True, False])
    c.require(f_hz.f > 0, dt > 0)
    rho = (refrac.z if refrac is not None else dt.z) / dt.z
    if refrac is not None:
        c.require(refrac >= 0)
    if comp:
        c.require(f_hz.f * (refrac.z if refrac is not None else dt.z) < 1000)  # the encoder module's own validity test
    undo = _with_draws(c, "exp")
    try:
        out = c.outcome(c.function(EN, "homogeneous_poisson_exp_interval_online"), f_hz, steps, dt, refrac=refrac, compensate=comp, generator="<the generator>")
    finally:
        undo()
    c.expect_return(out)
    c.ensure("every_draw_uses_the_given_generator", len(undo.generators) == steps + 1 and all(g == "<the generator>" for g in undo.generators))
    slices = list(out.value)
    c.ensure("yields_exactly_steps_slices", len(slices) == steps)
    c.ensure("every_slice_boolean", all(sl.dtype == "bool" and sl.tlen is None for sl in slices))
    c.ensure("no_spike_in_the_step_after_a_spike_when_refractory_two_steps", z3.Implies(z3.And(rho >= 2, slices[0].f), z3.Not(slices[1].f)))
    if steps == 3:
        c.ensure("no_spike_in_the_two_steps_after_a_spike_when_refractory_three_steps", z3.Implies(z3.And(rho >= 3, slices[0].f), z3.And(z3.Not(slices[1].f), z3.Not(slices[2].f))))
        c.ensure("second_spike_also_respected", z3.Implies(z3.And(rho >= 2, slices[1].f), z3.Not(slices[2].f)))
    c.canary("canary_never_two_spikes", z3.Not(z3.And(slices[0].f, slices[1].f)))


EP = "inferno/neural/encoders/poisson.py"
ES = "inferno/neural/encoders/special.py"
EM = "inferno/neural/encoders/mixins.py"


def _encoder(cls, file, fn_off, fn_on, refractory):
    @contract(P, f"{cls}.forward", [(file, f"{cls}.__init__"), (file, f"{cls}.forward"), (file, f"{cls}.frequency"), (EM, "StepTimeMixin.__init__"), (EM, "StepTimeMixin.dt"), (EM, "StepMixin.__init__"), (EM, "StepMixin.steps"), (EM, "GeneratorMixin.__init__"), (EM, "GeneratorMixin.generator")] + ([(EM, "RefractoryStepMixin.__init__"), (EM, "RefractoryStepMixin.refrac"), (EM, "RefractoryStepMixin.dt"), (EM, "RefractoryStepMixin.dt@setter")] if refractory else []))
    def enc(c, cls=cls):
        """the encoder module hands the functional encoder exactly its configuration: intensity scaled by the maximum
        frequency, the configured number of steps, step time, (given or derived) refractory period, compensation flag
        and generator - online and offline alike"""
        from pyvc import repo

        steps, dt, freq = c.int("steps"), c.real("dt"), c.real("max_frequency")
        c.require(steps >= 1, dt > 0, freq >= 0)
        gen = "<generator>"
        kw = dict(generator=gen)
        rmode = None
        if refractory:
            rmode = c.choice("refrac", ["none", "given"])
            comp = c.choice("compensate", [True, False])
            refrac = c.real("refrac") if rmode == "given" else None
            if refrac is not None:
                c.require(refrac >= 0)
            kw.update(refrac=refrac, compensate=comp)
        calls = []
        for fname in (fn_off, fn_on):
            def summary(interp, fi, args, kwargs, fname=fname):
                calls.append((fname, args, kwargs))
                return f"<{fname} result>"

            c.interp.summaries[(EN, fname)] = summary
        cv = c.interp.classv(repo.load_module(file).classes[cls])
        e = c.call(cv, steps, dt, freq, **kw)
        x = c.pw("intensity")
        online = c.choice("online", [False, True])
        out = c.outcome(c.getattr(e, "forward"), x, online)
        c.expect_return(out)
        c.ensure("delegates_once_to_the_matching_functional_encoder", len(calls) == 1 and calls[0][0] == (fn_on if online else fn_off) and out.value == f"<{calls[0][0]} result>")
        _f, a, k = calls[0]
        c.ensure("intensity_scaled_by_the_maximum_frequency", len(a) == 1 and a[0].f == freq.z * x.f)
        c.ensure("configured_steps_and_step_time", z3.And(num(k["steps"]) == steps.z, num(k["step_time"]) == dt.z))
        c.ensure("generator_forwarded", k["generator"] == gen)
        if refractory:
            exp_r = dt.z if rmode == "none" else kw["refrac"].z
            c.ensure("refractory_period_given_or_derived_from_dt", (num(k["refrac"]) == exp_r) if k.get("refrac") is not None else z3.BoolVal(False))
            c.ensure("compensation_flag_forwarded", k["compensate"] is kw["compensate"])
            # a later change of the step time moves a DERIVED refractory period with it and leaves a given one alone
            dt2 = c.real("dt2")
            c.require(dt2 > 0)
            c.setattr(e, "dt", dt2)
            c.ensure("derived_refractory_period_follows_dt", num(c.getattr(e, "refrac")) == (dt2.z if rmode == "none" else kw["refrac"].z))
            # a refractory period ASSIGNED later is a given one from then on: it stays when the step time changes again
            r3, dt3 = c.real("refrac_assigned_later"), c.real("dt3")
            c.require(r3 >= 0, dt3 > 0)
            if kw["compensate"]:
                c.require(r3.z * freq.z < 1000)  # the encoder's own refrac-frequency compatibility test
            c.setattr(e, "refrac", r3)
            c.setattr(e, "dt", dt3)
            c.ensure("assigned_refractory_period_is_kept_across_a_dt_change", z3.And(num(c.getattr(e, "refrac")) == r3.z, num(c.getattr(e, "dt")) == dt3.z))
        c.canary("canary_unscaled", z3.And(a[0].f == x.f, freq.z != 1, x.f != 0))

    return enc


_encoder("HomogeneousPoissonEncoder", EP, "homogeneous_poisson_exp_interval", "homogeneous_poisson_exp_interval_online", True)
_encoder("HomogeneousPoissonApproxEncoder", EP, "homogenous_poisson_bernoulli_approx", "homogenous_poisson_bernoulli_approx_online", False)
_encoder("PoissonIntervalEncoder", ES, "poisson_interval", "poisson_interval_online", False)

MUTANTS = [
    dict(file=EN, func="homogeneous_poisson_exp_interval_online", old="                torch.empty_like(intervals[spikes]).exponential_(\n                    1.0, generator=generator\n                )", new="                torch.empty_like(intervals[spikes]).exponential_(1.0)", contracts=["homogeneous_poisson_exp_interval_online[steps<=3]"], name="seed C19d: resampled intervals drawn from the global RNG instead of the given generator"),
    dict(file=EN, func="poisson_interval_online", old="            spikes = torch.logical_and(intervals < 1, mask)", new="            spikes = intervals < 1", contracts=["poisson_interval_online[steps<=3]"], name="seed C19b: online Poisson-interval encoder fires at zero intensity"),
    dict(file=EN, func="homogeneous_poisson_exp_interval_online", old="                * inputs[spikes]\n                + refrac\n            )\n", new="                * inputs[spikes]\n            )\n", contracts=["homogeneous_poisson_exp_interval_online[steps<=3]"], name="online refractory encoder: resampled interval without the refractory offset"),
    dict(file="inferno/neural/encoders/poisson.py", func="HomogeneousPoissonEncoder.forward", old="                refrac=self.refrac,\n                compensate=self.compensated,\n                generator=self.generator,\n            )\n        else:", new="                refrac=None,\n                compensate=self.compensated,\n                generator=self.generator,\n            )\n        else:", contracts=["HomogeneousPoissonEncoder.forward"], name="online encoding ignores the configured refractory period"),
    dict(file="inferno/neural/encoders/mixins.py", func="RefractoryStepMixin.dt@setter", old="        if self.__derive_refrac:\n            self.__refrac_time = StepMixin.dt.fget(self)", new="        pass", contracts=["HomogeneousPoissonEncoder.forward"], name="derived refractory period goes stale when dt changes"),
    dict(file=EN, func="homogeneous_poisson_exp_interval", old="refrac = step_time if refrac is None else refrac", new="refrac = step_time if refrac is None else step_time", contracts=["homogeneous_poisson_exp_interval[intervals]"], name="D19 regression: refrac argument ignored"),
    dict(file=EN, func="homogeneous_poisson_exp_interval", old="            + refrac\n", new="", contracts=["homogeneous_poisson_exp_interval[intervals]"]),
    dict(file=EN, func="homogenous_poisson_bernoulli_approx", old="res.clamp_max_(1.0)", new="res.clamp_min_(1.0)", contracts=["homogenous_poisson_bernoulli_approx"]),
    dict(file=EN, func="homogenous_poisson_bernoulli_approx", old='"... -> t ...", t=int(steps)', new='"... -> t ...", t=int(steps) + 1', contracts=["homogenous_poisson_bernoulli_approx"]),
    dict(file=EN, func="homogeneous_poisson_exp_interval_online", old="            spikes = intervals < 1", new="            spikes = torch.lt(intervals, 1)", contracts=["homogeneous_poisson_exp_interval_online[any number of steps]", "homogeneous_poisson_exp_interval_online[steps<=3]"], expect="survives", name="control: the comparison written as torch.lt (a new tensor per step)"),
    dict(file=EN, func="homogeneous_poisson_exp_interval_online", contracts=["homogeneous_poisson_exp_interval_online[any number of steps]"], name="seed C19h: one spike buffer reused for every yielded slice",
         edits=[dict(func="homogeneous_poisson_exp_interval_online", old="        for _ in range(steps):", new="        spikes = torch.zeros_like(intervals, dtype=torch.bool)\n        for _ in range(steps):"),
                dict(func="homogeneous_poisson_exp_interval_online", old="            spikes = intervals < 1", new="            torch.lt(intervals, 1, out=spikes)")]),
]


# ------------------------------------------------------------------------------------------------------------------
# online encoders for an ARBITRARY (symbolic) number of steps: loop contracts.  The `for _ in range(steps)` loop of the
# real generator is not unrolled: the interpreter hook `loop_contracts` hands it to `_range_loop`, which checks the
# invariant at loop entry, replaces the loop-carried tensors by arbitrary ones that satisfy the invariant, runs the real
# body ONCE at an arbitrary iteration, and checks the invariant and the per-iteration postconditions afterwards.
# lean/Induction.lean invariant_fold is the induction (entry + preservation => every iteration).
def _range_loop(c, qualname, carried, fresh_state, ordinal=0):
    """returns `info`, filled when the loop is reached: count, entry (carried values at loop entry), in_range, post (carried
    values after the arbitrary iteration), yields (values yielded by that iteration)"""
    info = {"reached": 0}

    def handler(interp, node, env, mod, cls, fn):
        info["reached"] += 1
        if not (isinstance(node.iter, ast.Call) and ast.unparse(node.iter.func) == "range" and 1 <= len(node.iter.args) <= 2 and not node.orelse):
            raise Unsupported("loop under contract is no longer `for _ in range(...)`")
        args = [num(interp.eval(a, env, mod, cls)) for a in node.iter.args]
        lo, hi = (z3.IntVal(0), args[0]) if len(args) == 1 else args
        info["count"] = hi - lo
        info["entry"] = {n: env.lookup(n) for n in carried}
        i = z3.Int(f"iteration_{qualname}")
        for n, v in fresh_state(info).items():
            env.set(n, v)
        if isinstance(node.target, ast.Name):
            env.set(node.target.id, SV(i))
        info["in_range"] = interp.truth(SV(z3.And(lo <= i, i < hi)))
        before = len(interp.gen_stack[-1]) if interp.gen_stack else 0
        # tensor objects that exist when the arbitrary iteration starts: a slice yielded by the iteration must not be one of
        # them - an object that outlives the iteration is overwritten by the next one, so slices kept by the consumer
        # (list(), torch.stack) would all show the last step
        info["entry_objects"] = {id(v) for v in env.vars.values() if isinstance(v, T)}
        info["draws_before"] = info["draw_count"]() if "draw_count" in info else 0
        if info["in_range"]:
            interp.exec_block(node.body, env, mod, cls, fn)
        info["post"] = {n: env.lookup(n) for n in carried}
        info["yields"] = list(interp.gen_stack[-1][before:]) if interp.gen_stack else []
        info["draws_in_iteration"] = (info["draw_count"]() - info["draws_before"]) if "draw_count" in info else None

    c.interp.loop_contracts[(qualname, ordinal)] = handler
    return info


@contract(P, "homogenous_poisson_bernoulli_approx_online[any number of steps]", [(EN, "homogenous_poisson_bernoulli_approx_online")], min_obligations=5)
def bernoulli_online_unbounded(c):
    x = c.pw("intensity_hz")
    dt = c.real("dt")
    steps = c.int("steps")
    c.require(x.f >= 0, dt > 0, steps >= 0)
    gens, undo = _record_bernoulli(c)
    info = _range_loop(c, "homogenous_poisson_bernoulli_approx_online", (), lambda info: {})
    info["draw_count"] = lambda: len(gens)
    try:
        out = c.outcome(c.function(EN, "homogenous_poisson_bernoulli_approx_online"), x, steps, dt, generator="<the generator>")
    finally:
        undo()
    c.expect_return(out)
    c.ensure("the_loop_is_under_contract", info["reached"] == 1)
    c.ensure("one_iteration_per_step", info["count"] == steps.z)
    c.ensure("nothing_yielded_outside_the_loop", len(list(out.value)) == len(info["yields"]))
    if info["in_range"]:
        ys = info["yields"]
        c.ensure("each_iteration_yields_exactly_one_slice", len(ys) == 1)
        c.ensure("each_slice_is_a_tensor_of_its_own", len(ys) == 1 and id(ys[0]) not in info["entry_objects"])
        sl = ys[0]
        c.ensure("each_iteration_draws_once_from_the_given_generator", info["draws_in_iteration"] == 1 and gens[-1] == "<the generator>")
        c.ensure("slice_boolean_with_the_input_layout", sl.dtype == "bool" and sl.tlen is None)
        c.ensure("silent_at_zero_intensity", z3.Implies(x.f == 0, z3.Not(sl.f)))
        c.ensure("certain_at_saturating_intensity", z3.Implies(x.f / 1000 * dt.z >= 1, sl.f))
        c.canary("canary_always_silent", z3.Not(sl.f))


@contract(P, "poisson_interval_online[any number of steps]", [(EN, "poisson_interval_online")], min_obligations=5)
def poisson_online_unbounded(c):
    x = c.pw("intensity_hz")
    dt = c.real("dt")
    steps = c.int("steps")
    c.require(x.f >= 0, dt > 0, steps >= 0)
    undo = _with_draws(c, "poisson")

    def fresh_state(info):
        return {"intervals": c.pw("intervals_at_an_arbitrary_iteration")}  # no invariant needed: the mask is loop-invariant code

    info = _range_loop(c, "poisson_interval_online", ("intervals",), fresh_state)
    info["draw_count"] = lambda: len(undo.generators)
    try:
        out = c.outcome(c.function(EN, "poisson_interval_online"), x, steps, dt, generator="<the generator>")
    finally:
        undo()
    c.expect_return(out)
    c.ensure("the_loop_is_under_contract", info["reached"] == 1)
    c.ensure("one_iteration_per_step", info["count"] == steps.z)
    c.ensure("nothing_yielded_outside_the_loop", len(list(out.value)) == len(info["yields"]))
    c.ensure("initial_intervals_drawn_from_the_given_generator", len(undo.generators) >= 1 and undo.generators[0] == "<the generator>")
    if info["in_range"]:
        ys = info["yields"]
        c.ensure("each_iteration_yields_exactly_one_slice", len(ys) == 1)
        c.ensure("each_slice_is_a_tensor_of_its_own", len(ys) == 1 and id(ys[0]) not in info["entry_objects"])
        sl = ys[0]
        c.ensure("each_iteration_redraws_once_from_the_given_generator", info["draws_in_iteration"] == 1 and undo.generators[-1] == "<the generator>")
        c.ensure("slice_boolean", sl.dtype == "bool" and sl.tlen is None)
        c.ensure("silent_at_zero_intensity", z3.Implies(x.f == 0, z3.Not(sl.f)))
        c.canary("canary_always_silent", z3.Not(sl.f))


@contract(P, "homogeneous_poisson_exp_interval_online[any number of steps]", [(EN, "homogeneous_poisson_exp_interval_online")], min_obligations=6)
def refractory_online_unbounded(c):
    """ghost state per element: `spiked` (it has fired before) and `g` (iterations since that spike; 0 in the iteration after
    it).  Invariant: spiked => intervals + g >= rho (rho = refrac / dt).  A spike needs intervals - 1 < 1, so with the
    invariant g > rho - 2: the distance g + 1 to the previous spike exceeds rho - 1, i.e. is >= rho when rho is whole"""
    f_hz = c.pw("f_hz")
    dt = c.real("dt")
    steps = c.int("steps")
    rmode = c.choice("refrac", ["none", "value"])
    comp = c.choice("compensate", [True, False])
    c.require(f_hz.f > 0, dt > 0, steps >= 0)
    rho_whole = c.int("refractory_period_in_whole_steps")
    # the refractory period is given as rho steps: refrac = rho * dt (rho = 1 when it defaults to the step time); the real
    # code's refrac / step_time then cancels to rho and the VCs stay linear in rho
    rho = c.real("refractory_period_in_steps").z if rmode == "value" else z3.RealVal(1)
    refrac = SV(rho * dt.z) if rmode == "value" else None
    c.require(rho >= 0)
    if comp:
        c.require(f_hz.f * rho * dt.z < 1000)  # the encoder module's own validity test: f * refrac < 1000
    spiked, g = c.bool("spiked_before"), c.int("iterations_since_that_spike")
    c.require(g >= 0)
    inv = lambda iv, s, gg: z3.Implies(s, iv + z3.ToReal(gg) >= rho)  # noqa: E731
    undo = _with_draws(c, "exp")

    def fresh_state(info):
        iv = c.pw("intervals_at_an_arbitrary_iteration")
        c.require(inv(iv.f, spiked.z, g.z))
        return {"intervals": iv}

    info = _range_loop(c, "homogeneous_poisson_exp_interval_online", ("intervals",), fresh_state)
    info["draw_count"] = lambda: len(undo.generators)
    try:
        out = c.outcome(c.function(EN, "homogeneous_poisson_exp_interval_online"), f_hz, steps, dt, refrac=refrac, compensate=comp, generator="<the generator>")
    finally:
        undo()
    c.expect_return(out)
    c.ensure("the_loop_is_under_contract", info["reached"] == 1)
    c.ensure("one_iteration_per_step", info["count"] == steps.z)
    c.ensure("nothing_yielded_outside_the_loop", len(list(out.value)) == len(info["yields"]))
    c.ensure("initial_intervals_drawn_from_the_given_generator", len(undo.generators) >= 1 and undo.generators[0] == "<the generator>")
    e = info["entry"]["intervals"]
    c.ensure("invariant_at_loop_entry", inv(e.f, z3.BoolVal(False), z3.IntVal(0)))
    c.ensure("first_interval_is_at_least_the_refractory_period", e.f >= rho)
    if info["in_range"]:
        ys = info["yields"]
        c.ensure("each_iteration_yields_exactly_one_slice", len(ys) == 1)
        c.ensure("each_slice_is_a_tensor_of_its_own", len(ys) == 1 and id(ys[0]) not in info["entry_objects"])
        sl = ys[0]
        c.ensure("each_iteration_redraws_once_from_the_given_generator", info["draws_in_iteration"] == 1 and undo.generators[-1] == "<the generator>")
        c.ensure("slice_boolean", sl.dtype == "bool" and sl.tlen is None)
        post = info["post"]["intervals"]
        dist = z3.ToReal(g.z) + 1
        whole = rho == z3.ToReal(rho_whole.z)
        c.ensure("two_spikes_of_an_element_are_more_than_rho_minus_one_steps_apart", z3.Implies(z3.And(spiked.z, sl.f), dist > rho - 1))
        c.ensure("two_spikes_of_an_element_are_at_least_the_refractory_period_apart", z3.Implies(z3.And(spiked.z, sl.f, whole), dist >= rho))
        s2 = z3.Or(spiked.z, sl.f)
        g2 = z3.If(sl.f, z3.IntVal(0), g.z + 1)
        c.ensure("invariant_preserved", inv(post.f, s2, g2))
        c.canary("canary_never_two_spikes_in_a_row", z3.Not(z3.And(spiked.z, g.z == 0, sl.f)))
        c.canary("canary_always_silent", z3.Not(sl.f))


ANY = "[any number of steps]"
MUTANTS += [
    dict(file=EN, func="homogeneous_poisson_exp_interval_online", old="                torch.empty_like(intervals[spikes]).exponential_(\n                    1.0, generator=generator\n                )", new="                torch.empty_like(intervals[spikes]).exponential_(\n                    1.0\n                )", contracts=["homogeneous_poisson_exp_interval_online" + ANY], name="seed C19d (loop contract): in-loop redraw ignores the generator"),
    dict(file=EN, func="homogeneous_poisson_exp_interval_online", old="                * inputs[spikes]\n                + refrac\n            )\n", new="                * inputs[spikes]\n            )\n", contracts=["homogeneous_poisson_exp_interval_online" + ANY], name="loop contract: redrawn interval without the refractory offset (invariant not preserved)"),
    dict(file=EN, func="homogeneous_poisson_exp_interval_online", old="            spikes = intervals < 1\n", new="            spikes = intervals < 2\n", contracts=["homogeneous_poisson_exp_interval_online" + ANY], name="loop contract: fires one step early"),
    dict(file=EN, func="homogeneous_poisson_exp_interval_online", old="            + refrac\n        )\n\n        # main loop", new="        )\n\n        # main loop", contracts=["homogeneous_poisson_exp_interval_online" + ANY], name="loop contract: first interval without the refractory offset"),
    dict(file=EN, func="poisson_interval_online", old="            spikes = torch.logical_and(intervals < 1, mask)", new="            spikes = intervals < 1", contracts=["poisson_interval_online" + ANY], name="seed C19b (loop contract): mask dropped"),
    dict(file=EN, func="poisson_interval_online", old="        for _ in range(steps):\n            # decrement intervals", new="        for _ in range(steps + 1):\n            # decrement intervals", contracts=["poisson_interval_online" + ANY], name="loop contract: one slice too many"),
    dict(file=EN, func="homogenous_poisson_bernoulli_approx_online", old="        for _ in range(steps):\n            # sample directly", new="        for _ in range(1, steps):\n            # sample directly", contracts=["homogenous_poisson_bernoulli_approx_online" + ANY], name="loop contract: one slice too few"),
    dict(file=EN, func="homogenous_poisson_bernoulli_approx_online", old="            yield torch.bernoulli(res, generator=generator).bool()", new="            yield torch.bernoulli(res, generator=generator).bool()\n            yield torch.bernoulli(res, generator=generator).bool()", contracts=["homogenous_poisson_bernoulli_approx_online" + ANY], name="loop contract: two slices per step"),
]


# ------------------------------------------------------------------------------------------------------------------
# offline Poisson-interval encoder: zero-intensity elements are silent, for any number of steps.
# The raster is assembled by cumsum + scatter over a symbolic number of interval bins; three local models carry exactly
# what the silence argument needs (everything else - masking, clamping, casting, the final slice - runs for real):
#   cumsum   S(t) is an uninterpreted prefix sum, except that the prefix sums of a summand that is identically zero are zero
#            (checked, not assumed: the solver must prove  zero-intensity => summand(t0) = 0  for a fresh t0)
#   scatter_ R(k) ("row k of this element was written") implies the existence of a bin whose index is k: Skolem witness
#            w(k) with 0 <= w(k) < bins and index(w(k)) = k; conversely bin 0 writes row index(0)
#   poisson  draws are arbitrary non-negative integers, 0 at rate 0
@contract(P, "poisson_interval[zero intensity is silent, any number of steps]", [(EN, "poisson_interval")], min_obligations=4)
def poisson_offline_silence(c):
    x = c.pw("intensity_hz", eshape=tz.Shape((3,)))
    dt = c.real("dt")
    steps = c.int("steps")
    c.require(x.f >= 0, dt > 0, steps >= 1)
    I_, R_ = z3.IntSort(), z3.RealSort()
    D = z3.Function("poisson_draw", I_, I_)
    PS = z3.Function("prefix_sum", I_, R_)
    W = z3.Function("scatter_witness", I_, I_)
    ROW = z3.Function("row_written", I_, z3.BoolSort())
    tn = c.interp.torch_ns._table
    gens = []
    saved = {k: tn.get(k) for k in ("poisson",)}
    saved_m = {k: getattr(T, k, None) for k in ("cumsum", "scatter_")}
    info = {}

    def poisson(rate, generator=None):
        gens.append(generator)
        if rate.tlen is None:
            raise Unsupported("poisson_interval: the rate tensor should carry the bin axis")
        rf = rate.f
        t0 = z3.Int("t_draw")
        c.axiom(z3.ForAll([t0], D(t0) >= 0)) if False else None
        return T(lambda t: z3.If(tz.coerce(rf(t), "float") == 0, z3.RealVal(0), z3.ToReal(z3.If(D(t) >= 0, D(t), -D(t)))), "float", rate.tlen, rate.taxis, rate.eshape)

    def cumsum(self_t, dim=0):
        if self_t.tlen is None or self_t.taxis != "first" or _concrete_int(dim) != 0:
            raise Unsupported("cumsum other than along the leading bin axis")
        f = self_t.f
        t0 = z3.Int(cur().fresh_name("t_zero_lemma"))
        zero_when_silent = cur().implied(z3.Implies(x.f == 0, tz.coerce(f(t0), "float") == 0))
        info["zero_lemma"] = zero_when_silent
        if zero_when_silent:
            return T(lambda t: z3.If(x.f == 0, z3.RealVal(0), PS(t)), "float", self_t.tlen, "first", self_t.eshape)
        return T(lambda t: PS(t), "float", self_t.tlen, "first", self_t.eshape)

    def scatter_(self_t, dim, index, src):
        if self_t.tlen is None or index.tlen is None or _concrete_int(dim) != 0:
            raise Unsupported("scatter_ other than along the leading axis")
        info["bins"] = num(index.tlen)
        idx = index.f
        info["index"] = idx
        L = num(self_t.tlen)
        k0 = z3.Int("k_row")

        def rowf(k):
            # instance of:  ROW(k) => 0 <= W(k) < bins /\\ index(W(k)) = k     and     ROW(index(0))
            c.axiom(z3.Implies(ROW(k), z3.And(W(k) >= 0, W(k) < num(index.tlen), tz.coerce(idx(W(k)), "int") == k)))
            return ROW(k)

        c.axiom(ROW(tz.coerce(idx(z3.IntVal(0)), "int")))
        return T(rowf, "bool", self_t.tlen, "first", self_t.eshape)

    saved_idx = (T.__getitem__, T.__setitem__)

    def is_masked_rows(k):
        return isinstance(k, tuple) and len(k) == 2 and isinstance(k[0], slice) and k[0] == slice(None) and isinstance(k[1], T) and k[1].dtype == "bool" and k[1].tlen is None

    def getitem(self_t, k):
        # res[:, mask]: every bin of the elements selected by the (per-element) mask - value of the arbitrary SELECTED element
        if is_masked_rows(k) and self_t.tlen is not None:
            return T(self_t.f, self_t.dtype, self_t.tlen, self_t.taxis, None)
        return saved_idx[0](self_t, k)

    def setitem(self_t, k, v):
        if is_masked_rows(k) and self_t.tlen is not None and isinstance(v, T) and v.tlen is not None:
            old, m, nv = self_t.f, k[1].f, v.f
            self_t.f = lambda t: z3.If(m, tz.coerce(nv(t), self_t.dtype), old(t))
            return
        return saved_idx[1](self_t, k, v)

    tn["poisson"] = poisson
    T.cumsum, T.scatter_ = cumsum, scatter_
    T.__getitem__, T.__setitem__ = getitem, setitem
    try:
        out = c.outcome(c.function(EN, "poisson_interval"), x, steps, dt, generator="<the generator>")
    finally:
        T.__getitem__, T.__setitem__ = saved_idx
        for k_, v in saved.items():
            if v is None:
                tn.pop(k_, None)
            else:
                tn[k_] = v
        for k_, v in saved_m.items():
            if v is None:
                delattr(T, k_)
            else:
                setattr(T, k_, v)
    c.expect_return(out)
    r = out.value
    c.ensure("draws_use_the_given_generator", len(gens) >= 1 and all(g == "<the generator>" for g in gens))
    c.ensure("prefix_sums_of_a_silent_element_are_zero", bool(info.get("zero_lemma")))
    c.ensure("one_bin_per_step_plus_two", info.get("bins") is not None and info["bins"] == steps.z + 2)
    c.ensure("boolean_time_first_with_steps_rows", z3.And(r.dtype == "bool" and r.tlen is not None and r.taxis == "first", num(r.tlen) == steps.z))
    t = c.int("t")
    c.require(0 <= t, t < steps)
    c.ensure("silent_at_zero_intensity", z3.Implies(x.f == 0, z3.Not(r.f(t.z))))
    c.canary("canary_always_silent", z3.Not(r.f(t.z)))


def _concrete_int(v):
    if isinstance(v, int):
        return v
    z = z3.simplify(num(v))
    return z.as_long() if z3.is_int_value(z) else None


OFF = "poisson_interval[zero intensity is silent, any number of steps]"
MUTANTS += [
    dict(file=EN, func="poisson_interval", old="        res = res[1:-1]", new="        res = res[:-2]", contracts=[OFF], name="seed C19e: row 0 (where silent elements land) kept, last real row dropped"),
    dict(file=EN, func="poisson_interval", old="        inputs[~mask] = 0\n\n        # convert rates into intervals via sampling\n        res = torch.poisson(", new="        # convert rates into intervals via sampling\n        res = torch.poisson(", contracts=[OFF], name="offline: zero-intensity elements keep an infinite expected interval instead of 0"),
    dict(file=EN, func="poisson_interval", old="            inputs.expand(steps + 2, *inputs.shape), generator=generator", new="            inputs.expand(steps + 1, *inputs.shape), generator=generator", contracts=[OFF], name="offline: one bin too few (one row too few)"),
]


# ------------------------------------------------------------------------------------------------------------------
# offline REFRACTORY encoder, whole raster: any two spikes of one element are at least refrac/dt steps apart.
#   cumsum   S(t): uninterpreted prefix sum; after the solver has proved "every interval >= rho" at a fresh index, the
#            instances  w1 <= w2 => S(w2) - S(w1) >= (w2 - w1) * rho  of lean/ClosedForms.lean prefix_sum_gap are available
#   scatter_ R(k) => some bin w(k) has index k (Skolem witness), as for the Poisson-interval encoder
@contract(P, "homogeneous_poisson_exp_interval[any two spikes of an element, any number of steps]", [(EN, "homogeneous_poisson_exp_interval")], min_obligations=4)
def refractory_offline_raster(c):
    f_hz = c.pw("f_hz", eshape=tz.Shape((3,)))
    dt = c.real("dt")
    steps = c.int("steps")
    rmode = c.choice("refrac", ["none", "value"])
    comp = c.choice("compensate", [True, False])
    c.require(f_hz.f > 0, dt > 0, steps >= 1)
    rho_i = c.int("refractory_period_in_whole_steps")
    c.require(rho_i >= 0)
    rho = z3.ToReal(rho_i.z) if rmode == "value" else z3.RealVal(1)
    refrac = SV(rho * dt.z) if rmode == "value" else None  # refrac / step_time cancels to rho: the VCs stay linear in rho
    if comp:
        c.require(f_hz.f * rho * dt.z < 1000)  # the encoder module's own validity test: f * refrac < 1000
    I_, R_ = z3.IntSort(), z3.RealSort()
    XI, PS = z3.Function("exp_draw", I_, R_), z3.Function("prefix_sum", I_, R_)
    W, ROW = z3.Function("scatter_witness", I_, I_), z3.Function("row_written", I_, z3.BoolSort())
    info, gens = {}, []
    saved = {k: getattr(T, k, None) for k in ("exponential_", "cumsum", "scatter_")}

    def exponential_(self_t, lambd=1.0, generator=None):
        gens.append(generator)
        if self_t.tlen is None:
            raise Unsupported("the draw tensor should carry the bin axis")
        return T(lambda t: z3.If(XI(t) >= 0, XI(t), -XI(t)), "float", self_t.tlen, "first", self_t.eshape)

    def cumsum(self_t, dim=0):
        if self_t.tlen is None or self_t.taxis != "first" or _concrete_int(dim) != 0:
            raise Unsupported("cumsum other than along the leading bin axis")
        t0 = z3.Int(cur().fresh_name("t_interval"))
        info["every_interval_at_least_rho"] = cur().implied(z3.Implies(t0 >= 0, tz.coerce(self_t.f(t0), "float") >= rho))
        info["bins"] = num(self_t.tlen)
        return T(lambda t: PS(t), "float", self_t.tlen, "first", self_t.eshape)

    def scatter_(self_t, dim, index, src):
        if self_t.tlen is None or index.tlen is None or _concrete_int(dim) != 0:
            raise Unsupported("scatter_ other than along the leading axis")
        idx = index.f
        info["index"], info["rows"] = idx, num(self_t.tlen)

        def rowf(k):
            c.axiom(z3.Implies(ROW(k), z3.And(W(k) >= 0, W(k) < num(index.tlen), tz.coerce(idx(W(k)), "int") == k)))
            return ROW(k)

        return T(rowf, "bool", self_t.tlen, "first", self_t.eshape)

    T.exponential_, T.cumsum, T.scatter_ = exponential_, cumsum, scatter_
    try:
        out = c.outcome(c.function(EN, "homogeneous_poisson_exp_interval"), f_hz, steps, dt, refrac=refrac, compensate=comp, generator="<the generator>")
    finally:
        for k_, v in saved.items():
            if v is None:
                delattr(T, k_)
            else:
                setattr(T, k_, v)
    c.expect_return(out)
    r = out.value
    c.ensure("draws_use_the_given_generator", len(gens) == 1 and gens[0] == "<the generator>")
    c.ensure("every_interval_is_at_least_the_refractory_period", bool(info.get("every_interval_at_least_rho")))
    c.ensure("one_extra_row_for_clamped_times", info.get("rows") is not None and info["rows"] == steps.z + 1)
    c.ensure("boolean_time_first_with_steps_rows", z3.And(r.dtype == "bool" and r.tlen is not None and r.taxis == "first", num(r.tlen) == steps.z))
    k1, k2 = c.int("earlier_spike_step"), c.int("later_spike_step")
    c.require(0 <= k1, k1 < k2, k2 < steps)
    both = z3.And(r.f(k1.z), r.f(k2.z))
    if info.get("every_interval_at_least_rho"):
        w1, w2 = W(k1.z), W(k2.z)
        # instances of prefix_sum_gap (both orders) at the two witnesses
        c.axiom(z3.Implies(w1 <= w2, PS(w2) - PS(w1) >= z3.ToReal(w2 - w1) * rho))
        c.axiom(z3.Implies(w2 <= w1, PS(w1) - PS(w2) >= z3.ToReal(w1 - w2) * rho))
        # and of its corollary prefix_sum_lower (S 0 = x 0 >= rho): cumulative times are never negative
        c.axiom(z3.Implies(w1 >= 0, PS(w1) >= z3.ToReal(w1 + 1) * rho))
        c.axiom(z3.Implies(w2 >= 0, PS(w2) >= z3.ToReal(w2 + 1) * rho))
    c.ensure("two_spikes_of_an_element_are_at_least_the_refractory_period_apart", z3.Implies(both, z3.ToReal(k2.z - k1.z) >= rho))
    c.canary("canary_never_two_spikes", z3.Not(both))
    c.canary("canary_gap_larger_than_the_period", z3.Implies(both, z3.ToReal(k2.z - k1.z) >= rho + 1))


RAST = "homogeneous_poisson_exp_interval[any two spikes of an element, any number of steps]"
MUTANTS += [
    dict(file=EN, func="homogeneous_poisson_exp_interval", old="            * res\n            + refrac\n        )", new="            * res\n        )", contracts=[RAST], name="offline raster: intervals without the refractory offset"),
    dict(file=EN, func="homogeneous_poisson_exp_interval", old="        res = res.clamp_max_(steps).long()", new="        res = res.clamp_max_(steps - 1).long()", contracts=[RAST], name="offline raster: times beyond the train land in the last real row instead of the discarded one"),
    dict(file=EN, func="homogeneous_poisson_exp_interval", old="        res = res.new_zeros(steps + 1, *inputs.shape, dtype=torch.bool).scatter_(", new="        res = res.new_zeros(steps + 2, *inputs.shape, dtype=torch.bool).scatter_(", contracts=[RAST], name="offline raster: one row too many"),
]
MUTANTS += [
    dict(file=EM, func="RefractoryStepMixin.refrac@setter", old="            self.__derive_refrac = False\n", new="", contracts=["HomogeneousPoissonEncoder.forward"], name="seed C19f: an assigned refractory period is still treated as derived from dt"),
]
