"""C09 (+ per-step clauses of C08) - STDP family, reward-modulated and homeostatic trainers: the LTP/LTD parts are
non-negative and net to the signed rule; delayed mode reads the pre side through view(selector, tolerance)."""
from __future__ import annotations

import z3

from pyvc.harness import contract
from pyvc.models import Model
from pyvc.sym import SV, Unsupported
from pyvc.tensor import T

from .trainer_stubs import Env, val

T2 = "inferno/learn/trainers/two_factor_stdp.py"
T3 = "inferno/learn/trainers/three_factor_stdp.py"
D3 = "inferno/learn/trainers/delay_adj_three_factor_stdp.py"
HO = "inferno/learn/trainers/homeostasis.py"


def sgn_mul(lr, x):
    return z3.If(lr >= 0, x, -x)


def pair_monitors(c, names=("trace_post", "trace_pre", "spike_post", "spike_pre")):
    mons, sym = {}, {}
    for n in names:
        if n.startswith("spike"):
            pk, vw = c.pw(f"{n}_now", "bool"), c.pw(f"{n}_delayed", "bool")
        else:
            pk, vw = c.pw(f"{n}_now"), c.pw(f"{n}_delayed")
            c.require(pk.f >= 0, vw.f >= 0)  # traces are non-negative: amplitude = |lr| >= 0 (C07, inductive)
        mons[n] = dict(peek=pk, view=vw)
        sym[n] = (pk, vw)
    return mons, sym


def b2r(b):
    return z3.If(b, z3.RealVal(1), z3.RealVal(0))


def _mk_stdp(cls, stable):
    for P in ("C09", "C08"):
        @contract(P, f"{cls}.forward", [(T2, f"{cls}.forward")], tags=("trainer",))
        def fwd(c, cls=cls, P=P):
            lr_post, lr_pre = c.real("lr_post"), c.real("lr_pre")
            mons, s = pair_monitors(c)
            delayed = c.choice("mode", ["undelayed", "delayed", "delay_frozen"])
            env = Env(c, mons, dict(lr_post=lr_post, lr_pre=lr_pre, delayed=(delayed == "delayed"), tolerance=c.real("tol")), delayed_conn=(delayed != "undelayed"))
            if delayed != "undelayed":
                c.require(env.conn.fields["delayedby"] > 0)
            out = c.outcome(c.function(T2, f"{cls}.forward"), env.trainer)
            c.expect_return(out)
            pos, neg = env.captured("weight")
            use_view = delayed == "delayed"
            xpre = (s["trace_pre"][1] if use_view else s["trace_pre"][0]).f
            ipre = (s["spike_pre"][1] if use_view else s["spike_pre"][0]).f
            xpost, ipost = s["trace_post"][0].f, s["spike_post"][0].f
            if stable:  # unit-amplitude traces, learning-rate magnitude applied in forward
                dpost = b2r(ipost) * (xpre * z3.If(lr_post.z >= 0, lr_post.z, -lr_post.z))
                dpre = b2r(ipre) * (xpost * z3.If(lr_pre.z >= 0, lr_pre.z, -lr_pre.z))
            else:
                dpost, dpre = b2r(ipost) * xpre, b2r(ipre) * xpost
            c.ensure("pos_nonnegative", val(pos) >= 0)
            c.ensure("neg_nonnegative", val(neg) >= 0)
            c.ensure("net_equals_signed_rule", val(pos) - val(neg) == sgn_mul(lr_post.z, dpost) + sgn_mul(lr_pre.z, dpre))
            views = sorted(x[1] for x in env.calls if x[0] == "view")
            c.ensure("delayed_mode_reads_pre_side_through_selector", views == (["spike_pre", "trace_pre"] if use_view else []))
            if use_view:
                c.ensure("view_arguments", all(x[2] == "<selector>" and x[3] is env.state.fields["tolerance"] for x in env.calls if x[0] == "view"))
            c.canary("canary_swapped_operands", z3.And(val(pos) - val(neg) == sgn_mul(lr_post.z, b2r(ipost) * xpost) + sgn_mul(lr_pre.z, b2r(ipre) * xpre), xpre != xpost, ipost, ipre, lr_post.z > 0, lr_pre.z > 0))


_mk_stdp("STDP", False)
_mk_stdp("StableSTDP", True)


def _mk_triplet(cls, stable):
    for P in ("C09", "C08"):
        @contract(P, f"{cls}.forward", [(T2, f"{cls}.forward")], tags=("trainer",))
        def fwd(c, cls=cls, P=P):
            lpp, lpt, lrp, lrt = c.real("lr_post_pair"), c.real("lr_post_triplet"), c.real("lr_pre_pair"), c.real("lr_pre_triplet")
            mons, s = pair_monitors(c, ("trace_post_fast", "trace_pre_fast", "trace_post_slow", "trace_pre_slow", "spike_post", "spike_pre"))
            yb2, xb2, xbsel = c.pw("post_slow_one_step_earlier"), c.pw("pre_slow_one_step_earlier"), c.pw("pre_slow_delayed_one_step_earlier")
            c.require(yb2.f >= 0, xb2.f >= 0, xbsel.f >= 0)
            mons["trace_post_slow"].update(read2=yb2)
            mons["trace_pre_slow"].update(read2=xb2, select2=xbsel)
            delayed = c.choice("mode", ["undelayed", "delayed"])
            env = Env(c, mons, dict(lr_post_pair=lpp, lr_post_triplet=lpt, lr_pre_pair=lrp, lr_pre_triplet=lrt, delayed=(delayed == "delayed"), tolerance=c.real("tol")), delayed_conn=(delayed != "undelayed"))
            if delayed != "undelayed":
                c.require(env.conn.fields["delayedby"] > 0)
            if stable:
                c.require(z3.Or(z3.And(lpp.z >= 0, lpt.z >= 0), z3.And(lpp.z <= 0, lpt.z <= 0)), z3.Or(z3.And(lrp.z >= 0, lrt.z >= 0), z3.And(lrp.z <= 0, lrt.z <= 0)))
            out = c.outcome(c.function(T2, f"{cls}.forward"), env.trainer)
            c.expect_return(out, "runs_in_delayed_mode" if delayed == "delayed" else "no_exception")
            pos, neg = env.captured("weight")
            uv = delayed == "delayed"
            xa = (s["trace_pre_fast"][1] if uv else s["trace_pre_fast"][0]).f
            x = (s["spike_pre"][1] if uv else s["spike_pre"][0]).f
            ya, y = s["trace_post_fast"][0].f, s["spike_post"][0].f
            xb = xbsel.f if uv else xb2.f
            if stable:
                fy = z3.If(lpp.z >= 0, lpp.z, -lpp.z) + lpt.z * yb2.f
                fx = z3.If(lrp.z >= 0, lrp.z, -lrp.z) + lrt.z * xb
            else:
                fy, fx = 1 + yb2.f, 1 + xb
            dpost, dpre = fy * b2r(y) * xa, fx * b2r(x) * ya
            c.ensure("net_equals_triplet_rule_with_slow_trace_one_step_earlier", val(pos) - val(neg) == sgn_mul(lpp.z, dpost) + sgn_mul(lrp.z, dpre))
            if not stable:
                c.ensure("pos_nonnegative", val(pos) >= 0)
                c.ensure("neg_nonnegative", val(neg) >= 0)
            reads = [(x_[1], x_[2]) for x_ in env.calls if x_[0] == "read"]
            c.ensure("slow_traces_read_at_offset_2", ("trace_post_slow", 2) in reads and (uv or ("trace_pre_slow", 2) in reads))
            if uv:
                sel = [x_ for x_ in env.calls if x_[0] == "select"]
                ok = len(sel) == 1 and sel[0][1] == "trace_pre_slow" and sel[0][2] == "<selector>" and sel[0][3] == "<trace_pre_slow.reducer.interpolate>" and sel[0][4].get("offset") == 2 and sel[0][4].get("tolerance") is env.state.fields["tolerance"]
                c.ensure("delayed_slow_pre_trace_selected_with_its_own_rule_offset_2", ok)
            c.canary("canary_no_triplet_factor", z3.And(val(pos) - val(neg) == sgn_mul(lpp.z, b2r(y) * xa) + sgn_mul(lrp.z, b2r(x) * ya), y, yb2.f > 0, xa > 0, lpt.z > 0, lpp.z > 0))


_mk_triplet("TripletSTDP", False)
_mk_triplet("StableTripletSTDP", True)


def _mk_mstdp(cls, file, elig):
    for P in ("C09", "C08"):
        @contract(P, f"{cls}.forward[scalar_signal]", [(file, f"{cls}.forward")], tags=("trainer",))
        def fwd(c, cls=cls, P=P):
            lr_post, lr_pre = c.real("lr_post"), c.real("lr_pre")
            sig, scale = c.real("signal"), c.real("scale")
            if elig:
                zp, zr = c.pw("elig_post"), c.pw("elig_pre")
                c.require(zp.f >= 0, zr.f >= 0)
                mons = {"elig_post": dict(peek=zp), "elig_pre": dict(peek=zr)}
                dpost, dpre = zp.f, zr.f
                env = Env(c, mons, dict(lr_post=lr_post, lr_pre=lr_pre, delayed=False, tolerance=0.0))
            else:
                mons, s = pair_monitors(c)
                delayed = c.choice("mode", ["undelayed", "delayed", "delay_frozen"])
                env = Env(c, mons, dict(lr_post=lr_post, lr_pre=lr_pre, delayed=(delayed == "delayed"), tolerance=c.real("tol")), delayed_conn=(delayed != "undelayed"))
                if delayed != "undelayed":
                    c.require(env.conn.fields["delayedby"] > 0)
                use_view = delayed == "delayed"
                xpre = (s["trace_pre"][1] if use_view else s["trace_pre"][0]).f
                ipre = (s["spike_pre"][1] if use_view else s["spike_pre"][0]).f
                dpost, dpre = b2r(s["spike_post"][0].f) * xpre, b2r(ipre) * s["trace_post"][0].f
            out = c.outcome(c.function(file, f"{cls}.forward"), env.trainer, sig, scale)
            c.expect_return(out)
            if not elig:
                views = sorted(x[1] for x in env.calls if x[0] == "view")
                c.ensure("delayed_mode_reads_pre_side_through_selector", views == (["spike_pre", "trace_pre"] if use_view else []))
            pos, neg = env.captured("weight")
            mag = sig.z * scale.z
            mag = z3.If(mag >= 0, mag, -mag)
            c.ensure("pos_nonnegative", val(pos) >= 0)
            c.ensure("neg_nonnegative", val(neg) >= 0)
            # each step's contribution scaled by |signal*scale| and routed by sign(lr * signal): a negative reward flips the direction
            c.ensure("net_is_signal_scaled_signed_rule", val(pos) - val(neg) == mag * (z3.If(lr_post.z * sig.z >= 0, dpost, -dpost) + z3.If(lr_pre.z * sig.z >= 0, dpre, -dpre)))
            c.canary("canary_ignores_signal_sign", z3.And(val(pos) - val(neg) == mag * (sgn_mul(lr_post.z, dpost) + sgn_mul(lr_pre.z, dpre)), sig.z < 0, dpost > 0, lr_post.z > 0, mag > 0))


_mk_mstdp("MSTDP", T3, False)
_mk_mstdp("MSTDPET", T3, True)


for _P in ("C09",):
    @contract(_P, "LinearHomeostasis.forward", [(HO, "LinearHomeostasis.forward")], tags=("trainer",))
    def homeo(c):
        rate, target, pl = c.pw("rate"), c.real("target"), c.real("plasticity")
        c.require(target > 0, pl > 0, rate.f >= 0)
        param = c.choice("param", ["weight", "bias", "delay"])
        env = Env(c, {"spike_rate": dict(peek=rate)}, dict(target=target, param=param, plasticity=pl))
        out = c.outcome(c.function(HO, "LinearHomeostasis.forward"), env.trainer)
        c.expect_return(out)
        pos, neg = env.captured(param)
        k = pl.z * (target.z - rate.f) / target.z
        rule = k if param != "delay" else -k
        c.ensure("pos_nonnegative", val(pos) >= 0)
        c.ensure("neg_nonnegative", val(neg) >= 0)
        c.ensure("net_moves_rate_toward_target", val(pos) - val(neg) == rule)
        # restricted to the complement of the known-finding witness class (rate above target for weight/bias, below for delay)
        c.ensure("neg_nonnegative_outside_finding", z3.Implies(rule >= 0, val(neg) >= 0))
        c.ensure("net_moves_rate_toward_target_outside_finding", z3.Implies(rule >= 0, val(pos) - val(neg) == rule))
        c.canary("canary_zero", z3.And(val(pos) == 0, rule > 0))


ASSUMPTIONS = [
    "receptive-field axis / batch axis represented by one arbitrary element (linearity of the reductions); traces are non-negative (amplitude |lr| >= 0, inductive consequence of the C07 recurrences)",
    "tensor-valued (per-sample) reward signals: argwhere / index / cat / numel along the batch axis are read through the structural group theory at the end of contracts/c09_split.py (a batch reduction is the arbitrary sample's contribution: linear reductions)",
]


# pos through the upper bound, neg through the lower bound: the Accumulator contracts (C10) are part of this property
from pyvc.harness import REGISTRY as _REG  # noqa: E402
from . import c10_updater as _c10  # noqa: E402,F401

for _cd in list(_REG.get("C10", [])):
    if _cd.name.startswith("Accumulator") and not any(x.name == _cd.name for x in _REG.get("C09", [])):
        contract("C09", _cd.name, list(_cd.targets), min_obligations=_cd.min_obligations)(_cd.fn)

MUTANTS = [
    dict(file=T3, func="MSTDP.forward", old="                    state.batchreduce(dneg, 0) if dneg.numel() else None,", new="                    state.batchreduce(dneg, 0) if dpos.numel() else None,", contracts=["MSTDP.forward[tensor_signal]"], name="seed C09e: the depressing part is guarded by the emptiness of the POTENTIATING group"),
    dict(file=T3, func="MSTDP.forward", old="                signal_neg = torch.argwhere(signal < 0).view(-1)", new="                signal_neg = torch.argwhere(signal >= 0).view(-1)", contracts=["MSTDP.forward[tensor_signal]"], name="tensor signal: negative-reward samples never selected"),
    dict(file="inferno/neural/modeling.py", func="Accumulator.lowerbound", old="            self.bind[1] = lambda x, n, lb=min, k=kwargs: bound(x, n, lb, **k)", new="            self.bind[0] = lambda x, n, lb=min, k=kwargs: bound(x, n, lb, **k)", contracts=["Accumulator.update"], name="seed C09b: the lower bound is installed in the upper-bound slot"),
    dict(file=T3, func="MSTDP.forward", old="                monitors[\"spike_pre\"].view(cell.connection.selector, state.tolerance)\n                if state.delayed and cell.connection.delayedby\n", new="                monitors[\"spike_pre\"].view(cell.connection.selector, state.tolerance)\n                if state.delayed and cell.connection.delayedby is None\n", contracts=["MSTDP.forward[scalar_signal]"], name="seed C08b: MSTDP never uses the delayed presynaptic spike view"),
    dict(file=T2, func="STDP.forward", old="match (state.lr_post >= 0, state.lr_pre >= 0):", new="match (state.lr_post >= 0, self.lr_pre >= 0):", contracts=["STDP.forward"], name="seed C09: routing by trainer default lr_pre"),
    dict(file=T2, func="STDP.forward", old="cell.updater.weight = (dpre, dpost)", new="cell.updater.weight = (dpost, dpre)", contracts=["STDP.forward"]),
    dict(file=T2, func="STDP.forward", old="ein.einsum(i_post, x_pre,", new="ein.einsum(i_post, x_post,", contracts=["STDP.forward"]),
    dict(file=T2, func="TripletSTDP.forward", old='y_b = monitors["trace_post_slow"].reducer.data_.read(2)', new='y_b = monitors["trace_post_slow"].reducer.data_.read(1)', contracts=["TripletSTDP.forward"]),
    dict(file=T2, func="TripletSTDP.forward", old='monitors["trace_pre_slow"].reducer.interpolate,', new='monitors["trace_post_slow"].interpolate,', contracts=["TripletSTDP.forward"], name="D7 regression: triplet delayed branch"),
    dict(file=T3, func="MSTDP.forward", old="match (state.lr_post * signal >= 0, state.lr_pre * signal >= 0):", new="match (state.lr_post >= 0, state.lr_pre >= 0):", contracts=["MSTDP.forward[scalar_signal]"]),
    dict(file=T2, func="StableSTDP.forward", old="* abs(state.lr_post)", new="* abs(state.lr_pre)", contracts=["StableSTDP.forward"]),
]


# ------------------------------------------------------------------------------------------------------------------
# per-sample (tensor) reward signals.  The real branch splits the batch into the samples with signal >= 0 and < 0
# (torch.argwhere + indexing), concatenates the selected partial updates into a potentiating and a depressing group
# and reduces each group over the batch - unless the group is EMPTY, in which case that part is None.
# Structural theory used here (all other statements run for real on the one-arbitrary-sample tensors):
#   argwhere(cond).view(-1)      -> Group(cond)            the set of samples satisfying `cond`
#   x[Group(cond)]               -> Sel(x, cond)           rows of x for those samples
#   cat((Sel..., Sel...), 0)     -> Bag([...])             their concatenation along the batch axis
#   Bag.numel()                  -> > 0 iff some member's group is non-empty; the two groups' non-emptiness are the
#                                   booleans `some_nonnegative_signal`, `some_negative_signal`, each implied by the
#                                   arbitrary sample lying in that group
#   state.batchreduce(Bag, 0)    -> the arbitrary sample's contribution to the (linear) reduction: the sum over the
#                                   members whose group contains it
class _Group:
    def __init__(self, cond, flag):
        self.cond, self.flag = cond, flag

    def sym_getattr(self, interp, name):
        if name == "view":
            return lambda *a: self
        raise Unsupported(f"index group .{name}")


class _Sel:
    def __init__(self, x, g):
        self.x, self.g = x, g


class _Bag:
    def __init__(self, members):
        self.members = members

    def sym_getattr(self, interp, name):
        if name == "numel":
            return lambda: SV(z3.If(z3.Or([m.g.flag for m in self.members]), z3.IntVal(1), z3.IntVal(0)))
        raise Unsupported(f"bag .{name}")


class tensor_signal_theory:
    """context manager installing the structural group theory for one contract path"""

    def __init__(self, c, env, sig):
        from pyvc import tensor as tz

        self.c, self.env, self.sig, self.tz = c, env, sig, tz
        tz.LAYOUT_FREE[0] = True
        self.some_pos, self.some_neg = c.bool("some_nonnegative_signal"), c.bool("some_negative_signal")
        c.axiom(z3.Implies(sig.f >= 0, self.some_pos.z))
        c.axiom(z3.Implies(sig.f < 0, self.some_neg.z))

    def __enter__(self):
        c, env, sig, tz = self.c, self.env, self.sig, self.tz
        tn = c.interp.torch_ns._table
        self.saved = saved = (tn.get("argwhere"), tn.get("cat"), T.__getitem__)
        some_pos, some_neg = self.some_pos, self.some_neg

        def argwhere(x):
            if not (isinstance(x, T) and x.dtype == "bool" and x.tlen is None):
                raise Unsupported("argwhere of a non-boolean / timed tensor")
            pos = z3.is_true(z3.simplify(x.f == (sig.f >= 0)))
            neg = z3.is_true(z3.simplify(x.f == (sig.f < 0))) or z3.is_true(z3.simplify(x.f == z3.Not(sig.f >= 0)))
            if not (pos or neg):
                raise Unsupported("argwhere of a condition other than the sign of the signal")
            return _Group(x.f, some_pos.z if pos else some_neg.z)

        def cat(ts, dim=0):
            ts = list(ts)
            if ts and all(isinstance(t, _Sel) for t in ts):
                return _Bag(ts)
            return saved[1](ts, dim)

        def getitem(self_t, k):
            if isinstance(k, _Group):
                return _Sel(self_t, k)
            return saved[2](self_t, k)

        base_reduce = env.state.fields["batchreduce"]

        def reduce_(it, x, dim=0, **kw):
            if isinstance(x, _Bag):
                tot = z3.RealVal(0)
                for m in x.members:
                    tot = tot + z3.If(m.g.cond, tz.coerce(m.x.f, "float"), z3.RealVal(0))
                x = T(tot, "float", None, None, None)
            # the stub's own reduction (identity on the arbitrary sample; the uninterpreted functional + log in C11 mode)
            return it.call(base_reduce, [x, dim], kw)

        tn["argwhere"], tn["cat"] = argwhere, cat
        # `.view(-1, *repeat(1, dpost.ndim - 1))` only re-lays the per-sample scale out for broadcasting: in layout-free
        # mode view() ignores its shape arguments, so the (symbolic-length) repeat may be empty
        c.interp.namespaces["itertools"]._table["repeat"] = lambda v, times=None: []
        T.__getitem__ = getitem
        env.state.fields["batchreduce"] = Model(reduce_, "batchreduce(contribution of the arbitrary sample)")
        return self

    def __exit__(self, *exc):
        tn = self.c.interp.torch_ns._table
        T.__getitem__ = self.saved[2]
        for k_, v in (("argwhere", self.saved[0]), ("cat", self.saved[1])):
            if v is None:
                tn.pop(k_, None)
            else:
                tn[k_] = v
        return False

    def part_emptiness(self, first_is_pos, second_is_pos):
        """(pos part non-empty, neg part non-empty) when the first / second partial update goes to the potentiating part for
        non-negative rewards iff first_is_pos / second_is_pos (z3 booleans)"""
        sp, sn = self.some_pos.z, self.some_neg.z
        pos_nonempty = z3.Or(z3.If(first_is_pos, sp, sn), z3.If(second_is_pos, sp, sn))
        neg_nonempty = z3.Or(z3.If(first_is_pos, sn, sp), z3.If(second_is_pos, sn, sp))
        return pos_nonempty, neg_nonempty


def _mk_mstdp_tensor(cls, file, elig):
    for P in ("C09", "C08"):
        @contract(P, f"{cls}.forward[tensor_signal]", [(file, f"{cls}.forward")], tags=("trainer",), min_obligations=3)
        def fwd(c, cls=cls, P=P):
            """per-sample reward: each sample's term is scaled by |signal_b * scale| and routed by sign(lr * signal_b); a group
            with no sample contributes None, a non-empty group is never dropped"""
            lr_post, lr_pre = c.real("lr_post"), c.real("lr_pre")
            sig, scale = c.pw("signal_of_this_sample"), c.real("scale")
            if elig:
                zp, zr = c.pw("elig_post"), c.pw("elig_pre")
                c.require(zp.f >= 0, zr.f >= 0)
                mons = {"elig_post": dict(peek=zp), "elig_pre": dict(peek=zr)}
                dpost, dpre = zp.f, zr.f
                env = Env(c, mons, dict(lr_post=lr_post, lr_pre=lr_pre, delayed=False, tolerance=0.0))
            else:
                mons, s = pair_monitors(c)
                env = Env(c, mons, dict(lr_post=lr_post, lr_pre=lr_pre, delayed=False, tolerance=c.real("tol")))
                dpost, dpre = b2r(s["spike_post"][0].f) * s["trace_pre"][0].f, b2r(s["spike_pre"][0].f) * s["trace_post"][0].f
            th = tensor_signal_theory(c, env, sig)
            with th:
                out = c.outcome(c.function(file, f"{cls}.forward"), env.trainer, sig, scale)
            c.expect_return(out)
            pos, neg = env.captured("weight")
            mag = sig.f * scale.z
            mag = z3.If(mag >= 0, mag, -mag)
            c.ensure("pos_nonnegative", val(pos) >= 0)
            c.ensure("neg_nonnegative", val(neg) >= 0)
            c.ensure("this_samples_term_is_signal_scaled_and_routed_by_sign", val(pos) - val(neg) == mag * (z3.If(lr_post.z >= 0, z3.If(sig.f >= 0, dpost, -dpost), z3.If(sig.f >= 0, -dpost, dpost)) + z3.If(lr_pre.z >= 0, z3.If(sig.f >= 0, dpre, -dpre), z3.If(sig.f >= 0, -dpre, dpre))))
            # which groups feed which part (documented routing), hence when a part may be None
            pos_nonempty, neg_nonempty = th.part_emptiness(lr_post.z >= 0, lr_pre.z >= 0)
            c.ensure("potentiating_part_is_none_iff_its_groups_are_empty", z3.BoolVal(pos is None) == z3.Not(pos_nonempty))
            c.ensure("depressing_part_is_none_iff_its_groups_are_empty", z3.BoolVal(neg is None) == z3.Not(neg_nonempty))
            c.canary("canary_ignores_signal_sign", z3.And(val(pos) - val(neg) == mag * (sgn_mul(lr_post.z, dpost) + sgn_mul(lr_pre.z, dpre)), sig.f < 0, dpost > 0, lr_post.z > 0, mag > 0))


_mk_mstdp_tensor("MSTDP", T3, False)
_mk_mstdp_tensor("MSTDPET", T3, True)
