"""C10 - updater algebra: accumulate, reduce, bound, apply once, clear (contracts on the real code)."""
from __future__ import annotations

import z3

from pyvc import repo
from pyvc import tensor as tz
from pyvc.harness import contract
from pyvc.interp import Obj
from pyvc.models import Model
from pyvc.sym import _pow, num
from pyvc.tensor import T

P = "C10"
B = "inferno/functional/bounding.py"
M = "inferno/neural/modeling.py"


def _pw3(c):
    return c.pw("p"), c.pw("pos"), c.pw("neg")


def _pow_axioms(c, terms):
    """pow axiom instances (DESIGN 2.6): 0 <= x <= 1 and q >= 1  =>  0 <= x^q <= x ;  x >= 0 => x^q >= 0 ; x^1 = x."""
    seen = {}

    def walk(e):
        if e.get_id() in seen:
            return
        seen[e.get_id()] = e
        for ch in e.children():
            walk(ch)

    for t in terms:
        walk(t)
    for e in list(seen.values()):
        if z3.is_app(e) and e.decl().name() == "pow" and e.num_args() == 2:
            x, q = e.arg(0), e.arg(1)
            c.axiom(z3.Implies(z3.And(x >= 0, x <= 1, q >= 1), z3.And(e >= 0, e <= x)))
            c.axiom(z3.Implies(x >= 0, e >= 0))
            c.axiom(z3.Implies(q == 1, e == x))
            c.axiom(z3.Implies(x == 0, z3.Implies(q > 0, e == 0)))


HALF = [
    ("bound_upper_multiplicative", lambda p, u, L, k: (L - p) * u, {}),
    ("bound_lower_multiplicative", lambda p, u, L, k: (p - L) * u, {}),
    ("bound_upper_scaled_multiplicative", lambda p, u, L, k: (L - p) / k["range"] * u, {"range": "rng"}),
    ("bound_lower_scaled_multiplicative", lambda p, u, L, k: (p - L) / k["range"] * u, {"range": "rng"}),
    ("bound_upper_power", lambda p, u, L, k: _pow(L - p, k["power"]) * u, {"power": "q"}),
    ("bound_lower_power", lambda p, u, L, k: _pow(p - L, k["power"]) * u, {"power": "q"}),
    ("bound_upper_scaled_power", lambda p, u, L, k: _pow((L - p) / k["range"], k["power"]) * u, {"power": "q", "range": "rng"}),
    ("bound_lower_scaled_power", lambda p, u, L, k: _pow((p - L) / k["range"], k["power"]) * u, {"power": "q", "range": "rng"}),
    ("bound_upper_sharp", lambda p, u, L, k: z3.If(L - p > 0, 1, z3.If(L - p < 0, 0, 0)) * u, {}),
    ("bound_lower_sharp", lambda p, u, L, k: z3.If(p - L > 0, 1, z3.If(p - L < 0, 0, 0)) * u, {}),
]


def _mk_half(name, spec, kws):
    @contract(P, f"bounding.{name}", (B, name), tags=("kernel",))
    def k(c, name=name):
        p, u = c.pw("p"), c.pw("u")
        L = c.real("L")
        kv = {kk: c.real(vv) for kk, vv in kws.items()}
        if "range" in kv:
            c.require(kv["range"] > 0)
        r = c.call(c.function(B, name), p, u, L, **kv)
        c.ensure("documented_formula", r.f == spec(p.f, u.f, L.z, {kk: vv.z for kk, vv in kv.items()}))
        c.canary("canary_unbounded", r.f == u.f)

    return k


for _h in HALF:
    _mk_half(*_h)


FULL = [
    ("bound_multiplicative", {}, "mult"),
    ("bound_scaled_multiplicative", {}, "smult"),
    ("bound_power", {"upper_power": "qu", "lower_power": "ql"}, "pow"),
    ("bound_scaled_power", {"upper_power": "qu", "lower_power": "ql"}, "spow"),
    ("bound_sharp", {}, "sharp"),
]


def _mk_full(name, kws, kind):
    @contract(P, f"bounding.{name}", (B, name), tags=("kernel",))
    def k(c, name=name):
        p, pos, neg = _pw3(c)
        mx, mn = c.real("max"), c.real("min")
        c.require(mn < mx, pos.f >= 0, neg.f >= 0)
        kv = {kk: c.real(vv) for kk, vv in kws.items()}
        for v in kv.values():
            c.require(v >= 1)
        out = c.outcome(c.function(B, name), p, pos, neg, mx, mn, **kv)
        c.expect_return(out, "call_binds_keyword_only_parameters")
        d = out.value.f
        rng = mx.z - mn.z
        if kind == "mult":
            c.ensure("formula", d == (mx.z - p.f) * pos.f - (p.f - mn.z) * neg.f)
            c.ensure("stays_in_range", z3.Implies(z3.And(mn.z <= p.f, p.f <= mx.z, pos.f <= 1, neg.f <= 1), z3.And(mn.z <= p.f + d, p.f + d <= mx.z)))
        elif kind == "smult":
            c.ensure("formula", d == (mx.z - p.f) / rng * pos.f - (p.f - mn.z) / rng * neg.f)
            c.ensure("stays_in_range", z3.Implies(z3.And(mn.z <= p.f, p.f <= mx.z, pos.f <= rng, neg.f <= rng), z3.And(mn.z <= p.f + d, p.f + d <= mx.z)))
        elif kind == "pow":
            c.ensure("formula", d == _pow(mx.z - p.f, kv["upper_power"].z) * pos.f - _pow(p.f - mn.z, kv["lower_power"].z) * neg.f)
        elif kind == "spow":
            xu, xl = (mx.z - p.f) / rng, (p.f - mn.z) / rng
            c.ensure("formula", d == _pow(xu, kv["upper_power"].z) * pos.f - _pow(xl, kv["lower_power"].z) * neg.f)
            _pow_axioms(c, [d])
            c.ensure("stays_in_range_order_ge_1", z3.Implies(z3.And(mn.z <= p.f, p.f <= mx.z, pos.f <= rng, neg.f <= rng), z3.And(mn.z <= p.f + d, p.f + d <= mx.z)))
        else:
            c.ensure("never_beyond_reached_upper_limit", z3.Implies(p.f >= mx.z, d <= 0))
            c.ensure("never_beyond_reached_lower_limit", z3.Implies(p.f <= mn.z, d >= 0))
            c.ensure("inside_unbounded", z3.Implies(z3.And(mn.z < p.f, p.f < mx.z), d == pos.f - neg.f))
        c.canary("canary_zero", d == 0)

    return k


for _f in FULL:
    _mk_full(*_f)


# ----------------------------------------------------------------------- Accumulator / Updater
def new_acc(c):
    cv = c.interp.classv(repo.load_module(M).classes["Accumulator"])
    return c.interp.instantiate(cv, [], {})


@contract(P, "Accumulator.cache", [(M, "Accumulator.pos"), (M, "Accumulator.pos@setter"), (M, "Accumulator.pos@deleter"), (M, "Accumulator.neg"), (M, "Accumulator.neg@setter"), (M, "Accumulator.neg@deleter"), (M, "Accumulator.__init__")])
def acc_cache(c):
    """representation invariant  cache = bottom or cache = reduce(list)  exercised over every interleaving of up to
    three contributions with reads in between (values symbolic)."""
    a = new_acc(c)
    side = c.choice("side", ["pos", "neg"])
    xs = [c.pw(f"x{i}") for i in range(3)]
    other = c.pw("o")
    read1 = c.choice("read_after_first", [True, False])
    read2 = c.choice("read_after_second", [True, False])
    touch_other = c.choice("touch_other_side_between", [True, False])
    oside = "neg" if side == "pos" else "pos"
    c.ensure("empty_is_none", c.getattr(a, side) is None)
    c.setattr(a, side, xs[0])
    if read1:
        c.ensure("one_part", c.getattr(a, side).f == xs[0].f)
    if touch_other:
        c.setattr(a, oside, other)
        c.ensure("other_side", c.getattr(a, oside).f == other.f)
    c.setattr(a, side, xs[1])
    if read2:
        c.ensure("two_parts_sum", c.getattr(a, side).f == xs[0].f + xs[1].f)
    c.setattr(a, side, None)
    c.setattr(a, side, xs[2])
    c.ensure("three_parts_sum_order_independent", c.getattr(a, side).f == xs[2].f + xs[0].f + xs[1].f)
    c.interp.delattr(a, side)
    c.ensure("deleted_is_none", c.getattr(a, side) is None)
    if touch_other:
        c.ensure("other_side_untouched_by_delete", c.getattr(a, oside).f == other.f)
    c.canary("canary_impossible", xs[0].f != xs[0].f + 0)


class _Prefix:
    """ghost summary of the contributions accumulated so far: n of them (n >= 0 symbolic), the i-th being G(i) at the
    arbitrary element, their sum S (S = 0 for n = 0)."""

    def __init__(self, n, G, S):
        self.n, self.G, self.S = n, G, S


class _SymParamList:
    """nn.ParameterList holding a symbolic number of earlier contributions (ghost prefix) followed by the tensors the
    real code appends during the contract."""

    is_module = True

    def __init__(self, prefix):
        self.prefix, self.l = prefix, []

    def sym_iter(self, interp):
        return [self.prefix] + list(self.l)

    def sym_len(self, interp):
        from pyvc.sym import SV
        return SV(self.prefix.n.z + len(self.l))

    def sym_truth(self, interp):
        return self.sym_len(interp) > 0

    def sym_getattr(self, interp, name):
        if name == "append":
            def app(v):
                self.l.append(v)
                return self
            return app
        if name in ("train", "eval"):
            return lambda *a: self
        from pyvc.sym import SymRaise
        raise SymRaise("AttributeError", f"ParameterList has no attribute {name}")


@contract(P, "Accumulator.cache[any number of contributions]", [(M, "Accumulator.pos"), (M, "Accumulator.pos@setter"), (M, "Accumulator.pos@deleter"), (M, "Accumulator.neg"), (M, "Accumulator.neg@setter"), (M, "Accumulator.neg@deleter"), (M, "Accumulator.__init__")], min_obligations=6)
def acc_cache_unbounded(c):
    """induction step of the representation invariant for ANY number of contributions: from an accumulator side that
    holds n >= 0 earlier contributions with sum S (ghost prefix; the cache either not filled or filled by a read),
    appending v makes the side read S + v, appending None changes nothing, the other side is untouched, delete empties.
    torch.stack / torch.sum over the list are summarised as 'sum of the prefix (S) plus the finite tail' - the additive
    law of a sum over a concatenation, assumed; everything else is the real code."""
    from pyvc.sym import SV, Unsupported
    tbl = c.interp.namespaces["torch"]._table
    real_stack, real_sum = tbl["stack"], tbl["sum"]

    def stack(ts, dim=0):
        ts = list(ts)
        if ts and isinstance(ts[0], _Prefix):
            if num(dim) is not None and not (isinstance(dim, int) and dim == 0):
                raise Unsupported("stack of contributions along another axis")
            pre, tail = ts[0], ts[1:]
            if any(isinstance(x, _Prefix) for x in tail):
                raise Unsupported("two prefixes")
            n = pre.n.z
            vals = [x.f for x in tail]

            def f(t):
                r = pre.G(t)
                for i, v in enumerate(vals):
                    r = z3.If(t == n + i, v, r)
                return r

            out = T(f, "float", SV(n + len(tail)), "first", tail[0].eshape if tail else None)
            out._summary = (pre, tail)
            return out
        return real_stack(ts, dim)

    def tsum(x, dim=None, **kw):
        if isinstance(x, T) and getattr(x, "_summary", None) is not None:
            if not (isinstance(dim, int) and dim == 0):
                raise Unsupported("reduction of the stacked contributions along another axis")
            pre, tail = x._summary
            tot = pre.S.z
            for t in tail:
                tot = tot + t.f
            return T(tot, "float", None, None, x.eshape)
        return real_sum(x, dim, **kw)

    tbl["stack"], tbl["sum"] = stack, tsum
    a = new_acc(c)
    side = c.choice("side", ["pos", "neg"])
    oside = "neg" if side == "pos" else "pos"
    n, S = c.int("n"), c.real("S")
    on, oS = c.int("on"), c.real("oS")
    c.require(n.z >= 0, on.z >= 0, z3.Implies(n.z == 0, S.z == 0), z3.Implies(on.z == 0, oS.z == 0))
    G = c.func("G", z3.IntSort(), z3.RealSort())
    oG = c.func("oG", z3.IntSort(), z3.RealSort())
    c.setattr(a, "_" + side, _SymParamList(_Prefix(n, G, S)))
    c.setattr(a, "_" + oside, _SymParamList(_Prefix(on, oG, oS)))
    v, w = c.pw("v"), c.pw("w")
    # the cache of either side may or may not have been filled by an earlier read
    if c.choice("cache_filled_before", [True, False]):
        r0 = c.getattr(a, side)
        if r0 is None:
            c.ensure("empty_side_reads_none", n.z == 0)
        else:
            c.ensure("invariant_on_entry", z3.And(n.z > 0, r0.f == S.z))
    if c.choice("other_cache_filled_before", [True, False]):
        c.getattr(a, oside)
    c.setattr(a, side, v)
    r1 = c.getattr(a, side)
    c.ensure("append_adds_exactly_the_contribution", r1 is not None and r1.f == S.z + v.f)
    o1 = c.getattr(a, oside)
    c.ensure("other_side_untouched_by_append", (o1 is None and c.ex.implied(on.z == 0)) or (o1 is not None and c.ex.implied(z3.And(on.z > 0, o1.f == oS.z))))
    c.setattr(a, side, None)
    r2 = c.getattr(a, side)
    c.ensure("none_contributes_nothing", r2 is not None and r2.f == S.z + v.f)
    c.setattr(a, side, w)
    r3 = c.getattr(a, side)
    c.ensure("second_append_adds_again", r3 is not None and r3.f == S.z + v.f + w.f)
    c.interp.delattr(a, side)
    c.ensure("deleted_is_none", c.getattr(a, side) is None)
    o2 = c.getattr(a, oside)
    c.ensure("other_side_untouched_by_delete", (o2 is None and c.ex.implied(on.z == 0)) or (o2 is not None and c.ex.implied(z3.And(on.z > 0, o2.f == oS.z))))
    c.canary("canary_append_lost", r1 is not None and r1.f == S.z)


@contract(P, "Accumulator.update", [(M, "Accumulator.update"), (M, "Accumulator.forward"), (M, "Accumulator.upperbound"), (M, "Accumulator.lowerbound"), (M, "Accumulator.fullbound"), (M, "Accumulator.clear"), (M, "Accumulator.reduction")])
def acc_update(c):
    a = new_acc(c)
    p, x, y = c.pw("p"), c.pw("x"), c.pw("y")
    have = c.choice("parts", ["both", "pos", "neg", "none"])
    # the two half bounds are independent settings: whatever the order in which they are configured (or re-configured),
    # each keeps its own function and limit
    mode = c.choice("bounding", ["none", "half", "full", "half_upper_only", "half:lo,up", "half:up,lo,up", "half:lo,up,lo", "half_lower_only"])
    UB = c.func("ub", z3.RealSort(), z3.RealSort(), z3.RealSort(), z3.RealSort())
    LB = c.func("lb", z3.RealSort(), z3.RealSort(), z3.RealSort(), z3.RealSort())
    FB = c.func("fb", *([z3.RealSort()] * 6))
    mx, mn = c.real("max"), c.real("min")
    ubm = Model(lambda it, par, u, lim, **k: T(UB(par.f, u.f, num(lim)), "float"), "upper_bound_fn")
    lbm = Model(lambda it, par, u, lim, **k: T(LB(par.f, u.f, num(lim)), "float"), "lower_bound_fn")
    fbm = Model(lambda it, par, u, v, hi, lo, **k: T(FB(par.f, u.f, v.f, num(hi), num(lo)), "float"), "full_bound_fn")
    if mode == "half":
        c.call(c.getattr(a, "upperbound"), ubm, mx)
        c.call(c.getattr(a, "lowerbound"), lbm, mn)
    elif mode.startswith("half:"):
        for which in mode.split(":")[1].split(","):
            if which == "up":
                c.call(c.getattr(a, "upperbound"), ubm, mx)
            else:
                c.call(c.getattr(a, "lowerbound"), lbm, mn)
        mode = "half"
    elif mode == "half_upper_only":
        c.call(c.getattr(a, "upperbound"), ubm, mx)
    elif mode == "half_lower_only":
        c.call(c.getattr(a, "lowerbound"), lbm, mn)
    elif mode == "full":
        c.call(c.getattr(a, "fullbound"), fbm, mx, mn)
    if have in ("both", "pos"):
        c.setattr(a, "pos", x)
    if have in ("both", "neg"):
        c.setattr(a, "neg", y)
    out = c.outcome(c.getattr(a, "forward"), p)
    c.expect_return(out)
    res = out.value
    px = x.f if have in ("both", "pos") else z3.RealVal(0)
    ny = y.f if have in ("both", "neg") else z3.RealVal(0)
    if have == "none":
        c.ensure("nothing_accumulated_leaves_parameter", res is p or res.f == p.f)
    elif mode == "none":
        c.ensure("old_plus_pos_minus_neg", res.f == p.f + px - ny)
    elif mode == "half":
        exp = (UB(p.f, x.f, mx.z) if have != "neg" else 0) - (LB(p.f, y.f, mn.z) if have != "pos" else 0)
        c.ensure("pos_through_upper_bound_neg_through_lower_bound", res.f == p.f + exp)
    elif mode == "half_upper_only":
        exp = (UB(p.f, x.f, mx.z) if have != "neg" else 0) - (y.f if have != "pos" else 0)
        c.ensure("only_pos_bounded", res.f == p.f + exp)
    elif mode == "half_lower_only":
        exp = (x.f if have != "neg" else 0) - (LB(p.f, y.f, mn.z) if have != "pos" else 0)
        c.ensure("only_neg_bounded", res.f == p.f + exp)
    else:
        c.ensure("full_bound_of_both_parts", res.f == p.f + FB(p.f, px, ny, mx.z, mn.z))
    # after clear a second application changes nothing
    c.call(c.getattr(a, "clear"))
    again = c.call(c.getattr(a, "forward"), p)
    c.ensure("second_application_after_clear_is_identity", again is p or again.f == p.f)
    c.canary("canary_plus_neg", z3.And(have == "both", mode == "none", res.f == p.f + px + ny, ny != 0))


@contract(P, "Accumulator.reduction", [(M, "Accumulator.reduction"), (M, "Accumulator.__init__"), (M, "Accumulator.pos"), (M, "Accumulator.neg"), (M, "Accumulator.update")])
def acc_reduction(c):
    """the configured reduction is THE function applied to the stack of all parts of a side - also when the side holds a
    single part (a reduction need not be the identity on a stack of one: scaled sums, capped sums, RMS) - over dim 0,
    for both sides; the value reaches update(); resetting restores the sum"""
    a = new_acc(c)
    side = c.choice("side", ["pos", "neg"])
    xs = [c.pw("x0"), c.pw("x1"), c.pw("x2")]
    RED = {n: c.func(f"custom_reduce{n}", *([z3.RealSort()] * (n + 1))) for n in (1, 2, 3)}
    calls = []

    def red(it, stacked, dim):
        calls.append(dim)
        n = stacked.tlen if isinstance(stacked.tlen, int) else None
        if n not in RED:
            raise __import__("pyvc.sym", fromlist=["Unsupported"]).Unsupported("reduction of a stack of unexpected length")
        return T(RED[n](*[stacked.f(z3.IntVal(i)) for i in range(n)]), "float")

    c.call(c.getattr(a, "reduction"), Model(red, "custom_reduction"))
    c.setattr(a, side, xs[0])
    one = c.getattr(a, side)
    c.ensure("custom_reduction_applied_to_a_single_part", z3.And(one is not None, one.f == RED[1](xs[0].f), calls == [0]))
    p = c.pw("p")
    upd = c.call(c.getattr(a, "update"), p)
    sgn = 1 if side == "pos" else -1
    c.ensure("single_reduced_part_is_the_update", z3.And(upd is not None, upd.f == sgn * RED[1](xs[0].f)))
    del calls[:]
    c.setattr(a, side, xs[1])
    c.ensure("custom_reduction_used_over_dim0", z3.And(c.getattr(a, side).f == RED[2](xs[0].f, xs[1].f), calls == [0]))
    c.setattr(a, side, xs[2])
    c.ensure("custom_reduction_of_three_parts_in_order", c.getattr(a, side).f == RED[3](xs[0].f, xs[1].f, xs[2].f))
    c.call(c.getattr(a, "reduction"), None)
    c.interp.delattr(a, side)
    c.setattr(a, side, xs[0])
    c.setattr(a, side, xs[1])
    c.ensure("default_is_sum", c.getattr(a, side).f == xs[0].f + xs[1].f)
    c.canary("canary_single_part_unreduced", z3.And(one is not None, one.f == xs[0].f))


def _parent(c, names=("weight", "bias")):
    par = Obj(None, "parent")
    vals = {}
    for n in names:
        vals[n] = c.pw(f"par_{n}")
        par.fields[n] = vals[n]
    return par, vals


@contract(P, "Updater", [(M, "Updater.__init__"), (M, "Updater._getacc_"), (M, "Updater._setacc_"), (M, "Updater._delacc_"), (M, "Updater.forward"), (M, "Updater.clear")])
def updater(c):
    par, vals = _parent(c)
    cv = c.interp.classv(repo.load_module(M).classes["Updater"])
    custom = c.choice("reduction", ["default", "custom"])
    RED = c.func("custom_reduce", z3.RealSort(), z3.RealSort(), z3.RealSort())
    red = Model(lambda it, st, dim: T(RED(st.f(z3.IntVal(0)), st.f(z3.IntVal(1))) if (isinstance(st.tlen, int) and st.tlen == 2) else st.f(z3.IntVal(0)), "float"), "custom_reduction")
    out = c.outcome(cv, par, "weight", "bias", reduction=(red if custom == "custom" else None))
    c.expect_return(out, "constructor")
    u = out.value
    w1, w2, wn, b1 = c.pw("w1"), c.pw("w2"), c.pw("wn"), c.pw("b1")
    c.setattr(u, "weight", (w1, wn))  # one trainer contributes (pos, neg)
    c.setattr(u, "weight", w2)  # another contributes a potentiating part only
    which = c.choice("apply", ["all", "weight_only"])
    if which == "all":
        c.call(u)
    else:
        c.call(u, "weight")
    redw = RED(w1.f, w2.f) if custom == "custom" else w1.f + w2.f
    c.ensure("weight_applied", par.fields["weight"].f == vals["weight"].f + redw - wn.f)
    c.ensure("bias_untouched_when_nothing_accumulated", par.fields["bias"].f == vals["bias"].f)
    c.call(c.getattr(u, "clear"))
    before = par.fields["weight"]
    c.call(u)
    c.ensure("second_application_after_clear_changes_nothing", par.fields["weight"].f == before.f)
    c.setattr(u, "bias", b1)
    c.interp.delattr(u, "bias")
    c.call(u)
    c.ensure("deleted_contribution_not_applied", par.fields["bias"].f == vals["bias"].f)
    c.canary("canary_weight_unchanged", par.fields["weight"].f == vals["weight"].f)


ASSUMPTIONS = [
    "A1: order independence of the default sum reduction holds in real arithmetic (floating-point rounding is the declared unverified clause)",
    "pow(x, q) is uninterpreted with the axioms 0<=x<=1, q>=1 => 0<=x^q<=x ; x>=0 => x^q>=0 ; x^1 = x",
    "Accumulator cache invariant: (a) every interleaving of up to three contributions per side with reads/deletes in between, default sum computed by the engine's own stack/sum; (b) the INDUCTION STEP for any number n >= 0 of earlier contributions per side (contract 'Accumulator.cache[any number of contributions]': a ghost prefix of n tensors with sum S in the real _pos/_neg lists, caches filled or not): appending v makes the side read S + v, None adds nothing, the other side is untouched, delete empties. In (b) torch.stack / torch.sum over a list of symbolic length are summarised by the additive law sum(prefix ++ tail) = S + sum(tail), which is assumed, and the ParameterList holding the prefix is a contract-side model; histories of any length follow by lean/Induction.lean invariant_fold",
    "bounding callables given to Accumulator are pure element-wise functions (uninterpreted)",
]


@contract(P, "Updatable.update_and_updatesome", [(M, "Updatable.update"), (M, "Updatable.updatesome"), (M, "Updatable.clear"), (M, "Updatable.updater"), (M, "Updatable.updater@setter"), (M, "Updatable.updatable")], min_obligations=4)
def updatable_apply(c):
    """the two ways a module applies its accumulated updates, on the real Updatable mixin with a recording updater:
    update() applies everything once and then - unless clear=False - clears everything; updatesome(p1, ..., pk) applies
    exactly the named parameters in order, each one cleared right after its own application (every one of them, unless
    clear=False), the unnamed ones neither applied nor cleared; keyword arguments are forwarded"""
    cv = c.interp.classv(repo.load_module(M).classes["Updatable"])
    mod = c.interp.instantiate(cv, [], {})
    log = []
    up = Obj(None, "updater")
    names = ["weight", "bias", "delay"]
    for n_ in names:
        acc = Obj(None, f"accumulator[{n_}]")
        acc.fields["clear"] = Model(lambda it, n_=n_, **kw: log.append(("clear", n_, kw)), f"{n_}.clear")
        up.fields[n_] = acc
    up.fields["clear"] = Model(lambda it, **kw: log.append(("clear_all", kw)), "updater.clear")
    up.fields["__call__"] = Model(lambda it, *a, **kw: log.append(("apply", a, kw)), "updater.__call__")
    c.setattr(mod, "updater", up)
    clear = c.choice("clear", ["default", True, False])
    ckw = {} if clear == "default" else {"clear": clear}
    clears = clear is not False
    which = c.choice("call", ["update", "updatesome:1", "updatesome:2", "updatesome:3", "updatesome:none"])
    if which == "update":
        c.call(c.getattr(mod, "update"), flag=7, **ckw)
        c.ensure("update_applies_everything_once_then_clears_everything", log == [("apply", (), {"flag": 7})] + ([("clear_all", {"flag": 7})] if clears else []))
    else:
        k = which.split(":")[1]
        sel = {"1": ["bias"], "2": ["delay", "weight"], "3": ["weight", "bias", "delay"], "none": []}[k]
        c.call(c.getattr(mod, "updatesome"), *sel, flag=7, **ckw)
        want = []
        for n_ in sel:
            want.append(("apply", (n_,), {"flag": 7}))
            if clears:
                want.append(("clear", n_, {"flag": 7}))
        c.ensure("each_named_parameter_applied_then_cleared_in_order", log == want)
        c.ensure("every_named_parameter_is_cleared", sorted(e[1] for e in log if e[0] == "clear") == (sorted(sel) if clears else []))
        c.ensure("unnamed_parameters_untouched", all(e[0] != "clear_all" and (e[0] != "clear" or e[1] in sel) for e in log))
    c.canary("canary_nothing_happens", z3.BoolVal(not log and which != "updatesome:none"))

MUTANTS = [
    dict(file=M, func="Accumulator.pos@setter", old="            self._pos_cache.cache_clear()", new="            pass", contracts=["Accumulator.cache[any number of contributions]"], name="unbounded step: a contribution appended after a read leaves the cached sum stale"),
    dict(file=M, func="Accumulator.__init__", old="            if len(self._neg):\n                return self.reduce(torch.stack([*self._neg], 0), 0)", new="            if len(self._neg):\n                return self.reduce(torch.stack([*self._pos], 0), 0)", contracts=["Accumulator.cache[any number of contributions]"], name="unbounded step: the negative side reduces the positive list"),
    dict(file=M, func="Accumulator.neg@setter", old="        if value is not None:\n            self._neg.append(value)\n            self._neg_cache.cache_clear()", new="        if value is not None:\n            self._neg_cache.cache_clear()\n            self._neg.append(value)", contracts=["Accumulator.cache[any number of contributions]"], expect="survives", name="control: cache cleared before the append (no read in between)"),
    dict(file=M, func="Accumulator.upperbound", old="        if not isinstance(self.bind, list):", new="        if not isinstance(self.bind, tuple):", contracts=["Accumulator.update"], name="seed C10g: configuring the upper bound discards a lower bound configured earlier"),
    dict(file=M, func="Updatable.updatesome", old="            self.updater(p, **kwargs)\n            if clear:\n                getattr(self.updater, p).clear(**kwargs)", new="            self.updater(p, **kwargs)\n        if clear:\n            getattr(self.updater, p).clear(**kwargs)", contracts=["Updatable.update_and_updatesome"], name="seed C10f: only the last named parameter is cleared"),
    dict(file=M, func="Updatable.update", old="            if clear:\n                self.updater.clear(**kwargs)", new="            if not clear:\n                self.updater.clear(**kwargs)", contracts=["Updatable.update_and_updatesome"], name="update: clear flag inverted"),
    dict(file=M, func="Accumulator.neg@setter", old="self._neg_cache.cache_clear()", new="self._pos_cache.cache_clear()", contracts=["Accumulator.cache", "Accumulator.cache[any number of contributions]", "Accumulator.update"], name="seed C10: neg setter clears the wrong cache"),
    dict(file=M, func="Accumulator.pos@deleter", old="self._pos_cache.cache_clear()", new="pass", contracts=["Accumulator.cache", "Accumulator.cache[any number of contributions]", "Updater"]),
    dict(file=M, func="Accumulator.update", old="return self.bind[0](param, pos) - self.bind[1](param, neg)", new="return self.bind[0](param, pos) + self.bind[1](param, neg)", contracts=["Accumulator.update"]),
    dict(file=M, func="Accumulator.update", old="return self.bind[0](param, pos) - self.bind[1](param, neg)", new="return self.bind[1](param, pos) - self.bind[0](param, neg)", contracts=["Accumulator.update"]),
    dict(file=M, func="Accumulator.clear", old="        del self.neg", new="        pass", contracts=["Accumulator.update"]),
    dict(file=M, func="Updater.__init__", old="acc.reduction(reduction)", new="acc.reduction = reduction", contracts=["Updater"], name="D10 regression: reduction assigned instead of called"),
    dict(file=B, func="bound_power", old="power=upper_power)", new="upper_power)", contracts=["bounding.bound_power"], name="D9 regression: keyword-only power passed positionally"),
    dict(file=B, func="bound_upper_multiplicative", old="return (limit - param) * update", new="return (param - limit) * update"),
    dict(file=B, func="bound_upper_sharp", old="torch.heaviside(diff, zeros(diff, shape=()))", new="torch.heaviside(diff, zeros(diff, shape=()) + 1)", contracts=["bounding.bound_upper_sharp", "bounding.bound_sharp"]),
    dict(file=B, func="bound_scaled_multiplicative", old="pos = bound_upper_scaled_multiplicative(param, pos, max, max - min)", new="pos = bound_upper_scaled_multiplicative(param, pos, max, max + min)", contracts=["bounding.bound_scaled_multiplicative"]),
]
