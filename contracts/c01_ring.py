"""C01 - RecordTensor is a faithful ring-buffer history (contracts on the real methods).

Abstract view (taken from the property statement):  M(k) = observation k steps before the
write position = data[(ptr - k) mod N].  Every clause quantifies over ALL N >= 1, pointer
positions, integer offsets and element positions (Skolem constants), so each obligation
covers N = 1, wrap-around and full-length ranges at once.
"""
from __future__ import annotations

import z3

from pyvc import tensor as tz
from pyvc.harness import contract
from pyvc.sym import num, smod

from .fixtures import INF, Rec

P = "C01"
DTYPES = [("float", "float"), ("float", "int"), ("bool", "float"), ("int", "float"), ("bool", "bool")]


def _base(c, dtype="float"):
    N, ptr = c.int("N"), c.int("ptr")
    c.require(N >= 1, 0 <= ptr, ptr < N)
    return N, ptr, Rec(c, N, ptr, dtype)


def conv(z, tag):
    return tz.coerce(z, tag)


@contract(P, "RecordTensor.read", (INF, "RecordTensor.read"))
def read(c):
    N, ptr, r = _base(c)
    off = c.int("off")
    out = c.outcome(r.method("read"), off)
    c.expect_return(out)
    c.ensure("value", out.value.f == r.M0(off))
    c.ensure("no_time_axis", out.value.tlen is None)
    c.ensure("frame", z3.And(r.ptr == ptr, r.data is r.owner.fields["_x_data"], not r.owner.writes))
    c.canary("canary_wrong_slot", out.value.f == r.M0(off + 1))


@contract(P, "RecordTensor.read[default_offset]", (INF, "RecordTensor.read"))
def read_default(c):
    N, ptr, r = _base(c)
    out = c.outcome(r.method("read"))
    c.expect_return(out)
    c.ensure("latest", out.value.f == r.M0(1))


@contract(P, "RecordTensor.write", (INF, "RecordTensor.write"))
def write(c):
    od, dd = c.choice("dtypes", DTYPES)
    N, ptr, r = _base(c, dd)
    off, k = c.int("off"), c.int("k")
    inplace = c.bool("inplace")
    obs = c.pw("obs", od, eshape=r.S)
    out = c.outcome(r.method("write"), obs, off, inplace)
    c.expect_return(out)
    hit = smod(num(k) - num(off), num(N)) == 0
    c.ensure("wf", r.wf1())
    c.ensure("slot_written", z3.Implies(hit, r.M1(k) == conv(obs.f, dd)))
    c.ensure("others_kept", z3.Implies(z3.Not(hit), r.M1(k) == r.M0(k)))
    c.ensure("ptr_kept", r.ptr == ptr)
    c.ensure("dtype_kept", r.data.dtype == dd)
    c.canary("canary_all_kept", r.M1(k) == r.M0(k))


@contract(P, "RecordTensor.write[shape_mismatch]", (INF, "RecordTensor.write"))
def write_shape(c):
    N, ptr, r = _base(c)
    obs = c.pw("obs", "float", eshape=tz.Shape((tz.Star("Sobs"),)))
    same = z3.Bool("shape_eq[S|Sobs]")
    c.symbols["shape_eq"] = same
    out = c.outcome(r.method("write"), obs, c.int("off"), c.bool("inplace"))
    if out.raised:
        c.ensure("raises_only_on_mismatch", z3.And(out.raised == "ValueError", z3.Not(same)))
    else:
        c.ensure("accepts_only_match", same)


@contract(P, "RecordTensor.incr", (INF, "RecordTensor.incr"))
def incr(c):
    N, ptr, r = _base(c)
    p, k = c.int("p"), c.int("k")
    out = c.outcome(r.method("incr"), p)
    c.expect_return(out)
    c.ensure("wf", r.wf1())
    c.ensure("ptr", num(r.ptr) == smod(num(ptr) + num(p), num(N)))
    c.ensure("view_shift", r.M1(k) == r.M0(k - p))
    c.ensure("returns_ptr", num(out.value) == num(r.ptr))
    c.canary("canary_noshift", r.M1(k) == r.M0(k))


@contract(P, "RecordTensor.decr", (INF, "RecordTensor.decr"))
def decr(c):
    N, ptr, r = _base(c)
    p, k = c.int("p"), c.int("k")
    out = c.outcome(r.method("decr"), p)
    c.expect_return(out)
    c.ensure("wf", r.wf1())
    c.ensure("ptr", num(r.ptr) == smod(num(ptr) - num(p), num(N)))
    c.ensure("view_shift", r.M1(k) == r.M0(k + p))


@contract(P, "RecordTensor.push", [(INF, "RecordTensor.push"), (INF, "RecordTensor.write"), (INF, "RecordTensor.incr")])
def push(c):
    od, dd = c.choice("dtypes", DTYPES)
    N, ptr, r = _base(c, dd)
    k = c.int("k")
    inplace = c.bool("inplace")
    obs = c.pw("obs", od, eshape=r.S)
    out = c.outcome(r.method("push"), obs, inplace)
    c.expect_return(out)
    newest = smod(num(k) - 1, num(N)) == 0
    c.ensure("wf", r.wf1())
    c.ensure("newest_is_obs", z3.Implies(newest, r.M1(k) == conv(obs.f, dd)))
    c.ensure("history_shifted", z3.Implies(z3.Not(newest), r.M1(k) == r.M0(k - 1)))
    c.ensure("ptr_advanced", num(r.ptr) == smod(num(ptr) + 1, num(N)))
    c.canary("canary_not_shifted", r.M1(k) == r.M0(k))


@contract(P, "RecordTensor.push[uninitialized]", [(INF, "RecordTensor.push"), (INF, "RecordTensor.initialize")])
def push_uninit(c):
    kind = c.choice("storage", ["none", "empty_float", "empty_int"])
    od = c.choice("obs_dtype", ["float", "int", "bool"])
    N, ptr = c.int("N"), c.int("ptr")
    c.require(N >= 1)
    r = Rec(c, N, 0, initialized=False)
    if kind == "none":
        r.owner.fields["_x_data"] = None
    else:
        e = c.call(c.interp.torch_ns.get("empty"), 0, dtype=kind.split("_")[1])
        r.owner.fields["_x_data"] = e
    k = c.int("k")
    obs = c.pw("obs", od, eshape=r.S)
    inplace = c.choice("inplace", [False, True])
    out = c.outcome(r.method("push"), obs, inplace)
    c.expect_return(out)
    d = r.data
    c.ensure("storage_created", z3.And(d is not None, d.tlen is not None))
    c.ensure("wf", r.wf1())
    c.ensure("obs_shape", d.eshape is not None and bool(z3.is_true(z3.simplify(d.eshape.eq(r.S)))))
    newest = smod(num(k) - 1, num(N)) == 0
    if kind == "none":
        # the record had no data type: it adopts the observation's (property statement)
        c.ensure("adopts_dtype", d.dtype == od)
    else:
        # typed (empty) storage keeps ITS data type (the write converts the observation, C01 write contract)
        sd = kind.split("_")[1]
        c.ensure("typed_storage_keeps_its_dtype", d.dtype == sd)
    c.ensure("newest_is_obs", z3.Implies(newest, r.M1(k) == conv(obs.f, d.dtype)))
    c.ensure("rest_zero", z3.Implies(z3.Not(newest), r.M1(k) == conv(z3.IntVal(0), d.dtype)))
    c.ensure("ptr", num(r.ptr) == smod(z3.IntVal(1), num(N)))


@contract(P, "RecordTensor.pop", [(INF, "RecordTensor.pop")])
def pop(c):
    N, ptr, r = _base(c)
    k = c.int("k")
    out = c.outcome(r.method("pop"))
    c.expect_return(out)
    c.ensure("wf", r.wf1())
    c.ensure("returns_latest", out.value.f == r.M0(1))
    c.ensure("view_shift", r.M1(k) == r.M0(k + 1))
    c.canary("canary", out.value.f == r.M0(0))


@contract(P, "RecordTensor.peek", [(INF, "RecordTensor.peek")])
def peek(c):
    N, ptr, r = _base(c)
    out = c.outcome(r.method("peek"))
    c.expect_return(out)
    c.ensure("returns_latest", out.value.f == r.M0(1))
    c.ensure("frame", z3.And(r.ptr == ptr, not r.owner.writes))


@contract(P, "RecordTensor.peek_pop[uninitialized]", [(INF, "RecordTensor.peek"), (INF, "RecordTensor.pop")])
def peek_uninit(c):
    N = c.int("N")
    c.require(N >= 1)
    r = Rec(c, N, 0, initialized=False)
    r.owner.fields["_x_data"] = None
    which = c.choice("op", ["peek", "pop", "read", "incr"])
    out = c.outcome(r.method(which)) if which in ("peek", "pop") else c.outcome(r.method(which), 1)
    if which in ("peek", "pop"):
        c.expect_return(out)
        c.ensure("none", out.value is None)
    else:
        c.expect_raise(out, "RuntimeError")
        c.ensure("raised", True)


@contract(P, "RecordTensor.latest", [(INF, "RecordTensor.latest"), (INF, "RecordTensor.latest@setter"), (INF, "RecordTensor.latest@deleter")])
def latest(c):
    N, ptr, r = _base(c)
    k = c.int("k")
    which = c.choice("accessor", ["get", "set", "del"])
    if which == "get":
        v = c.getattr(r.rec, "latest")
        c.ensure("get_is_M1", v.f == r.M0(1))
    elif which == "set":
        obs = c.pw("obs", "float", eshape=r.S)
        c.setattr(r.rec, "latest", obs)
        newest = smod(num(k) - 1, num(N)) == 0
        c.ensure("wf", r.wf1())
        c.ensure("set_pushes", z3.If(newest, r.M1(k) == obs.f, r.M1(k) == r.M0(k - 1)))
    else:
        c.interp.delattr(r.rec, "latest")
        c.ensure("wf", r.wf1())
        c.ensure("del_pops", r.M1(k) == r.M0(k + 1))


@contract(P, "RecordTensor.readrange[scalar]", (INF, "RecordTensor.readrange"))
def readrange_scalar(c):
    N, ptr, r = _base(c)
    L, off, j = c.int("L"), c.int("off"), c.int("j")
    fwd = c.bool("forward")
    c.require(1 <= L, L <= N, 0 <= j, j < L)
    out = c.outcome(r.method("readrange"), L, off, fwd)
    c.expect_return(out)
    res = out.value
    c.ensure("time_last", res.taxis == "last")
    c.ensure("length", num(res.tlen) == num(L))
    exp = z3.If(fwd.z, r.M0(off - j), r.M0(off + L - 1 - j))
    c.ensure("elements_oldest_to_newest", z3.Implies(num(res.tlen) == num(L), res.at(j) == exp))
    c.ensure("frame", z3.And(r.ptr == ptr, not r.owner.writes))
    c.canary("canary_reversed", res.at(j) == z3.If(fwd.z, r.M0(off + L - 1 - j), r.M0(off - j)))


@contract(P, "RecordTensor.readrange[tensor]", (INF, "RecordTensor.readrange"))
def readrange_tensor(c):
    N, ptr, r = _base(c)
    L, j = c.int("L"), c.int("j")
    off = c.pw("off", "int", eshape=r.S)
    fwd = c.bool("forward")
    c.require(1 <= L, L <= N, 0 <= j, j < L)
    out = c.outcome(r.method("readrange"), L, off, fwd)
    c.expect_return(out)
    res = out.value
    c.ensure("time_last", res.taxis == "last")
    c.ensure("length", num(res.tlen) == num(L))
    o = off.f
    exp = z3.If(fwd.z, r.M0(o - j.z), r.M0(o + L.z - 1 - j.z))
    c.ensure("elements_oldest_to_newest", res.at(j) == exp)
    c.ensure("frame", z3.And(r.ptr == ptr, not r.owner.writes))
    c.canary("canary_reversed", res.at(j) == z3.If(fwd.z, r.M0(o + L.z - 1 - j.z), r.M0(o - j.z)))


def _writerange_post(c, r, N, ptr, L, o, fwd, obs, dd, k):
    """forall k: M'(k) = obs[j] if k == (o - j | o + L - 1 - j) mod N for some j in [0,L), else M(k)."""
    # witness: the unique j in [0,L) (if any) whose slot is k.  base = newest-side offset of column 0
    base = z3.If(fwd.z, num(o), num(o) + num(L) - 1)  # column j lives at M(base - j)
    jj = smod(base - num(k), num(N))  # candidate column
    hit = jj < num(L)
    c.ensure("wf", r.wf1())
    c.ensure("written", z3.Implies(hit, r.M1(k) == tz.coerce(obs.at(jj), dd)))
    c.ensure("others_kept", z3.Implies(z3.Not(hit), r.M1(k) == r.M0(k)))
    c.ensure("ptr_kept", r.ptr == ptr)


@contract(P, "RecordTensor.writerange[scalar]", (INF, "RecordTensor.writerange"))
def writerange_scalar(c):
    od, dd = c.choice("dtypes", [("float", "float"), ("bool", "bool"), ("int", "int")])
    N, ptr, r = _base(c, dd)
    L, off, k = c.int("L"), c.int("off"), c.int("k")
    fwd, inplace = c.bool("forward"), c.bool("inplace")
    c.require(1 <= L, L <= N)
    obs = c.seq("obs", L, od, "last", r.S)
    out = c.outcome(r.method("writerange"), obs, off, fwd, inplace)
    c.expect_return(out)
    _writerange_post(c, r, N, ptr, L, off, fwd, obs, dd, k)
    c.canary("canary_nothing_written", r.M1(k) == r.M0(k))


@contract(P, "RecordTensor.writerange[tensor]", (INF, "RecordTensor.writerange"))
def writerange_tensor(c):
    dd = c.choice("dtype", ["float", "bool"])
    N, ptr, r = _base(c, dd)
    L, k = c.int("L"), c.int("k")
    off = c.pw("off", "int", eshape=r.S)
    fwd, inplace = c.bool("forward"), c.bool("inplace")
    c.require(1 <= L, L <= N)
    obs = c.seq("obs", L, dd, "last", r.S)
    out = c.outcome(r.method("writerange"), obs, off, fwd, inplace)
    c.expect_return(out)
    _writerange_post(c, r, N, ptr, L, SVz(off.f), fwd, obs, dd, k)
    c.canary("canary_nothing_written", r.M1(k) == r.M0(k))


def SVz(z):
    from pyvc.sym import SV

    return SV(z)


@contract(P, "RecordTensor.writerange[too_long]", (INF, "RecordTensor.writerange"))
def writerange_toolong(c):
    N, ptr, r = _base(c)
    L = c.int("L")
    c.require(L > N)
    obs = c.seq("obs", L, "float", "last", r.S)
    out = c.outcome(r.method("writerange"), obs, c.int("off"), c.bool("forward"), c.bool("inplace"))
    c.expect_raise(out, "ValueError")
    c.ensure("refused", True)


@contract(P, "RecordTensor.align", (INF, "RecordTensor.align"))
def align(c):
    N, ptr, r = _base(c)
    i, k = c.int("i"), c.int("k")
    c.require(0 <= i, i < N)
    out = c.outcome(r.method("align"), i)
    c.expect_return(out)
    c.ensure("wf", r.wf1())
    c.ensure("ptr", num(r.ptr) == num(i))
    c.ensure("view_preserved", r.M1(k) == r.M0(k))
    c.canary("canary_storage_unchanged", r.data.at(k) == r.D0(k.z))


@contract(P, "RecordTensor.reset", (INF, "RecordTensor.reset"))
def reset(c):
    N, ptr, r = _base(c)
    k = c.int("k")
    mode = c.choice("fill", ["value", "none", "default"])
    if mode == "value":
        fill = c.real("fill")
        out = c.outcome(r.method("reset"), fill)
    elif mode == "none":
        out = c.outcome(r.method("reset"), None)
    else:
        out = c.outcome(r.method("reset"))
    c.expect_return(out)
    c.ensure("wf", r.wf1())
    c.ensure("ptr0", num(r.ptr) == 0)
    if mode == "value":
        c.ensure("filled", r.M1(k) == fill.z)
    elif mode == "default":
        c.ensure("zeroed", r.M1(k) == 0)
    else:
        c.ensure("view_preserved", r.M1(k) == r.M0(k))


ASSUMPTIONS = [
    "owner of the record is an inferno.Module whose attribute protocol is the real Module.__getattr__/__setattr__ (interpreted), on top of the modelled nn.Module attribute store",
    "element positions are independent: all operations used by RecordTensor act identically at every element position (time-axis slicing/cat/roll/gather/scatter on dim 0, element-wise casts)",
    "type conversion obs.to(dtype) is the standard value conversion (float->int truncation, x->bool as x != 0, bool->{0,1}); torch's promotion table itself is exercised only by the bounded dtype matrix",
    "observations are non-empty tensors (numel > 0)",
]

_F = INF

@contract(P, "RecordTensor.defaults", [(INF, "RecordTensor.write"), (INF, "RecordTensor.readrange"), (INF, "RecordTensor.writerange")])
def defaults(c):
    """what callers get when they leave the optional arguments out (the library's own callers mostly do): write goes to
    the write position (offset 0) out of place; readrange starts one back (offset 1) and reads backwards; writerange
    starts at the write position (offset 0), backwards, out of place"""
    N, ptr, r = _base(c)
    L, j, k = c.int("L"), c.int("j"), c.int("k")
    c.require(1 <= L, L <= N, 0 <= j, j < L, 0 <= k, k < N)
    which = c.choice("operation", ["write", "readrange", "writerange"])
    if which == "write":
        obs = c.pw("obs", "float", eshape=r.S)
        out = c.outcome(r.method("write"), obs)
        c.expect_return(out)
        hit = smod(num(k), num(N)) == 0
        c.ensure("default_write_position", z3.If(hit, r.M1(k) == obs.f, r.M1(k) == r.M0(k)))
        c.canary("canary_written_one_back", z3.And(smod(num(k) - 1, num(N)) == 0, r.M1(k) == obs.f, z3.Not(hit), r.M0(k) != obs.f))
    elif which == "readrange":
        out = c.outcome(r.method("readrange"), L)
        c.expect_return(out)
        res = out.value
        c.ensure("default_offset_one_reading_backwards", z3.And(num(res.tlen) == num(L), res.at(j) == r.M0(1 + L - 1 - j)))
        c.canary("canary_forward", z3.And(res.at(j) == r.M0(1 - j), L.z > 1, r.M0(1 - j) != r.M0(L - j)))
    else:
        obs = c.seq("W", L, "float", "last", r.S)
        out = c.outcome(r.method("writerange"), obs)
        c.expect_return(out)
        W = c.symbols["W"]
        # same layout as readrange: position j of the range is the observation (L - 1 - j) steps before offset 0
        jj = c.int("jj")
        c.require(0 <= jj, jj < L)
        hit = smod(num(k) - (L.z - 1 - jj.z), num(N)) == 0
        c.ensure("default_offset_zero_written_backwards", z3.Implies(hit, r.M1(k) == W(jj.z)))
        covered = z3.And(smod(num(k), num(N)) >= 0, smod(num(k), num(N)) <= L.z - 1)
        c.ensure("slots_outside_the_range_untouched", z3.Implies(z3.Not(covered), r.M1(k) == r.M0(k)))
        c.canary("canary_nothing_written", r.M1(k) == r.M0(k))



@contract(P, "RecordTensor.__init__[initial observation]", [(INF, "RecordTensor.__init__"), (INF, "RecordTensor.write"), (INF, "RecordTensor.push"), (INF, "RecordTensor.read")], min_obligations=4)
def ctor_initial_value(c):
    """a record constructed with an initial observation (how every synapse builds its spike / current history) holds that
    observation in every slot, and its slots are INDEPENDENT storage: one push - in place or not - changes the newest
    slot only, every older slot still reads the initial observation"""
    from pyvc import repo as _repo

    it = c.interp
    mod = _repo.load_module(INF)
    Module = it.classv(mod.classes["Module"])
    RT = it.classv(mod.classes["RecordTensor"])
    dt, dur = c.real("dt"), c.real("dur")
    c.require(dt > 0, dur >= 0)
    # observations may be SCALARS (0-dimensional): their shape () is falsy in Python although the storage is initialised
    oshape = tz.Shape(c.choice("observation_shape", [(3,), ()]))
    v0 = c.pw("initial_observation", "float", eshape=oshape)
    obs = c.pw("pushed_observation", "float", eshape=oshape)
    owner = it.instantiate(Module, [], {})
    rec = it.instantiate(RT, [owner, "x", dt, dur, v0], {"inclusive": True})
    N = num(owner.fields["_x_constraints"][0])
    tz.TIME_SIZES.append(N)
    data = owner.fields["_x_data"]
    k = c.int("k")
    c.require(0 <= k, k < N)
    c.ensure("every_slot_holds_the_initial_observation", z3.And(num(data.tlen) == N, data.f(k.z) == v0.f))
    inplace = c.choice("inplace", [True, False])
    out = c.outcome(c.getattr(rec, "push"), obs, inplace)
    c.expect_return(out)
    j = c.int("steps_back")
    c.require(1 <= j, j < N)
    newest = c.call(c.getattr(rec, "read"), 1)
    c.ensure("newest_is_the_pushed_observation", newest.f == obs.f)
    older = c.outcome(c.getattr(rec, "read"), j + 1)
    if older.ok:
        c.ensure("older_slots_still_hold_the_initial_observation", z3.Implies(j.z + 1 <= N, older.value.f == v0.f))
    c.canary("canary_every_slot_overwritten", z3.And(N >= 2, older.ok and older.value.f == obs.f, v0.f != obs.f))

MUTANTS = [
    dict(file=INF, func="RecordTensor.__init__", old="                value = value.unsqueeze(0).repeat(\n                    *chain((size,), repeat(1, times=value.ndim))\n                )", new="                value = value.unsqueeze(0).expand(size, *value.shape)", contracts=["RecordTensor.__init__[initial observation]"], name="seed C01g: initial storage is a stride-0 view (all slots share one row)"),
    dict(file=INF, func="RecordTensor.push", old="                dtype=(obs.dtype if self.__data is None else None),", new="                dtype=obs.dtype,", contracts=["RecordTensor.push[uninitialized]"], name="seed C01d: first push overrides the data type of typed empty storage"),
    dict(file=INF, func="RecordTensor.readrange", old="        offset: int | torch.Tensor = 1,\n        forward: bool = False,\n    ) -> torch.Tensor:", new="        offset: int | torch.Tensor = 0,\n        forward: bool = False,\n    ) -> torch.Tensor:", contracts=["RecordTensor.defaults"], name="readrange: default offset changed"),
    dict(file=INF, func="RecordTensor.write", old="def write(self, obs: torch.Tensor, offset: int = 0, inplace: bool = False)", new="def write(self, obs: torch.Tensor, offset: int = 1, inplace: bool = False)", contracts=["RecordTensor.defaults"], name="write: default offset changed"),
    dict(file=_F, func="_unwind_ptr", old="(pointer - int(offset)) % size", new="(pointer + int(offset)) % size", contracts=["RecordTensor.read", "RecordTensor.write"]),
    dict(file=_F, func="_unwind_ptr", old="(pointer - int(offset)) % size", new="(pointer - int(offset))", contracts=["RecordTensor.read"]),
    dict(file=_F, func="RecordTensor.read", old="offset: int = 1", new="offset: int = 0"),
    dict(file=_F, func="RecordTensor.write", old="data[slice(index + 1, None), ...]", new="data[slice(index, None), ...]"),
    dict(file=_F, func="RecordTensor.readrange", old="if start >= end:", new="if start > end:", name="D1 regression: readrange start > end"),
    dict(file=_F, func="RecordTensor.readrange", old="if start >= end:", new="if start <= end:"),
    dict(file=_F, func="RecordTensor.readrange", old="end = _unwind_ptr(ptr, offset - length, recordsz)", new="end = _unwind_ptr(ptr, offset - length + 1, recordsz)"),
    dict(file=_F, func="RecordTensor.readrange", old="offset.unsqueeze(-1)\n                - torch.arange", new="offset.unsqueeze(-1)\n                + torch.arange"),
    dict(file=_F, func="RecordTensor.writerange", old="elif ptr + length > recordsz:", new="elif ptr + length >= recordsz:", expect="survives", name="control: wrapped branch also correct when the range ends exactly at the end of storage"),
    dict(file=_F, func="RecordTensor.writerange", old="obs[slice(recordsz - ptr, None), ...].to(dtype=data.dtype),\n", new="obs[slice(recordsz - ptr - 1, None), ...].to(dtype=data.dtype),\n"),
    dict(file=_F, func="RecordTensor.writerange", old="data[slice(ptr + length, None), ...]", new="data[slice(ptr + length + 1, None), ...]"),
    dict(file=_F, func="RecordTensor.push", old="self.write(obs, offset=0, inplace=inplace)\n        self.incr(1)", new="self.incr(1)\n        self.write(obs, offset=0, inplace=inplace)"),
    dict(file=_F, func="RecordTensor.push", old="dtype=(obs.dtype if self.__data is None else None),", new="dtype=None,", name="D2 regression: push does not adopt dtype"),
    dict(file=_F, func="RecordTensor.align", old="data.roll(index - self.__pointer, 0)", new="data.roll(self.__pointer - index, 0)"),
    dict(file=_F, func="RecordTensor.reset", old="            self.__pointer = 0\n", new="            pass\n"),
    dict(file=_F, func="RecordTensor.incr", old="_unwind_ptr(self.__pointer, -pos, self.__recordsz)", new="_unwind_ptr(self.__pointer, pos, self.__recordsz)"),
    dict(file=_F, func="RecordTensor.pop", old="self.decr(1)\n            return self.read(0)", new="self.decr(1)\n            return self.read(1)"),
    dict(file=INF, func="RecordTensor.push", old="        if self._ignore(self.__data):\n            self.initialize(", new="        if not self.shape:\n            self.initialize(", contracts=["RecordTensor.__init__[initial observation]"], name="seed C01h: a record of scalar observations is re-initialised by every push"),
]
