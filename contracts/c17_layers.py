"""C17 - layers wire components as documented; clear() cascades to every component.  Components are uninterpreted
(stub connections / neurons whose calls return uninterpreted functions of their inputs and record their kwargs);
the REAL Layer / Serial / Biclique / RecurrentSerial constructors, wiring, forward and clear are executed."""
from __future__ import annotations

import itertools

import z3

from pyvc import repo
from pyvc import tensor as tz
from pyvc.harness import contract
from pyvc.interp import Obj
from pyvc.models import Model
from pyvc.tensor import T

P = "C17"
NW = "inferno/neural/network.py"
R = z3.RealSort()
SHAPE = tz.Shape((z3.Int("B"), 3))


def uf(name, n=1):
    return z3.Function(name, *([R] * (n + 1)))


def component(c, name, kind, log):
    o = Obj(None, f"{kind}:{name}")
    F = uf(f"{kind}_{name}")

    def call(it, *xs, **kw):
        log.append((kind, name, "call", xs, kw))
        x = xs[0]
        return T(F(tz.coerce(x.f, "float")), "float", None, None, SHAPE)

    o.fields["__call__"] = Model(call, f"{kind}:{name}.__call__")
    o.fields["clear"] = Model(lambda it, **kw: log.append((kind, name, "clear", (), kw)), f"{kind}:{name}.clear")
    o.fields["outshape"] = (3,)
    o.fields["shape"] = (3,)
    o.fields["batchedshape"] = (z3.Int("B"), 3)
    if kind == "neuron":
        o.fields["spike"] = T(z3.Bool(f"spike_{name}_initial"), "bool", None, None, SHAPE)
        prev = o.fields["__call__"]

        def ncall(it, *xs, **kw):
            r = prev.fn(it, *xs, **kw)
            sp = T(r.f > 0, "bool", None, None, SHAPE)  # spikes returned by the step are what .spike reports afterwards
            o.fields["spike"] = sp
            return sp

        o.fields["__call__"] = Model(ncall, f"neuron:{name}.__call__")
    return o, F


def xform(name):
    G = uf(name)
    return Model(lambda it, x, **kw: T(G(tz.coerce(x.f, "float")), "float", None, None, x.eshape), name), G


def layer_cls(c, name):
    return c.interp.classv(repo.load_module(NW).classes[name])


@contract(P, "Serial", [(NW, "Serial.__init__"), (NW, "Serial.wiring"), (NW, "Serial.forward"), (NW, "Layer.forward"), (NW, "Layer.clear"), (NW, "Layer.add_cell")])
def serial(c):
    log = []
    conn, C = component(c, "c", "connection", log)
    neu, N = component(c, "n", "neuron", log)
    tmode = c.choice("transform", ["default", "custom"])
    tr, G = xform("transform")
    lay = c.call(layer_cls(c, "Serial"), conn, neu, tr if tmode == "custom" else None)
    x = c.pw("x", eshape=SHAPE)
    cap = c.choice("capture_intermediate", [False, True])
    ckw, nkw = {"ck": 1}, {"nk": 2}
    out = c.outcome(c.getattr(lay, "forward"), x, connection_kwargs=ckw, neuron_kwargs=nkw, capture_intermediate=cap)
    c.expect_return(out)
    res = out.value
    mid = G(C(x.f)) if tmode == "custom" else C(x.f)
    spikes = res[0] if cap else res
    c.ensure("output_is_neuron_of_transform_of_connection", spikes.f == (N(mid) > 0))
    if cap:
        c.ensure("intermediate_is_connection_output", res[1].f == C(x.f))
    calls = [e for e in log if e[2] == "call"]
    c.ensure("each_component_called_once_in_order", [(e[0], e[1]) for e in calls] == [("connection", "c"), ("neuron", "n")])
    c.ensure("kwargs_routed_to_their_component", calls[0][4] == ckw and calls[1][4] == nkw)
    c.ensure("output_has_neuron_batched_shape", spikes.eshape is SHAPE or bool(z3.is_true(z3.simplify(spikes.eshape.eq(SHAPE)))))
    log.clear()
    c.call(c.getattr(lay, "clear"), keep_adaptations=True)
    cl = [(e[0], e[1], e[4]) for e in log if e[2] == "clear"]
    c.ensure("clear_reaches_every_component_with_kwargs", sorted(cl, key=str) == sorted([("connection", "c", {"keep_adaptations": True}), ("neuron", "n", {"keep_adaptations": True})], key=str))
    c.canary("canary_skips_transform", z3.And(tmode == "custom", spikes.f == (N(C(x.f)) > 0), G(C(x.f)) != C(x.f), N(C(x.f)) > 0, N(G(C(x.f))) <= 0) if tmode == "custom" else spikes.f == (C(x.f) > 12345))


@contract(P, "Biclique", [(NW, "Biclique.__init__"), (NW, "Biclique.wiring"), (NW, "Layer.forward"), (NW, "Layer.clear")])
def biclique(c):
    log = []
    conns = {k: component(c, k, "connection", log) for k in ("a", "b", "c")}
    neus = {k: component(c, k, "neuron", log) for k in ("x", "y")}
    post = {"a": xform("post_a"), "b": xform("post_b")}  # connection c: default identity
    pre = {"y": xform("pre_y")}  # neuron x: default identity
    combine = c.choice("combine", ["sum", "mean", "prod", "min", "max", "custom"])
    CB = z3.Function("custom_combine", R, R, R, R)

    def custom(it, tensors, **kw):
        return T(CB(tensors["a"].f, tensors["b"].f, tensors["c"].f), "float", None, None, tensors["a"].eshape)

    cl = [("a", conns["a"][0], post["a"][0]), ("b", conns["b"][0], post["b"][0]), ("c", conns["c"][0])]
    nl = [("x", neus["x"][0]), ("y", neus["y"][0], pre["y"][0])]
    lay = c.call(layer_cls(c, "Biclique"), cl, nl, Model(custom, "custom_combine") if combine == "custom" else combine)
    xs = {k: c.pw(f"in_{k}", eshape=SHAPE) for k in ("a", "b", "c")}
    order = c.choice("input_order", [("a", "b", "c"), ("c", "a", "b"), ("b", "c", "a")])
    inputs = {k: (xs[k],) for k in order}
    out = c.outcome(c.getattr(lay, "forward"), inputs)
    c.expect_return(out)
    res = out.value
    t = {"a": post["a"][1](conns["a"][1](xs["a"].f)), "b": post["b"][1](conns["b"][1](xs["b"].f)), "c": conns["c"][1](xs["c"].f)}
    vals = [t["a"], t["b"], t["c"]]
    if combine == "sum":
        comb = vals[0] + vals[1] + vals[2]
    elif combine == "mean":
        comb = (vals[0] + vals[1] + vals[2]) / 3
    elif combine == "prod":
        comb = vals[0] * vals[1] * vals[2]
    elif combine == "min":
        comb = z3.If(z3.And(vals[0] <= vals[1], vals[0] <= vals[2]), vals[0], z3.If(vals[1] <= vals[2], vals[1], vals[2]))
    elif combine == "max":
        comb = z3.If(z3.And(vals[0] >= vals[1], vals[0] >= vals[2]), vals[0], z3.If(vals[1] >= vals[2], vals[1], vals[2]))
    else:
        comb = CB(*vals)
    c.ensure("every_group_returned", sorted(res) == ["x", "y"])
    c.ensure("group_x_gets_combination_of_transformed_outputs", res["x"].f == (neus["x"][1](comb) > 0))
    c.ensure("group_y_gets_its_pre_transform_of_the_combination", res["y"].f == (neus["y"][1](pre["y"][1](comb)) > 0))
    ncalls = [e for e in log if e[0] == "neuron" and e[2] == "call"]
    c.ensure("neuron_inputs_have_batched_shape", all(bool(z3.is_true(z3.simplify(e[3][0].eshape.eq(SHAPE)))) for e in ncalls) and len(ncalls) == 2)
    log.clear()
    c.call(c.getattr(lay, "clear"))
    c.ensure("clear_reaches_every_component", sorted((e[0], e[1]) for e in log if e[2] == "clear") == sorted([("connection", k) for k in "abc"] + [("neuron", k) for k in "xy"]))
    c.canary("canary_untransformed", z3.And(res["x"].f == (neus["x"][1](conns["a"][1](xs["a"].f) + conns["b"][1](xs["b"].f) + conns["c"][1](xs["c"].f)) > 0), combine == "sum", post["a"][1](conns["a"][1](xs["a"].f)) != conns["a"][1](xs["a"].f)))


@contract(P, "RecurrentSerial", [(NW, "RecurrentSerial.__init__"), (NW, "RecurrentSerial.wiring"), (NW, "RecurrentSerial.forward"), (NW, "RecurrentSerial.clear"), (NW, "Layer.forward")])
def recurrent(c):
    log = []
    cff, Cff = component(c, "ff", "connection", log)
    clat, Clat = component(c, "lat", "connection", log)
    cfb, Cfb = component(c, "fb", "connection", log)
    nff, Nff = component(c, "nff", "neuron", log)
    nfb, Nfb = component(c, "nfb", "neuron", log)
    lay = c.call(layer_cls(c, "RecurrentSerial"), cff, clat, cfb, nff, nfb)
    x1, x2 = c.pw("x1", eshape=SHAPE), c.pw("x2", eshape=SHAPE)
    c.ensure("no_feedback_before_first_step", lay.fields.get("feedback_spikes") is None)
    b2r = lambda b: z3.If(b, z3.RealVal(1), z3.RealVal(0))  # noqa: E731
    o1 = c.outcome(c.getattr(lay, "forward"), x1)
    c.expect_return(o1)
    ff1, fb1 = o1.value
    eff1 = Nff(Cff(x1.f) + Cfb(z3.RealVal(0))) > 0  # no spikes on the first step
    c.ensure("first_step_feedforward_without_feedback", ff1.f == eff1)
    efb1 = Nfb(Clat(b2r(eff1))) > 0
    c.ensure("first_step_feedback_group_driven_by_feedforward_spikes", fb1.f == efb1)
    c.ensure("feedback_spikes_stored", lay.fields["feedback_spikes"].f == efb1)
    o2 = c.outcome(c.getattr(lay, "forward"), x2)
    c.expect_return(o2)
    ff2, fb2 = o2.value
    eff2 = Nff(Cff(x2.f) + Cfb(b2r(efb1))) > 0
    c.ensure("second_step_uses_previous_feedback_spikes", ff2.f == eff2)
    c.ensure("second_step_feedback_group", fb2.f == (Nfb(Clat(b2r(eff2))) > 0))
    order = [(e[0], e[1]) for e in log if e[2] == "call"][:5]
    c.ensure("feedforward_pass_before_lateral_pass", order[-2:] == [("connection", "lat"), ("neuron", "nfb")] and ("neuron", "nff") in order[:3] and len(order) == 5)
    log.clear()
    c.call(c.getattr(lay, "clear"))
    c.ensure("clear_resets_feedback_and_reaches_components", lay.fields["feedback_spikes"] is None and sorted((e[0], e[1]) for e in log if e[2] == "clear") == sorted([("connection", k) for k in ("ff", "lat", "fb")] + [("neuron", k) for k in ("nff", "nfb")]))
    o3 = c.outcome(c.getattr(lay, "forward"), x1)
    c.expect_return(o3)
    c.ensure("after_clear_first_step_again_without_feedback", o3.value[0].f == eff1)
    # keyword arguments for individual components: each one receives exactly its own (e.g. adapt=False for one neuron group)
    log.clear()
    kws = dict(feedfwd_connection_kwargs={"a": 1}, lateral_connection_kwargs={"b": 2}, feedback_connection_kwargs={"c": 3}, feedfwd_neuron_kwargs={"adapt": False}, feedback_neuron_kwargs={"adapt": True, "refrac_lock": False})
    o4 = c.outcome(c.getattr(lay, "forward"), x2, **kws)
    c.expect_return(o4)
    got = {(e[0], e[1]): e[4] for e in log if e[2] == "call"}
    c.ensure("keyword_arguments_reach_exactly_their_component", got == {("connection", "ff"): {"a": 1}, ("connection", "lat"): {"b": 2}, ("connection", "fb"): {"c": 3}, ("neuron", "nff"): {"adapt": False}, ("neuron", "nfb"): {"adapt": True, "refrac_lock": False}})
    c.canary("canary_feedback_ignored", z3.And(ff2.f == (Nff(Cff(x2.f) + Cfb(z3.RealVal(0))) > 0), efb1, Cfb(z3.RealVal(1)) != Cfb(z3.RealVal(0)), Nff(Cff(x2.f) + Cfb(z3.RealVal(1))) > 0, Nff(Cff(x2.f) + Cfb(z3.RealVal(0))) <= 0))


ASSUMPTIONS = [
    "components are uninterpreted functions of their first input (the contracts of the components themselves are C03-C06); per-component clear() restoring the constructor state is proved for neurons (C03), synapses (C04); Connection.clear and Updatable.clear delegation is covered by the bounded stand-in",
    "neuron stubs report as .spike the spikes returned by their last call (C03 clause)",
]


NB = "inferno/neural/base.py"
MD = "inferno/neural/modeling.py"
LIN = "inferno/neural/connections/linear.py"


@contract(P, "Connection.clear", [(NB, "Connection.clear"), (MD, "Updatable.clear"), (MD, "Updatable.update"), (MD, "Updatable.updater"), (MD, "Updatable.updater@setter"), (MD, "Updatable.updater@deleter"), (MD, "Updatable.updatable")])
def connection_clear(c):
    """what Layer.clear reaches: a connection's clear resets its synapse AND drops pending (accumulated, not yet
    applied) parameter updates, with the keyword arguments forwarded; update() applies then clears"""
    from . import layoutfree as lf

    log = []
    lf.install(c)
    dt = c.real("dt")
    c.require(dt > 0)
    cv = c.interp.classv(repo.load_module(LIN).classes["LinearDense"])
    conn = c.call(cv, (4,), (3,), dt, synapse=lf.synapse_ctor(c, log))
    has = c.choice("updater", ["attached", "none", "attached_then_deleted"])
    ulog = []
    if has != "none":
        up = Obj(None, "updater")
        up.fields["clear"] = Model(lambda it, **kw: ulog.append(("clear", kw)), "updater.clear")
        up.fields["__call__"] = Model(lambda it, *a, **kw: ulog.append(("apply", a, kw)), "updater.__call__")
        c.setattr(conn, "updater", up)
        c.ensure("updater_attached", c.getattr(conn, "updater") is up and c.getattr(conn, "updatable") is True)
        if has == "attached_then_deleted":
            c.interp.delattr(conn, "updater")
            c.ensure("deleted_updater_is_gone", c.getattr(conn, "updater") is None and c.getattr(conn, "updatable") is False)
    live = has == "attached"
    log.clear()
    c.call(c.getattr(conn, "clear"), keep=1)
    c.ensure("synapse_cleared_with_kwargs", [e for e in log if e[0] == "clear"] == [("clear", {"keep": 1})])
    c.ensure("pending_updates_dropped_with_kwargs_iff_updatable", ulog == ([("clear", {"keep": 1})] if live else []))
    ulog.clear()
    c.call(c.getattr(conn, "update"), flag=2)
    c.ensure("update_applies_then_clears", ulog == ([("apply", (), {"flag": 2}), ("clear", {"flag": 2})] if live else []))
    ulog.clear()
    c.call(c.getattr(conn, "update"), clear=False)
    c.ensure("update_without_clear_keeps_accumulated_state", ulog == ([("apply", (), {})] if live else []))
    c.canary("canary_synapse_not_cleared", z3.BoolVal(not [e for e in log if e[0] == "clear"]))

# the last link of "clearing a layer returns every component to rest": the REAL clear of every shipped synapse (part of the
# C04 step contracts) and neuron class (C03 `*.clear`) - the layer contracts above use stubs that obey exactly these
from pyvc.harness import REGISTRY as _REG  # noqa: E402
from . import c03_neurons as _c03, c04_synapses as _c04  # noqa: E402,F401

for _cd in list(_REG.get("C04", [])):
    if _cd.name.endswith(".forward") and not any(x.name == _cd.name for x in _REG.get(P, [])):
        contract(P, _cd.name, list(_cd.targets), min_obligations=_cd.min_obligations)(_cd.fn)
# RecurrentSerial does not use what its neurons RETURN for the lateral and feedback paths but their `spike` attribute: that
# the attribute equals the spikes of the most recent step is a clause of the C03 step contracts (`*.forward`), which are
# therefore obligations of this property too (known finding D22 at refrac_t = 0 included - see known_findings.txt)
for _cd in list(_REG.get("C03", [])):
    if (_cd.name.endswith(".clear") or _cd.name.endswith(".forward")) and not any(x.name == _cd.name for x in _REG.get(P, [])):
        contract(P, _cd.name, list(_cd.targets), min_obligations=_cd.min_obligations)(_cd.fn)

MUTANTS = [
    dict(file=NW, func="RecurrentSerial.forward", old="            neuron_kwargs=nkw,\n            capture_intermediate=True,\n            forward_pass=False,", new="            capture_intermediate=True,\n            forward_pass=False,", contracts=["RecurrentSerial"], name="seed C11g: keyword arguments of the feedback neuron group dropped"),
    dict(file="inferno/neural/neurons/mixins.py", func="SpikeRefractoryMixin.spike", old="        return self.refrac == getattr(self, self.__absrefrac_attr)", new="        return self.refrac > 0", contracts=["LIF.forward"], name="seed C17f / C03e: the spike attribute means 'still refractory'"),
    dict(file=NW, func="Biclique.__init__", old='                        list(tensors.values()), "s ... -> ...", combine.lower()', new='                        torch.cat(list(tensors.values())), "s ... -> ...", combine.lower()', contracts=["Biclique"], name="seed C11e: connection outputs concatenated along the batch axis before the combine reduction"),
    dict(file="inferno/neural/synapses/expcurrent.py", func="DoubleExponentialCurrent.clear", old="        self.neg_current_.reset(0.0)", new="        self.pos_current_.reset(0.0)", contracts=["DoubleExponentialCurrent.forward"], name="seed C17e: clear never resets the rise component"),
    dict(file="inferno/neural/base.py", func="Connection.clear", old="        self.synapse.clear(**kwargs)", new="        self.synapse.clear()", contracts=["Connection.clear"]),
    dict(file="inferno/neural/base.py", func="Connection.clear", old="        Updatable.clear(self, **kwargs)\n", new="", contracts=["Connection.clear"]),
    dict(file=NW, func="Layer.clear", old="for connection in self.connections_.values():", new="for connection in self.connections_:", contracts=["Serial", "Biclique"], name="D17 regression: clear iterates ModuleDict keys"),
    dict(file=NW, func="Biclique.__init__", old='"s ... -> ..."', new='"s ... -> () ..."', contracts=["Biclique"], name="D18 regression: combine keeps a leading singleton axis"),
    dict(file=NW, func="Biclique.wiring", old="{k: self.post_input[k](v) for k, v in inputs.items()}", new="{k: f(v) for (k, v), f in zip(inputs.items(), self.post_input.values())}", contracts=["Biclique"], name="seed C17: post transforms paired by position"),
    dict(file=NW, func="RecurrentSerial.wiring", old="                + self._feedback_out_transform(inputs[self.__feedback_connection_name])", new="                * self._feedback_out_transform(inputs[self.__feedback_connection_name])", contracts=["RecurrentSerial"]),
    dict(file=NW, func="RecurrentSerial.clear", old="            self.feedback_spikes = None", new="            pass", contracts=["RecurrentSerial"]),
    dict(file=NW, func="Serial.wiring", old="self._transform(\n                inputs[self.__connection_name], **kwargs\n            )", new="inputs[self.__connection_name]", contracts=["Serial"]),
    dict(file=NW, func="Layer.clear", old="            for neuron in self.neurons_.values():\n                neuron.clear(**kwargs)", new="            pass", contracts=["Serial"]),
]
