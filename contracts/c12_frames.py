"""C12 - checkpoint / restore: frame completeness.  For a deterministic step function, "restore then continue ==
continue" follows from (a) everything a step WRITES is exported by state_dict() and re-installed by load_state_dict(),
(b) derived non-persistent buffers are recomputed on load.  (a) is checked on the write log of the symbolic executor:
every field written by forward()/clear() of each stateful class must be a persistent buffer, a parameter or an extra
of its owning module (the sets are computed from the REAL constructors' register_* calls)."""
from __future__ import annotations

import z3

from pyvc import repo
from pyvc import tensor as tz
from pyvc.harness import contract
from pyvc.interp import Obj
from pyvc.models import Model
from pyvc.sym import num
from pyvc.tensor import T

from .fixtures import INF

P = "C12"
NL = "inferno/neural/neurons/linear.py"
NN = "inferno/neural/neurons/nonlinear.py"
SC = "inferno/neural/synapses/current.py"
SE = "inferno/neural/synapses/expcurrent.py"
RG = "inferno/observe/reducers/general.py"
RS = "inferno/observe/reducers/stats.py"
RT = "inferno/observe/reducers/trace.py"
CL = "inferno/learn/classifiers/simple.py"


def persisted(obj):
    f = obj.fields
    bufs = set(f.get("_buffers", {})) - set(f.get("_non_persistent", set()))
    return bufs | set(f.get("_parameters", {})) | set(f.get("_extras", {}))


def config_like(name):
    return name in ("training",)


def frame_violations(obj):
    ok = persisted(obj)
    bad = []
    for w in obj.writes:
        if w in ok or config_like(w):
            continue
        bad.append(w)
    return sorted(set(bad))


def _mk(prop_name, file, cls, ctor, drive, also=()):
    tg = [(file, f"{cls}.forward")] if "Reducer" not in cls else [("inferno/observe/reducers/base.py", "FoldReducer.forward"), ("inferno/observe/reducers/base.py", "FoldReducer.clear"), (file, f"{cls}.fold")]

    @contract(P, f"{prop_name}[frame]", tg + [(file, f"{cls}.__init__")] + list(also), tags=("frame",))
    def frame(c, cls=cls):
        cv = c.interp.classv(repo.load_module(file).classes[cls])
        obj = ctor(c, cv)
        c.ensure("constructor_registers_state", len(persisted(obj)) > 0)
        obj.writes.clear()
        drive(c, obj)
        bad = frame_violations(obj)
        c.info["written"] = ",".join(sorted(set(obj.writes)))
        c.ensure("every_written_field_is_persisted", bad == [])
        c.ensure("step_writes_something", len(obj.writes) > 0)
        # extras written through plain attribute syntax must land in the exported extras (Module.__setattr__)
        c.ensure("extras_not_shadowed_by_instance_attributes", not (set(obj.fields.get("_extras", {})) & (set(obj.fields) - {"_extras"})))
        c.canary("canary_nothing_persisted", z3.BoolVal(len(persisted(obj)) == 0))

    return frame


S13 = tz.Shape((1, 3))


def neuron_ctor(kw):
    def ctor(c, cv):
        return c.call(cv, (3,), 1.0, **kw)

    return ctor


def neuron_drive(c, n):
    c.call(c.getattr(n, "forward"), c.pw("I", eshape=S13))
    c.call(c.getattr(n, "clear"))


_mk("LIF", NL, "LIF", neuron_ctor(dict(rest_v=-60.0, reset_v=-65.0, thresh_v=-50.0, refrac_t=2.0, time_constant=20.0)), neuron_drive)
_mk("GLIF1", NL, "GLIF1", neuron_ctor(dict(rest_v=-60.0, reset_v=-65.0, thresh_v=-50.0, refrac_t=2.0, time_constant=20.0)), neuron_drive)
_mk("QIF", NN, "QIF", neuron_ctor(dict(rest_v=-60.0, crit_v=-55.0, affinity=0.3, reset_v=-62.0, thresh_v=-40.0, refrac_t=2.0, time_constant=10.0)), neuron_drive)
_mk("EIF", NN, "EIF", neuron_ctor(dict(rest_v=-60.0, rheobase_v=-52.0, sharpness=2.0, reset_v=-62.0, thresh_v=-40.0, refrac_t=2.0, time_constant=10.0)), neuron_drive)


def adaptive_drive(c, n):
    """training-mode step (adaptation learned), an eval-mode step, clear keeping and dropping adaptations: the learned
    adaptation must be state that a checkpoint carries"""
    c.call(c.getattr(n, "forward"), c.pw("I", eshape=S13), adapt=True)
    c.call(c.getattr(n, "forward"), c.pw("I2", eshape=S13), adapt=False)
    c.call(c.getattr(n, "clear"))
    c.call(c.getattr(n, "clear"), keep_adaptations=False)


def adaptive_ctor(kw, state_attr):
    def ctor(c, cv):
        def reduce_(itp, x, dim=0, **k2):  # the documented batch reduction, applied to one arbitrary sample
            es = tz.Shape(x.eshape.items[1:]) if x.eshape is not None and len(x.eshape.items) > 1 else x.eshape
            return T(x.f, x.dtype, x.tlen, x.taxis, es, x.nan)

        n = c.call(cv, (3,), 1.0, batch_reduction=Model(reduce_, "batch_reduction"), **kw)
        # the learned adaptation as an arbitrary tensor with its trailing adaptation axis (2 components)
        n.fields[state_attr] = c.seq("A", 2, "float", "last", tz.Shape((3,)))
        return n

    return ctor


_ADK = dict(rest_v=-60.0, refrac_t=2.0, tc_membrane=10.0)
_mk("ALIF", NL, "ALIF", adaptive_ctor(dict(_ADK, reset_v=-65.0, thresh_eq_v=-50.0, tc_adaptation=(30.0, 90.0), spike_increment=(1.0, -0.5)), "threshold_adaptation_"), adaptive_drive)
_mk("GLIF2", NL, "GLIF2", adaptive_ctor(dict(_ADK, reset_v_add=-2.0, reset_v_mul=0.2, thresh_eq_v=-50.0, rc_adaptation=(0.03, 0.01), spike_increment=(1.5, 0.5)), "threshold_adaptation_"), adaptive_drive)
_mk("Izhikevich", NN, "Izhikevich", adaptive_ctor(dict(_ADK, crit_v=-55.0, affinity=0.3, reset_v=-62.0, thresh_v=-40.0, tc_adaptation=(50.0, 20.0), voltage_coupling=(0.5, 0.1), spike_increment=(2.0, 1.0)), "current_adaptation_"), adaptive_drive)
_mk("AdEx", NN, "AdEx", adaptive_ctor(dict(_ADK, rheobase_v=-52.0, sharpness=2.0, reset_v=-62.0, thresh_v=-40.0, tc_adaptation=(50.0, 20.0), voltage_coupling=(0.5, 0.1), spike_increment=(2.0, 1.0)), "current_adaptation_"), adaptive_drive)


def syn_ctor(kw):
    def ctor(c, cv):
        return c.call(cv, (3,), 1.0, delay=c.real("delay_ge0") if False else 2.0, **kw)

    return ctor


def syn_drive(c, s):
    x = c.pw("x", eshape=S13)
    c.call(c.getattr(s, "forward"), x)
    c.call(c.getattr(s, "forward"), x)
    c.call(c.getattr(s, "clear"))


_mk("DeltaCurrent", SC, "DeltaCurrent", syn_ctor(dict(spike_charge=1.5)), syn_drive)
_mk("DeltaPlusCurrent", SC, "DeltaPlusCurrent", syn_ctor(dict(spike_charge=1.5)), syn_drive)
_mk("SingleExponentialCurrent", SE, "SingleExponentialCurrent", syn_ctor(dict(spike_charge=1.5, time_constant=4.0)), syn_drive)
_mk("DoubleExponentialCurrent", SE, "DoubleExponentialCurrent", syn_ctor(dict(spike_charge=1.5, tc_decay=6.0, tc_rise=2.0)), syn_drive)


def red_drive(c, r):
    x = c.pw("obs", eshape=tz.Shape((tz.Star("S"),)))
    c.require(z3.Int("numel_S") > 0, z3.Int("ndim_S") >= 0)
    c.call(c.getattr(r, "forward"), x)  # first observation: lazy initialisation
    c.call(c.getattr(r, "forward"), x)
    c.call(c.getattr(r, "clear"), True)
    c.call(c.getattr(r, "forward"), x)
    c.call(c.getattr(r, "clear"), False)


_mk("PassthroughReducer", RG, "PassthroughReducer", lambda c, cv: c.call(cv, 1.0, duration=2.0), red_drive)
_mk("EventReducer", RG, "EventReducer", lambda c, cv: c.call(cv, 1.0, Model(lambda it, x: x > 0, "criterion"), "zero", duration=2.0), red_drive)
_mk("CumulativeTraceReducer", RT, "CumulativeTraceReducer", lambda c, cv: c.call(cv, 1.0, 5.0, 0.5, 1.0, duration=2.0), red_drive)
_mk("NearestTraceReducer", RT, "NearestTraceReducer", lambda c, cv: c.call(cv, 1.0, 5.0, 0.5, 1.0, duration=2.0), red_drive)
_mk("EMAReducer", RS, "EMAReducer", lambda c, cv: c.call(cv, 1.0, 0.3, duration=2.0), red_drive)
_mk("CAReducer", RS, "CAReducer", lambda c, cv: c.call(cv, 1.0, duration=2.0), red_drive)


@contract(P, "Module.extras", [(INF, "Module.register_extra"), (INF, "Module.get_extra_state"), (INF, "Module.set_extra_state"), (INF, "Module.__setattr__"), (INF, "Module.__getattr__")])
def extras(c):
    it = c.interp
    Module = it.classv(repo.load_module(INF).classes["Module"])
    src, dst = it.instantiate(Module, [], {}), it.instantiate(Module, [], {})
    names = ["_x_pointer", "_initial", "_count"]
    vals = {"_x_pointer": c.int("saved_pointer"), "_initial": c.bool("saved_initial"), "_count": c.int("saved_count")}
    old = {"_x_pointer": c.int("target_pointer"), "_initial": c.bool("target_initial"), "_count": c.int("target_count")}
    for n in names:
        c.call(c.getattr(src, "register_extra"), n, 0 if n != "_initial" else True)
        c.call(c.getattr(dst, "register_extra"), n, 0 if n != "_initial" else True)
        c.setattr(src, n, vals[n])  # running the model: plain attribute assignment
        c.setattr(dst, n, old[n])
    state = c.call(c.getattr(src, "get_extra_state"))
    c.ensure("attribute_assignment_lands_in_exported_extras", all(n in state for n in names) and all(state[n] is vals[n] for n in names))
    c.call(c.getattr(dst, "set_extra_state"), dict(state))
    from pyvc.sym import as_bool

    for n in names:
        got = c.getattr(dst, n)
        eq = (as_bool(got) == as_bool(vals[n])) if n == "_initial" else (num(got) == num(vals[n]))
        c.ensure(f"restored[{n}]_whatever_the_target_held", eq)
    c.canary("canary_stale_pointer_kept", z3.And(num(c.getattr(dst, "_x_pointer")) == num(old["_x_pointer"]), num(old["_x_pointer"]) != num(vals["_x_pointer"])))


@contract(P, "RecordTensor.value@setter", [(INF, "RecordTensor.value@setter"), (INF, "ShapedTensor.value@setter")])
def record_value(c):
    """the path load_state_dict takes for lazily created storage: assigning ignored storage resets the pointer"""
    from .fixtures import Rec

    N, ptr = c.int("N"), c.int("ptr")
    c.require(N >= 1, 0 <= ptr, ptr < N)
    r = Rec(c, N, ptr, "float")
    kind = c.choice("assigned", ["none", "empty", "tensor"])
    if kind == "none":
        v = None
    elif kind == "empty":
        v = c.call(c.interp.torch_ns.get("empty"), 0)
    else:
        v = c.seq("NEW", N, "float", "first", r.S)
    out = c.outcome(lambda: c.setattr(r.rec, "value", v))
    c.expect_return(out, "assignment_succeeds")
    c.ensure("data_replaced", r.owner.fields["_x_data"] is v)
    if kind != "tensor":
        c.ensure("ignored_storage_resets_pointer", num(r.ptr) == 0)
    else:
        c.ensure("pointer_kept_for_real_storage", num(r.ptr) == ptr.z)
    c.ensure("data_is_persistent_buffer_pointer_is_extra", "_x_data" in persisted(r.owner) and "_x_pointer" in r.owner.fields["_extras"])


@contract(P, "MaxRateClassifier[derived_buffers]", [(CL, "MaxRateClassifier.__init__"), (CL, "MaxRateClassifier.rates@setter")])
def classifier(c):
    it = c.interp
    hooks = []
    from pyvc import models as M

    ext = M._EXT_TABLES["nn.Module"]
    from pyvc.interp import ExtMethod

    ext["register_load_state_dict_post_hook"] = ExtMethod(lambda itp, self, hook: hooks.append(hook), "register_load_state_dict_post_hook")
    R = z3.RealSort()
    NRM, AMX, BIN = z3.Function("normalize_l1", R, R), z3.Function("argmax", R, z3.IntSort()), z3.Function("bincount", z3.IntSort(), z3.IntSort())
    it.F_ns._table["normalize"] = Model(lambda itp, v, p=2.0, dim=None, **k: T(NRM(v.f), "float", None, None, v.eshape), "F.normalize")
    it.torch_ns._table["argmax"] = Model(lambda itp, v, dim=None: T(AMX(v.f), "int", None, None, v.eshape), "torch.argmax")
    it.torch_ns._table["bincount"] = Model(lambda itp, v, w=None, minlength=0: T(BIN(v.f), "int", None, None, tz.Shape((minlength,))), "torch.bincount")
    T.view = lambda self, *a: self
    try:
        cv = it.classv(repo.load_module(CL).classes["MaxRateClassifier"])
        m = c.call(cv, (3,), 4)
        c.ensure("load_hook_registered", len(hooks) == 1)
        c.ensure("rates_is_parameter_derived_are_non_persistent_buffers", "rates_" in persisted(m) and all(n in m.fields["_non_persistent"] for n in ("assignments_", "occurrences_", "proportions_")))
        new = c.pw("loaded_rates", eshape=tz.Shape((3, 4)))
        m.fields["rates_"].data = new  # what load_state_dict does: copies into the parameter
        m.writes.clear()
        if hooks:
            c.call(hooks[0], m, None)
        c.ensure("hook_recomputes_all_three_derived_buffers", all(n in m.writes for n in ("assignments_", "occurrences_", "proportions_")))
        c.ensure("derived_from_loaded_rates", z3.And(m.fields["proportions_"].f == NRM(new.f), m.fields["assignments_"].f == AMX(NRM(new.f)), m.fields["occurrences_"].f == BIN(AMX(NRM(new.f)))))
        c.canary("canary_stale", m.fields["proportions_"].f == 0)
    finally:
        T.view = lambda self, *a: (_ for _ in ()).throw(__import__("pyvc.sym", fromlist=["Unsupported"]).Unsupported("view"))
        ext.pop("register_load_state_dict_post_hook", None)



@contract(P, "MaxRateClassifier[inference after load]", [(CL, "MaxRateClassifier.__init__"), (CL, "MaxRateClassifier.rates@setter"), (CL, "MaxRateClassifier.regress"), (CL, "MaxRateClassifier.assignments"), (CL, "MaxRateClassifier.proportions"), (CL, "MaxRateClassifier.occurrences")], min_obligations=2)
def classifier_inference_after_load(c):
    """restore into a target in an ARBITRARY PRIOR STATE: a classifier that has already run inference (with its old rates,
    proportional or not) and is then loaded with new rates infers exactly as a function of the loaded rates - nothing
    computed from the old rates survives the load.  normalize / argmax / bincount / one_hot / mm are uninterpreted."""
    it = c.interp
    hooks = []
    from pyvc import models as M
    from pyvc.interp import ExtMethod

    ext = M._EXT_TABLES["nn.Module"]
    ext["register_load_state_dict_post_hook"] = ExtMethod(lambda itp, self, hook: hooks.append(hook), "register_load_state_dict_post_hook")
    R = z3.RealSort()
    NRM, AMX, BIN = z3.Function("normalize_l1", R, R), z3.Function("argmax", R, z3.IntSort()), z3.Function("bincount", z3.IntSort(), z3.IntSort())
    OH, MM = z3.Function("one_hot", z3.IntSort(), R), z3.Function("mm", R, R, R)
    it.F_ns._table["normalize"] = Model(lambda itp, v, p=2.0, dim=None, **k: T(NRM(v.f), "float", None, None, v.eshape), "F.normalize")
    it.F_ns._table["one_hot"] = Model(lambda itp, v, n=-1: T(OH(v.f), "float", None, None, v.eshape), "F.one_hot")
    it.torch_ns._table["argmax"] = Model(lambda itp, v, dim=None: T(AMX(v.f), "int", None, None, v.eshape), "torch.argmax")
    it.torch_ns._table["bincount"] = Model(lambda itp, v, w=None, minlength=0: T(BIN(v.f), "int", None, None, tz.Shape((minlength,))), "torch.bincount")
    it.torch_ns._table["mm"] = Model(lambda itp, a, b: T(MM(a.f, b.f), "float", None, None, a.eshape), "torch.mm")
    it.torch_ns._table["matmul"] = it.torch_ns._table["mm"]  # the same product written with matmul is the same function
    saved_rearrange = it.namespaces["einops"]._table["rearrange"]
    it.namespaces["einops"]._table["rearrange"] = lambda x, pat, **k: x
    T.view = lambda self, *a: self
    # division by the class occurrences: total in z3 (a class without neurons divides by zero, which the code turns into 0
    # with nan_to_num; the clause below speaks about classes that have neurons)
    T.div = lambda self, o: T(self.f / (z3.ToReal(o.f) if z3.is_int(o.f) else o.f), "float", None, None, self.eshape)
    try:
        cv = it.classv(repo.load_module(CL).classes["MaxRateClassifier"])
        m = c.call(cv, (3,), 4)
        old = c.pw("old_rates", eshape=tz.Shape((3, 4)))
        m.fields["rates_"].data = old
        if hooks:
            c.call(hooks[0], m, None)
        x = c.pw("spike_counts", eshape=tz.Shape((2, 3)))
        prior = c.choice("inference_before_the_load", ["proportional", "plain", "both", "none"])
        if prior in ("proportional", "both"):
            c.call(c.getattr(m, "regress"), x, True)
        if prior in ("plain", "both"):
            c.call(c.getattr(m, "regress"), x, False)
        new = c.pw("loaded_rates", eshape=tz.Shape((3, 4)))
        m.fields["rates_"].data = new
        if hooks:
            c.call(hooks[0], m, None)
        prop = c.choice("proportional", [True, False])
        out = c.outcome(c.getattr(m, "regress"), x, prop)
        c.expect_return(out)
        pn, an = NRM(new.f), AMX(NRM(new.f))
        assoc = OH(an) * pn if prop else OH(an)
        c.ensure("logits_are_a_function_of_the_loaded_rates_only", out.ok and _same_up_to_nan_guard(out.value, MM(x.f, assoc), BIN(an)))
        c.canary("canary_old_rates_survive", out.ok and _same_up_to_nan_guard(out.value, MM(x.f, OH(AMX(NRM(old.f))) * NRM(old.f) if prop else OH(AMX(NRM(old.f)))), BIN(an)))
    finally:
        T.view = lambda self, *a: (_ for _ in ()).throw(__import__("pyvc.sym", fromlist=["Unsupported"]).Unsupported("view"))
        ext.pop("register_load_state_dict_post_hook", None)
        it.namespaces["einops"]._table["rearrange"] = saved_rearrange
        del T.div


def _same_up_to_nan_guard(res, numerator, count):
    """res = numerator / count wherever the count is positive (division by an empty class is replaced by 0 in the code)"""
    return z3.Implies(count > 0, res.f == numerator / z3.ToReal(count))


ASSUMPTIONS = [
    "torch state_dict()/load_state_dict() round-trips parameters, persistent non-None buffers and get/set_extra_state (library axiom); shapes of lazily created storage must match (hypothesis of the statement)",
    "determinism of every step function given its persisted state, configuration and inputs (the step contracts of C03/C04/C07)",
    "frame completeness is checked on the executor's write log for forward()/clear() of: LIF, GLIF1, QIF, EIF, the four synapses, six reducers; adaptive neurons, connections (parameters only), trainers (monitors' reducers) are covered by the bounded save/restore stand-in",
]


@contract(P, "RecurrentSerial[frame]", [("inferno/neural/network.py", "RecurrentSerial.__init__"), ("inferno/neural/network.py", "RecurrentSerial.forward"), ("inferno/neural/network.py", "RecurrentSerial.wiring")], tags=("frame",), min_obligations=3)
def recurrent_frame(c):
    """the one piece of state a recurrent layer owns itself - the feedback population's spikes of the previous step - is
    written by forward into a PERSISTENT buffer (it is part of the state dictionary once the layer has run)"""
    from . import c17_layers as c17

    log = []
    comps = [c17.component(c, n_, k_, log)[0] for n_, k_ in (("ff", "connection"), ("lat", "connection"), ("fb", "connection"), ("nff", "neuron"), ("nfb", "neuron"))]
    lay = c.call(c17.layer_cls(c, "RecurrentSerial"), *comps)
    c.ensure("feedback_buffer_registered_persistent", "feedback_spikes" in lay.fields.get("_buffers", {}) and "feedback_spikes" not in lay.fields.get("_non_persistent", set()))
    lay.writes.clear()
    out = c.outcome(c.getattr(lay, "forward"), c.pw("x", eshape=c17.SHAPE))
    c.expect_return(out)
    c.ensure("forward_writes_the_feedback_spikes", "feedback_spikes" in lay.writes)
    bad = frame_violations(lay)
    c.ensure("every_written_field_is_persisted", bad == [])
    c.canary("canary_nothing_written", z3.BoolVal(not lay.writes))

MUTANTS = [
    dict(file="inferno/neural/network.py", func="RecurrentSerial.__init__", old='        self.register_buffer("feedback_spikes", None)', new='        self.register_buffer("feedback_spikes", None, persistent=False)', contracts=["RecurrentSerial[frame]"], name="seed C12g: the recurrent state is left out of the state dictionary"),
    dict(file=CL, func="MaxRateClassifier.rates@setter", old="        # rates are assigned directly\n        self.rates_.data = value", new="        if torch.equal(value, self.rates_.data):\n            return\n        # rates are assigned directly\n        self.rates_.data = value", contracts=["MaxRateClassifier[derived_buffers]"], name="seed C12e: setter returns early when the rates are unchanged (load hook no longer rebuilds the derived buffers)"),
    dict(file=INF, func="Module.set_extra_state", old="self._extras.update(state)", new="self._extras.update((k, v) for k, v in state.items() if v or k not in self._extras)", contracts=["Module.extras"], name="seed C12: falsy loaded extras do not overwrite"),
    dict(file=INF, func="RecordTensor.value@setter", old='f"_{self.name}_pointer"', new='f"_{self.__name}_pointer"', contracts=["RecordTensor.value@setter"], name="D3 regression: mangled base-class attribute"),
    dict(file="inferno/neural/neurons/mixins.py", func="VoltageMixin.__init__", old="persist_data=True,", new="persist_data=False,", contracts=["LIF[frame]", "QIF[frame]"]),
    dict(file=INF, func="RecordTensor.__init__", old="owner.register_extra(self.__attributes.pointer, 0)", new="setattr(owner, self.__attributes.pointer, 0)", contracts=["DeltaCurrent[frame]", "PassthroughReducer[frame]"]),
    dict(file="inferno/observe/reducers/base.py", func="FoldReducer.__init__", old='self.register_extra("_initial", True)', new="self._initial = True", contracts=["PassthroughReducer[frame]", "EMAReducer[frame]"]),
    dict(file=CL, func="MaxRateClassifier.__init__", old="            module.rates = module.rates", new="            pass", contracts=["MaxRateClassifier[derived_buffers]"]),
    dict(file=CL, func="MaxRateClassifier.rates@setter", old="        self.occurrences_ = torch.bincount(self.assignments.view(-1), None, self.nclass)", new="        pass", contracts=["MaxRateClassifier[derived_buffers]"]),
]
