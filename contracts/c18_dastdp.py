"""C18 / C09 - delay-adjusted and kernel STDP: formula, branch choice, NaN => no change, mutual agreement; and for
every trainer the LTP/LTD split is non-negative and nets to the signed rule (C09)."""
from __future__ import annotations

import z3

from pyvc.harness import contract
from pyvc.models import Model
from pyvc.tensor import T, f_exp

from .trainer_stubs import Env, val

D2 = "inferno/learn/trainers/delay_adj_two_factor_stdp.py"
D3 = "inferno/learn/trainers/delay_adj_three_factor_stdp.py"
KS = "inferno/learn/trainers/kernel_stdp.py"
SK = "inferno/functional/stdkernels.py"


def zabs(x):
    return z3.If(x >= 0, x, -x)


def event_monitors(c):
    tpre, tpost = c.pw("t_pre_elapsed", nan=True), c.pw("t_post_elapsed", nan=True)
    c.require(z3.Or(tpre.nan, tpre.f >= 0), z3.Or(tpost.nan, tpost.f >= 0))
    return tpre, tpost, {"spike_pre": dict(peek=tpre, view=tpre), "spike_post": dict(peek=tpost)}


def da_rule(tpre, tpost, d, lr_pos, lr_neg, tc_pos, tc_neg, delay_learning=False):
    """statement: t_delta = t_post_last - t_pre_last - d = t_pre_elapsed - t_post_elapsed - d ; causal branch iff >= 0;
    no change while either side has not spiked (NaN)."""
    td = tpre.f - tpost.f - d
    never = z3.Or(tpre.nan, tpost.nan)
    if not delay_learning:
        rule = z3.If(td >= 0, lr_pos * f_exp(zabs(td) / -tc_pos), lr_neg * f_exp(zabs(td) / -tc_neg))
    else:  # documented delay rule: eta_- exp(-|td|/tau_-) [td >= 0] + eta_+ exp(-|td|/tau_+) [td < 0]
        rule = z3.If(td >= 0, lr_neg * f_exp(zabs(td) / -tc_neg), lr_pos * f_exp(zabs(td) / -tc_pos))
    return z3.If(never, 0, rule), td, never


def _mk_da(cls, param, delay_learning):
    for P in ("C18", "C09"):
        @contract(P, f"{cls}.forward", [(D2, f"{cls}.forward")], tags=("trainer",))
        def fwd(c, cls=cls, P=P):
            lr_pos, lr_neg, tc_pos, tc_neg = c.real("lr_pos"), c.real("lr_neg"), c.real("tc_pos"), c.real("tc_neg")
            c.require(tc_pos > 0, tc_neg > 0)
            tpre, tpost, mons = event_monitors(c)
            env = Env(c, mons, dict(lr_pos=lr_pos, lr_neg=lr_neg, tc_pos=tc_pos, tc_neg=tc_neg), delayed_conn=True)
            out = c.outcome(c.function(D2, f"{cls}.forward"), env.trainer)
            c.expect_return(out)
            pos, neg = env.captured(param)
            c.ensure("pos_nonnegative", val(pos) >= 0)
            c.ensure("neg_nonnegative", val(neg) >= 0)
            rule, td, never = da_rule(tpre, tpost, env.conn.fields["delay"].f, lr_pos.z, lr_neg.z, tc_pos.z, tc_neg.z, delay_learning)
            c.ensure("net_equals_documented_rule", val(pos) - val(neg) == rule)
            c.ensure("no_change_before_both_sides_spiked", z3.Implies(never, z3.And(val(pos) == 0, val(neg) == 0)))
            c.canary("canary_ignores_delay", z3.And(z3.Not(never), val(pos) - val(neg) == da_rule(tpre, tpost, 0, lr_pos.z, lr_neg.z, tc_pos.z, tc_neg.z, delay_learning)[0], env.conn.fields["delay"].f != 0, zabs(tpre.f - tpost.f) < zabs(env.conn.fields["delay"].f)))


_mk_da("DelayAdjustedSTDP", "weight", False)
_mk_da("DelayAdjustedSTDPD", "delay", True)


def _mk_da3(cls, param, delay_learning):
    """reward-modulated delay-adjusted rules (scalar signal): |signal * scale| times the two-factor rule, the direction
    of each half flipped by a negative reward"""
    for P in ("C18", "C09"):
        @contract(P, f"{cls}.forward[scalar_signal]", [(D3, f"{cls}.forward")], tags=("trainer",))
        def fwd(c, cls=cls, P=P):
            lr_pos, lr_neg, tc_pos, tc_neg = c.real("lr_pos"), c.real("lr_neg"), c.real("tc_pos"), c.real("tc_neg")
            sig, scale = c.real("signal"), c.real("scale")
            c.require(tc_pos > 0, tc_neg > 0)
            tpre, tpost, mons = event_monitors(c)
            env = Env(c, mons, dict(lr_pos=lr_pos, lr_neg=lr_neg, tc_pos=tc_pos, tc_neg=tc_neg), delayed_conn=True)
            out = c.outcome(c.function(D3, f"{cls}.forward"), env.trainer, sig, scale)
            c.expect_return(out)
            pos, neg = env.captured(param)
            d = env.conn.fields["delay"].f
            td = tpre.f - tpost.f - d
            never = z3.Or(tpre.nan, tpost.nan)
            mag = sig.z * scale.z
            mag = z3.If(mag >= 0, mag, -mag)
            if not delay_learning:
                causal, acausal = (lr_pos.z, tc_pos.z), (lr_neg.z, tc_neg.z)
            else:
                causal, acausal = (lr_neg.z, tc_neg.z), (lr_pos.z, tc_pos.z)
            half = lambda lr, tc: z3.If(lr * sig.z >= 0, zabs(lr), -zabs(lr)) * f_exp(zabs(td) / -tc)  # noqa: E731
            rule = z3.If(never, 0, mag * z3.If(td >= 0, half(*causal), half(*acausal)))
            c.ensure("pos_nonnegative", val(pos) >= 0)
            c.ensure("neg_nonnegative", val(neg) >= 0)
            c.ensure("net_is_signal_scaled_delay_adjusted_rule", val(pos) - val(neg) == rule)
            c.ensure("no_change_before_both_sides_spiked", z3.Implies(never, z3.And(val(pos) == 0, val(neg) == 0)))
            # a positive unit reward reproduces the two-factor rule
            c.ensure("unit_reward_is_the_two_factor_rule", z3.Implies(z3.And(sig.z == 1, scale.z == 1), val(pos) - val(neg) == da_rule(tpre, tpost, d, lr_pos.z, lr_neg.z, tc_pos.z, tc_neg.z, delay_learning)[0]))
            c.canary("canary_ignores_signal_sign", z3.And(z3.Not(never), sig.z < 0, mag > 0, lr_pos.z > 0, lr_neg.z > 0, val(pos) - val(neg) == da_rule(tpre, tpost, d, lr_pos.z, lr_neg.z, tc_pos.z, tc_neg.z, delay_learning)[0] * mag))


_mk_da3("DelayAdjustedMSTDP", "weight", False)
_mk_da3("DelayAdjustedMSTDPD", "delay", True)


def _mk_da3_tensor(cls, param, delay_learning):
    """reward-modulated delay-adjusted rules with a PER-SAMPLE (tensor) reward, through the structural group theory of
    contracts/c09_split.py: every sample's term is |signal_b * scale| times the two-factor rule with the direction of each
    half flipped by a negative reward of THAT sample; a part is None exactly when the groups feeding it are empty"""
    from .c09_split import tensor_signal_theory

    for P in ("C18", "C09"):
        @contract(P, f"{cls}.forward[tensor_signal]", [(D3, f"{cls}.forward")], tags=("trainer",), min_obligations=3)
        def fwd(c, cls=cls, P=P):
            lr_pos, lr_neg, tc_pos, tc_neg = c.real("lr_pos"), c.real("lr_neg"), c.real("tc_pos"), c.real("tc_neg")
            sig, scale = c.pw("signal_of_this_sample"), c.real("scale")
            c.require(tc_pos > 0, tc_neg > 0)
            tpre, tpost, mons = event_monitors(c)
            env = Env(c, mons, dict(lr_pos=lr_pos, lr_neg=lr_neg, tc_pos=tc_pos, tc_neg=tc_neg), delayed_conn=True)
            th = tensor_signal_theory(c, env, sig)
            with th:
                out = c.outcome(c.function(D3, f"{cls}.forward"), env.trainer, sig, scale)
            c.expect_return(out)
            pos, neg = env.captured(param)
            d = env.conn.fields["delay"].f
            td = tpre.f - tpost.f - d
            never = z3.Or(tpre.nan, tpost.nan)
            mag = sig.f * scale.z
            mag = z3.If(mag >= 0, mag, -mag)
            if not delay_learning:
                causal, acausal = (lr_pos.z, tc_pos.z), (lr_neg.z, tc_neg.z)
            else:
                causal, acausal = (lr_neg.z, tc_neg.z), (lr_pos.z, tc_pos.z)
            # direction of a half for this sample: the sign of its learning rate, flipped when the sample's reward is negative
            half = lambda lr, tc: z3.If((lr >= 0) == (sig.f >= 0), zabs(lr), -zabs(lr)) * f_exp(zabs(td) / -tc)  # noqa: E731
            rule = z3.If(never, 0, mag * z3.If(td >= 0, half(*causal), half(*acausal)))
            c.ensure("pos_nonnegative", val(pos) >= 0)
            c.ensure("neg_nonnegative", val(neg) >= 0)
            c.ensure("this_samples_term_is_the_signal_scaled_delay_adjusted_rule", val(pos) - val(neg) == rule)
            c.ensure("no_change_before_both_sides_spiked", z3.Implies(never, z3.And(val(pos) == 0, val(neg) == 0)))
            pos_nonempty, neg_nonempty = th.part_emptiness(causal[0] >= 0, acausal[0] >= 0)
            c.ensure("potentiating_part_is_none_iff_its_groups_are_empty", z3.BoolVal(pos is None) == z3.Not(pos_nonempty))
            c.ensure("depressing_part_is_none_iff_its_groups_are_empty", z3.BoolVal(neg is None) == z3.Not(neg_nonempty))
            c.canary("canary_ignores_signal_sign", z3.And(z3.Not(never), sig.f < 0, mag > 0, lr_pos.z > 0, lr_neg.z > 0, val(pos) - val(neg) == da_rule(tpre, tpost, d, lr_pos.z, lr_neg.z, tc_pos.z, tc_neg.z, delay_learning)[0] * mag))


_mk_da3_tensor("DelayAdjustedMSTDP", "weight", False)
_mk_da3_tensor("DelayAdjustedMSTDPD", "delay", True)


for _P in ("C18",):
    @contract(_P, "stdkernels", [(SK, "exp_stdp_post_kernel"), (SK, "exp_stdp_pre_kernel")], tags=("kernel",))
    def kernels(c):
        d = c.pw("diff", nan=True)
        lr, tc = c.real("lr"), c.real("tc")
        c.require(tc > 0)
        post = c.call(c.function(SK, "exp_stdp_post_kernel"), d, lr, tc)
        pre = c.call(c.function(SK, "exp_stdp_pre_kernel"), d, lr, tc)
        e = lr.z * f_exp(zabs(d.f) / -tc.z)
        c.ensure("post_kernel_causal_half", z3.Implies(z3.Not(d.nan), post.f == z3.If(d.f >= 0, e, 0)))
        c.ensure("pre_kernel_anticausal_half", z3.Implies(z3.Not(d.nan), pre.f == z3.If(d.f < 0, e, 0)))
        c.ensure("exactly_one_branch", z3.Implies(z3.Not(d.nan), z3.Or(post.f == 0, pre.f == 0)))
        c.canary("canary_both", z3.And(z3.Not(d.nan), post.f == pre.f, lr.z != 0))


def kernel_state(c, lr_pos, lr_neg, tc_pos, tc_neg, as_tensors=False):
    """per-cell state of the kernel trainers.  Kernel hyper-parameters may be given as plain numbers (kept in the
    `*_kwargs` dicts) or as TENSORS (kept as buffers of the `*_tensor_kwargs` modules, merged in at call time): each
    side must receive its own"""
    from pyvc.interp import Obj

    def tk(items):
        o = Obj(None, "tensor_kwargs")
        o.fields["named_buffers"] = Model(lambda it, items=items: list(items), "named_buffers")
        return o

    tt = lambda v: T(v.z, "float", None, None, None)  # noqa: E731
    if as_tensors:
        post_kw, pre_kw = {}, {}
        post_t = [("learning_rate", tt(lr_pos)), ("time_constant", tt(tc_pos))]
        pre_t = [("learning_rate", tt(lr_neg)), ("time_constant", tt(tc_neg))]
    else:
        post_kw, pre_kw = dict(learning_rate=lr_pos, time_constant=tc_pos), dict(learning_rate=lr_neg, time_constant=tc_neg)
        post_t, pre_t = [], []
    return dict(
        kernel_post=c.function(SK, "exp_stdp_post_kernel"), kernel_pre=c.function(SK, "exp_stdp_pre_kernel"),
        kernel_post_kwargs=post_kw, kernel_pre_kwargs=pre_kw,
        kernel_post_tensor_kwargs=tk(post_t), kernel_pre_tensor_kwargs=tk(pre_t), delayed=False, tolerance=0.0,
    )


def _mk_kernel(cls, param, delay_learning):
    for P in ("C18", "C09"):
        @contract(P, f"{cls}.forward", [(KS, f"{cls}.forward"), (SK, "exp_stdp_post_kernel"), (SK, "exp_stdp_pre_kernel")], tags=("trainer",))
        def fwd(c, cls=cls, P=P):
            lr_pos, lr_neg, tc_pos, tc_neg = c.real("lr_pos"), c.real("lr_neg"), c.real("tc_pos"), c.real("tc_neg")
            c.require(tc_pos > 0, tc_neg > 0)
            tpre, tpost, mons = event_monitors(c)
            as_tensors = c.choice("kernel_hyperparameters", ["numbers", "tensors"]) == "tensors"
            env = Env(c, mons, kernel_state(c, lr_pos, lr_neg, tc_pos, tc_neg, as_tensors), delayed_conn=(cls != "KernelSTDP"))
            out = c.outcome(c.function(KS, f"{cls}.forward"), env.trainer)
            c.expect_return(out)
            pos, neg = env.captured(param)
            c.ensure("pos_nonnegative", val(pos) >= 0)
            c.ensure("neg_nonnegative", val(neg) >= 0)
            d = env.conn.fields["delay"].f if cls != "KernelSTDP" else z3.RealVal(0)
            if not delay_learning:
                rule, td, never = da_rule(tpre, tpost, d, lr_pos.z, lr_neg.z, tc_pos.z, tc_neg.z, False)
            else:
                # documented: K_post(td)[td >= 0] + K_pre(td)[td < 0] with the shipped kernels (post kernel <- lr_pos here)
                td = tpre.f - tpost.f - d
                never = z3.Or(tpre.nan, tpost.nan)
                rule = z3.If(never, 0, z3.If(td >= 0, lr_pos.z * f_exp(zabs(td) / -tc_pos.z), lr_neg.z * f_exp(zabs(td) / -tc_neg.z)))
            c.ensure("net_equals_kernel_sum", val(pos) - val(neg) == rule)
            c.ensure("no_change_before_both_sides_spiked", z3.Implies(never, z3.And(val(pos) == 0, val(neg) == 0)))
            if P == "C18" and cls == "DelayAdjustedKernelSTDP":
                # agreement lemmas: same net update as DelayAdjustedSTDP, and with d = 0 the unadjusted kernel form
                env2 = Env(c, mons, dict(lr_pos=lr_pos, lr_neg=lr_neg, tc_pos=tc_pos, tc_neg=tc_neg), delayed_conn=True)
                env2.conn.fields["delay"] = env.conn.fields["delay"]
                c.call(c.function(D2, "DelayAdjustedSTDP.forward"), env2.trainer)
                p2, n2 = env2.captured("weight")
                c.ensure("agrees_with_DelayAdjustedSTDP", val(pos) - val(neg) == val(p2) - val(n2))
                env3 = Env(c, mons, kernel_state(c, lr_pos, lr_neg, tc_pos, tc_neg), delayed_conn=False)
                c.call(c.function(KS, "KernelSTDP.forward"), env3.trainer)
                p3, n3 = env3.captured("weight")
                c.ensure("zero_delay_reduces_to_KernelSTDP", z3.Implies(d == 0, z3.And(val(pos) == val(p3), val(neg) == val(n3))))
            c.canary("canary_zero", z3.And(z3.Not(never), val(pos) - val(neg) == 0, lr_pos.z != 0, lr_neg.z != 0))


_mk_kernel("KernelSTDP", "weight", False)
_mk_kernel("DelayAdjustedKernelSTDP", "weight", False)
_mk_kernel("DelayAdjustedKernelSTDPD", "delay", True)

# the delay-adjusted rules pair receptive pre-spike times with `connection.delay.unsqueeze(-1)` tap by tap: for Conv2D this
# relies on the receptive view and the weight-shaped delay sharing one tap order (contract Conv2D.layouts, C05)
from . import c05_connections as _c05  # noqa: E402

_c05.make_conv_layout("C18")

ASSUMPTIONS = [
    "the receptive-field axis and the batch axis are each represented by ONE arbitrary element: nansum over the receptive axis and the (linear) batch reduction are applied identically on both sides of every identity, so element-wise equality implies equality of the reduced updates",
    "event-reducer outputs are times since the last spike, NaN until the first spike (EventReducer contract, C07); t_delta = t_post_last - t_pre_last - d = t_pre_elapsed - t_post_elapsed - d",
    "exp uninterpreted with axioms",
]


# ------------------------------------------------------------------------------------------------------------------------
# the event times a delay-adjusted rule reads are those of ITS cell: Observable.add_monitor pools two cells' monitors only
# when name, tags AND the layer-relative target agree.  The real Observable runs on a stub layer whose realignment maps a
# cell-relative path to the layer-relative one (two cells of one layer: own connections, one shared neuron group).
PL = "inferno/observe/pooling.py"


@contract("C18", "Observable.add_monitor[pooling key]", [(PL, "Observable.add_monitor"), (PL, "Observable.realign_attribute"), (PL, "Observable.__init__")], min_obligations=6)
def pooling_key(c):
    from pyvc import repo
    from pyvc.interp import Obj

    it = c.interp
    OB = it.classv(repo.load_module(PL).classes["Observable"])

    def realign(it_, cell, attr):
        if attr.startswith("neuron."):
            return "neurons_.n." + attr[len("neuron."):]
        return f"connections_.{cell}." + attr[len("connection."):]

    basis = Obj(None, "layer")
    basis.fields["realign"] = Model(realign, "layer._realign_attribute")
    a = it.instantiate(OB, [basis, "realign", ("ca",), None], {})
    b = it.instantiate(OB, [basis, "realign", ("cb",), None], {})
    # Observable.local_remap is abstract (a Cell checks and forwards the path): the stub forwards the path unchanged
    for o in (a, b):
        o.fields["local_remap"] = Model(lambda it_, attr: ((attr,), {}), "local_remap(identity)")
    built = []

    def ctor(it_, attr, module):
        m = Obj(None, f"monitor[{len(built)}]")
        built.append((m, attr, module))
        return m

    ctor_m = Model(ctor, "monitor constructor")
    mons = {"a": {}, "b": {}}
    pool = [(a, mons["a"]), (b, mons["b"])]
    tags = c.choice("tags", [dict(tc=1.0), {}])

    def add(obs, key, name, attr, **tg):
        m = c.call(c.getattr(obs, "add_monitor"), name, attr, ctor_m, pool, **tg)
        mons[key][name] = m
        return m

    pre_a = add(a, "a", "spike_pre", "connection.synapse.spike", **tags)
    c.ensure("monitor_built_on_the_layer_relative_target", z3.BoolVal(len(built) == 1 and built[0][0] is pre_a and built[0][1] == "connections_.ca.synapse.spike" and built[0][2] is basis))
    pre_b = add(b, "b", "spike_pre", "connection.synapse.spike", **tags)
    c.ensure("cells_with_different_connections_are_never_pooled", z3.BoolVal(pre_b is not pre_a and len(built) == 2 and built[1][1] == "connections_.cb.synapse.spike"))
    post_a = add(a, "a", "spike_post", "neuron.spike", **tags)
    post_b = add(b, "b", "spike_post", "neuron.spike", **tags)
    c.ensure("cells_sharing_the_neuron_group_pool_its_monitor", z3.BoolVal(post_b is post_a and len(built) == 3 and built[2][1] == "neurons_.n.spike"))
    other = add(b, "b", "spike_post", "neuron.spike", tc=2.0)
    c.ensure("different_tags_are_never_pooled", z3.BoolVal(other is not post_a and len(built) == 4))
    again = add(a, "a", "spike_pre", "connection.synapse.spike", **tags)
    c.ensure("a_cell_finds_its_own_monitor_again", z3.BoolVal(again is pre_a and len(built) == 4))
    c.canary("canary_everything_pooled", z3.BoolVal(pre_b is pre_a))


MUTANTS = [
    dict(file="inferno/observe/pooling.py", func="Observable.add_monitor", contracts=["Observable.add_monitor[pooling key]"], name="seed C18h: the pooling key is built from the cell-relative path (cells of one layer alias each other's connection monitors)",
         edits=[dict(func="Observable.add_monitor", old="        attr = self.realign_attribute(attr)\n", new="        target = self.realign_attribute(attr)\n"),
                dict(func="Observable.add_monitor", old="        if not pool:\n            monitor = constructor(attr, self.__basis())", new="        if not pool:\n            monitor = constructor(target, self.__basis())"),
                dict(func="Observable.add_monitor", old="        else:\n            monitor = constructor(attr, self.__basis())\n            monitor._tags = tags", new="        else:\n            monitor = constructor(target, self.__basis())\n            monitor._tags = tags")]),
    dict(file=KS, func="KernelSTDP.forward", old="                    | {k: v for k, v in state.kernel_pre_tensor_kwargs.named_buffers()}", new="                    | {k: v for k, v in state.kernel_post_tensor_kwargs.named_buffers()}", contracts=["KernelSTDP.forward"], name="seed C18g: tensor-valued hyper-parameters of the presynaptic kernel taken from the postsynaptic side"),
    dict(file=D3, func="DelayAdjustedMSTDP.forward", old="                    state.batchreduce(dneg, 0) if dneg.numel() else None,", new="                    state.batchreduce(dneg, 0) if dpos.numel() else None,", contracts=["DelayAdjustedMSTDP.forward[tensor_signal]"], name="tensor reward: depressing part guarded by the emptiness of the potentiating group (seed C09e transplanted)"),
    dict(file=D3, func="DelayAdjustedMSTDP.forward", old="                    case (True, False):  # hebbian\n                        dpos = torch.cat((dpost_reg, dpre_inv), 0)\n                        dneg = torch.cat((dpost_inv, dpre_reg), 0)", new="                    case (True, False):  # hebbian\n                        dpos = torch.cat((dpost_reg, dpre_reg), 0)\n                        dneg = torch.cat((dpost_inv, dpre_inv), 0)", contracts=["DelayAdjustedMSTDP.forward[tensor_signal]"], name="tensor reward: hebbian mode routed like the potentiative one"),
    dict(file=D3, func="DelayAdjustedMSTDPD.forward", old="                signal_pos = torch.argwhere(signal >= 0).view(-1)", new="                signal_pos = torch.argwhere(signal < 0).view(-1)", contracts=["DelayAdjustedMSTDPD.forward[tensor_signal]"], name="tensor reward: the non-negative group selected by the wrong sign"),
    dict(file=_c05.CONV, func="Conv2D.presyn_receptive", old='"b (c kh kw) l ... -> b (...) c kh kw l"', new='"b (kh kw c) l ... -> b (...) c kh kw l"', contracts=["Conv2D.layouts"], name="seed C18d: receptive view decomposes the unfolded rows as (kh kw c)"),
    dict(file=D3, func="DelayAdjustedMSTDP.forward", old="                match (state.lr_pos * signal >= 0, state.lr_neg * signal >= 0):", new="                match (state.lr_pos >= 0, state.lr_neg >= 0):", contracts=["DelayAdjustedMSTDP.forward[scalar_signal]"], name="reward sign ignored when routing LTP/LTD"),
    dict(file=D3, func="DelayAdjustedMSTDPD.forward", old="                torch.exp(t_delta_abs / (-state.tc_neg))\n                * (abs(state.lr_neg) * (t_delta >= 0).to(dtype=t_delta_abs.dtype)),", new="                torch.exp(t_delta_abs / (-state.tc_pos))\n                * (abs(state.lr_neg) * (t_delta >= 0).to(dtype=t_delta_abs.dtype)),", contracts=["DelayAdjustedMSTDPD.forward[scalar_signal]"], name="causal half uses the wrong time constant"),
    dict(file=D2, func="DelayAdjustedSTDP.forward", old="t_delta = t_pre - t_post - cell.connection.delay.unsqueeze(-1)", new="t_delta = t_post - t_pre - cell.connection.delay.unsqueeze(-1)", contracts=["DelayAdjustedSTDP.forward"]),
    dict(file=D2, func="DelayAdjustedSTDP.forward", old="t_delta = t_pre - t_post - cell.connection.delay.unsqueeze(-1)", new="t_delta = t_pre - t_post + cell.connection.delay.unsqueeze(-1)", contracts=["DelayAdjustedSTDP.forward"]),
    dict(file=D2, func="DelayAdjustedSTDP.forward", old="match (state.lr_pos >= 0, state.lr_neg >= 0):", new="match (state.lr_pos >= 0, self.lr_neg >= 0):", contracts=["DelayAdjustedSTDP.forward"], name="seed C18: routing by trainer default lr_neg"),
    dict(file=SK, func="exp_stdp_post_kernel", old="(diff >= 0)", new="(diff > 0)", contracts=["stdkernels", "KernelSTDP.forward"]),
    dict(file=SK, func="exp_stdp_pre_kernel", old="torch.exp(diff.abs() / (-time_constant))", new="torch.exp(diff.abs() / (time_constant))", contracts=["stdkernels"]),
    dict(file=KS, func="KernelSTDP.forward", old="t_delta = t_pre - t_post", new="t_delta = t_post - t_pre", contracts=["KernelSTDP.forward"]),
]
