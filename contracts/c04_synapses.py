"""C04 - synapse currents (per-step recurrences) and delayed reads (_synparam_at, *_at wiring, overbound)."""
from __future__ import annotations

import z3

from pyvc import repo
from pyvc import tensor as tz
from pyvc.harness import contract
from pyvc.interp import BoundMethod, Closure
from pyvc.models import Model
from pyvc.sym import num, smod
from pyvc.tensor import T, f_exp

from .fixtures import INF, Rec

P = "C04"
SM = "inferno/neural/synapses/mixins.py"
SC = "inferno/neural/synapses/current.py"
SE = "inferno/neural/synapses/expcurrent.py"
R = z3.RealSort()
SELV = z3.Function("select_result", R, R)


def eqnum(x, z):
    """x (a value produced by the real code) equals the z3 number z; False when x is not a number at all."""
    from pyvc.sym import Unsupported

    try:
        return num(x) == z
    except Unsupported:
        return False


def install_select_summary(c, calls):
    """RecordTensor.select consumed by contract (C02): result is an uninterpreted function of the (bounded) query time;
    the arguments are recorded so that the wiring clauses can inspect them."""
    def summary(interp, fi, args, kwargs):
        calls.append((args, kwargs))
        t = args[1]
        return T(SELV(t.f if isinstance(t, T) else num(t)), "float", None, None, None)

    c.interp.summaries[(INF, "RecordTensor.select")] = summary


@contract(P, "_synparam_at", [(SM, "_synparam_at")])
def synparam(c):
    N, ptr = c.int("N"), c.int("ptr")
    dur = c.real("duration")
    c.require(N >= 1, 0 <= ptr, ptr < N, dur >= 0)
    r = Rec(c, N, ptr, "float")
    r.owner.fields["_x_duration"] = dur
    sel = c.pw("selector")
    tol = c.real("tol")
    c.require(tol >= 0)
    ob_mode = c.choice("overbound", ["value", "none"])
    ob = c.real("ob") if ob_mode == "value" else None
    tf = c.func("transform", R, R)
    tmode = c.choice("transform", ["given", "none"])
    tr = Model(lambda it, x: x._map(lambda z: tf(z)), "transform") if tmode == "given" else None
    TF = (lambda z: tf(z)) if tmode == "given" else (lambda z: z)
    calls = []
    install_select_summary(c, calls)
    interp_fn = "<interp>"
    ikw = {"k": 1}
    out = c.outcome(c.function(SM, "_synparam_at"), r.rec, sel, interp_fn, ikw, tol, ob, tr)
    c.expect_return(out)
    res = out.value
    undelayed = N.z == 1
    b = z3.If(sel.f < 0, 0, z3.If(sel.f > dur.z, dur.z, sel.f))
    base = z3.If(undelayed, TF(r.M0(1)), TF(SELV(b)))
    bsel = z3.If(undelayed, 0, b)
    d = sel.f - bsel
    within = z3.If(d >= 0, d, -d) <= tol.z
    if ob is None:
        c.ensure("value_at_the_limit_when_no_overbound", res.f == base)
    else:
        c.ensure("out_of_bounds_value_beyond_supported_delay", res.f == z3.If(within, base, ob.z))
    if calls:
        args, kw = calls[0]
        c.ensure("select_wiring", z3.And(args[2] == interp_fn, eqnum(kw.get("tolerance"), tol.z), kw.get("interp_kwargs") is ikw, "offset" not in kw))
    c.canary("canary_unclamped", z3.And(z3.Not(undelayed), res.f == TF(SELV(sel.f)), sel.f > dur.z))


def new_syn(c, file, cls, **kw):
    cv = c.interp.classv(repo.load_module(file).classes[cls])
    return c.call(cv, (3,), **kw)


def rec_of(syn, name):
    return syn.fields[f"_{name}_data"], syn.fields["_extras"][f"_{name}_pointer"], syn.fields[f"_{name}_constraints"][0]


def install_ring(c, syn, name, N, ptr, tag, dtype):
    S = tz.Shape((1, 3))
    data = c.seq(tag, N, dtype, "first", S)
    syn.fields[f"_{name}_data"] = data
    syn.fields[f"_{name}_constraints"][0] = N
    syn.fields["_extras"][f"_{name}_pointer"] = ptr
    return c.symbols[tag]


def M0(D, ptr, N, k):
    return D(smod(num(ptr) - num(k), num(N)))


def M1(syn, name, k):
    d, p, n = rec_of(syn, name)
    return d.at(smod(num(p) - num(k), num(n)))


SYN = {
    "DeltaCurrent": (SC, dict(spike_charge="Q")),
    "DeltaPlusCurrent": (SC, dict(spike_charge="Q")),
    "SingleExponentialCurrent": (SE, dict(spike_charge="Q", time_constant="tau")),
    "DoubleExponentialCurrent": (SE, dict(spike_charge="Q", tc_decay="td", tc_rise="tr")),
}


def _mk_forward(cls):
    file, kws = SYN[cls]

    @contract(P, f"{cls}.forward", [(file, f"{cls}.forward"), (file, f"{cls}.__init__"), (file, f"{cls}.clear")], tags=("class",))
    def fwd(c, cls=cls):
        dt, delay = c.real("dt"), c.real("delay")
        kv = {k: c.real(v) for k, v in kws.items()}
        c.require(dt > 0, delay >= 0, kv["spike_charge"] != 0)
        if "time_constant" in kv:
            c.require(kv["time_constant"] > 0)
        if "tc_rise" in kv:
            c.require(kv["tc_rise"] > 0, kv["tc_decay"] > kv["tc_rise"])
        inplace = c.choice("inplace", [False, True])
        # the step time in force is the one the synapse reports NOW: given to the constructor, or assigned through the public
        # setter afterwards (a simulation re-run at another resolution) - nothing may remember the construction-time value
        if c.choice("step_time_given_to", ["constructor", "setter"]) == "setter":
            dt0 = c.real("dt_at_construction")
            c.require(dt0 > 0)
            syn = new_syn(c, file, cls, step_time=dt0, delay=delay, inplace=inplace, **kv)
            c.setattr(syn, "dt", dt)
        else:
            syn = new_syn(c, file, cls, step_time=dt, delay=delay, inplace=inplace, **kv)
        # record sizing from (dt, delay, inclusive=True)
        from pyvc.sym import ceil_real

        for rn in [n[1:-5] for n in syn.fields if n.endswith("__data") or (n.startswith("_") and n.endswith("_data"))]:
            pass
        recs = [n[1:-len("_data")] for n in list(syn.fields) if n.startswith("_") and n.endswith("_data") and isinstance(syn.fields[n], T)]
        want = ceil_real(delay.z / dt.z) + 1
        c.ensure("records_sized_for_delay_inclusive", z3.And(*[num(syn.fields[f"_{r}_constraints"][0]) == z3.If(want >= 1, want, 1) for r in recs]) if recs else False)
        N, ptr, k = c.int("N"), c.int("ptr"), c.int("k")
        c.require(N >= 1, 0 <= ptr, ptr < N, 0 <= k, k < N)
        Ds = {}
        for r_ in recs:
            Ds[r_] = install_ring(c, syn, r_, N, ptr, "D_" + r_, "bool" if r_ == "spike_" else "float")
        x = c.pw("x", "float", eshape=tz.Shape((1, 3)))
        c.require(z3.Or(x.f == 0, x.f == 1))  # input spikes
        inj = c.pw("inj", "float", eshape=tz.Shape((1, 3)))
        if cls == "DeltaPlusCurrent":
            out = c.outcome(c.getattr(syn, "forward"), x, inj)
        else:
            out = c.outcome(c.getattr(syn, "forward"), x)
        c.expect_return(out)
        newest = smod(num(k) - 1, num(N)) == 0
        Q = kv["spike_charge"].z
        if "spike_" in recs:
            c.ensure("spike_record_newest_is_input", z3.Implies(newest, M1(syn, "spike_", k) == (x.f != 0)))
            c.ensure("spike_history_shifted", z3.Implies(z3.Not(newest), M1(syn, "spike_", k) == M0(Ds["spike_"], ptr, N, k - 1)))
        if cls == "DeltaCurrent":
            c.ensure("current_is_charge_over_dt_pulse", out.value.f == z3.If(x.f != 0, 1, 0) * (Q / dt.z))
        elif cls == "DeltaPlusCurrent":
            c.ensure("current_is_pulse_plus_injected", z3.And(out.value.f == x.f * (Q / dt.z) + inj.f, z3.Implies(newest, M1(syn, "current_", k) == x.f * (Q / dt.z) + inj.f)))
            c.ensure("current_history_shifted", z3.Implies(z3.Not(newest), M1(syn, "current_", k) == M0(Ds["current_"], ptr, N, k - 1)))
        elif cls == "SingleExponentialCurrent":
            tau = kv["time_constant"].z
            exp_ = M0(Ds["current_"], ptr, N, 1) * f_exp(-dt.z / tau) + Q / tau * x.f
            c.ensure("single_exponential_recurrence", z3.And(out.value.f == exp_, z3.Implies(newest, M1(syn, "current_", k) == exp_)))
            c.ensure("current_history_shifted", z3.Implies(z3.Not(newest), M1(syn, "current_", k) == M0(Ds["current_"], ptr, N, k - 1)))
        else:
            td, tr_ = kv["tc_decay"].z, kv["tc_rise"].z
            ep = M0(Ds["pos_current_"], ptr, N, 1) * f_exp(-dt.z / td) + Q / (td - tr_) * x.f
            en = M0(Ds["neg_current_"], ptr, N, 1) * f_exp(-dt.z / tr_) + Q / (td - tr_) * x.f
            c.ensure("double_exponential_recurrences", z3.And(z3.Implies(newest, z3.And(M1(syn, "pos_current_", k) == ep, M1(syn, "neg_current_", k) == en)), out.value.f == ep - en))
            c.ensure("current_history_shifted", z3.Implies(z3.Not(newest), z3.And(M1(syn, "pos_current_", k) == M0(Ds["pos_current_"], ptr, N, k - 1), M1(syn, "neg_current_", k) == M0(Ds["neg_current_"], ptr, N, k - 1))))
        c.ensure("reported_current_is_latest", c.getattr(syn, "current").f == out.value.f)
        c.ensure("reported_spike_is_input", c.getattr(syn, "spike").f == (x.f != 0))
        # clear: every record zero / False, pointer 0
        c.call(c.getattr(syn, "clear"))
        conj = []
        for r_ in recs:
            d, p, n = rec_of(syn, r_)
            conj.append(z3.And(num(p) == 0, (d.at(k) == False) if d.dtype == "bool" else (d.at(k) == 0)))  # noqa: E712
        c.ensure("clear_resets_every_record", z3.And(*conj))
        c.canary("canary_no_decay", z3.And(cls == "SingleExponentialCurrent", out.value.f == M0(Ds.get("current_", list(Ds.values())[0]), ptr, N, 1)) if cls == "SingleExponentialCurrent" else out.value.f == 12345)


for _s in SYN:
    _mk_forward(_s)


AT_METHODS = {
    "DeltaCurrent": (SC, [("spike_at", "spike_", "spike"), ("current_at", "spike_", "derived")]),
    "DeltaPlusCurrent": (SC, [("spike_at", "spike_", "spike"), ("current_at", "current_", "current")]),
    "SingleExponentialCurrent": (SE, [("spike_at", "spike_", "spike"), ("current_at", "current_", "current")]),
    "DoubleExponentialCurrent": (SE, [("spike_at", "spike_", "spike"), ("pos_current_at", "pos_current_", "current"), ("neg_current_at", "neg_current_", "current")]),
}


def _mk_at(cls):
    file, methods = AT_METHODS[cls]
    _f, kws = SYN[cls]

    @contract(P, f"{cls}.*_at[wiring]", [(SM, "SpikeMixin.spike_at"), (SM, "CurrentMixin.current_at"), (SM, "SpikeDerivedCurrentMixin.current_at")] + [(file, f"{cls}.{m}") for m, _r, _k in methods if m.startswith(("pos", "neg"))], tags=("wiring",))
    def at(c, cls=cls):
        dt, delay, tol = c.real("dt"), c.real("delay"), c.real("interp_tol")
        kv = {k: c.real(v) for k, v in kws.items()}
        c.require(dt > 0, delay >= 0, tol >= 0, kv["spike_charge"] != 0)
        if "time_constant" in kv:
            c.require(kv["time_constant"] > 0)
        if "tc_rise" in kv:
            c.require(kv["tc_rise"] > 0, kv["tc_decay"] > kv["tc_rise"])
        # the interpolation between stored steps: Delta / DeltaPlus choose it by name (documented default "previous"), the
        # exponential synapses decay analytically
        has_mode = cls in ("DeltaCurrent", "DeltaPlusCurrent")
        imode = c.choice("interp_mode", ["default", "previous", "nearest"]) if has_mode else None
        mode_kw = {} if imode in (None, "default") else {"interp_mode": imode}
        # the exponential synapses interpolate their SPIKE record by name too (spike_interp_mode, default "previous") - a
        # choice independent of the analytic decay used for the current record
        smode = c.choice("spike_interp_mode", ["default", "previous", "nearest"]) if not has_mode else None
        if smode not in (None, "default"):
            mode_kw["spike_interp_mode"] = smode
        want_spike_interp = {None: None, "default": "interp_previous", "previous": "interp_previous", "nearest": "interp_nearest"}[smode]
        want_interp = {None: "interp_expdecay", "default": "interp_previous", "previous": "interp_previous", "nearest": "interp_nearest"}[imode]
        cob_mode = c.choice("current_overbound", ["value", "none", "constructor_defaults"])
        if cob_mode == "constructor_defaults":
            # documented defaults: zero interpolation tolerance, out-of-bounds reads give 0.0 nA / no spike
            from pyvc.sym import SV as _SV

            sob_mode = "constructor_defaults"
            tol, cob, sob = _SV(z3.RealVal(0)), _SV(z3.RealVal(0)), _SV(z3.BoolVal(False))
            syn = new_syn(c, file, cls, step_time=dt, delay=delay, **mode_kw, **kv)
        else:
            sob_mode = c.choice("spike_overbound", ["value", "none"])
            cob = c.real("current_overbound") if cob_mode == "value" else None
            sob = c.bool("spike_overbound") if sob_mode == "value" else None
            syn = new_syn(c, file, cls, step_time=dt, delay=delay, interp_tol=tol, current_overbound=cob, spike_overbound=sob, **mode_kw, **kv)
        calls = []

        def summary(interp, fi, args, kwargs):
            calls.append(args)
            return T(z3.Real("synparam_result"), "float")

        c.interp.summaries[(SM, "_synparam_at")] = summary
        sel = c.pw("selector")
        for m, recname, kind in methods:
            calls.clear()
            out = c.outcome(c.getattr(syn, m), sel)
            c.expect_return(out, f"{m}_no_exception")
            ok = len(calls) == 1 and len(calls[0]) >= 6
            c.ensure(f"{m}_delegates_once", ok)
            if not ok:
                continue
            a = calls[0]
            c.ensure(f"{m}_reads_its_own_record", a[0] is syn.fields[recname])
            c.ensure(f"{m}_passes_selector", a[1] is sel)
            c.ensure(f"{m}_tolerance_in_tolerance_position", eqnum(a[4], tol.z))
            iname = str(getattr(a[2], "qualname", None) or getattr(getattr(a[2], "node", None), "name", None) or a[2])
            c.ensure(f"{m}_interpolates_as_configured", iname.split(".")[-1] == (want_interp if kind != "spike" or has_mode else want_spike_interp))
            exp_ob = sob if kind == "spike" else cob
            if exp_ob is None:
                c.ensure(f"{m}_overbound_none_in_overbound_position", a[5] is None)
            else:
                from pyvc.sym import as_bool

                c.ensure(f"{m}_overbound_in_overbound_position", a[5] is not None and ((as_bool(a[5]) == as_bool(exp_ob)) if (kind == "spike" and not isinstance(a[5], float)) else eqnum(a[5], num(exp_ob))))
            if m.startswith("pos"):
                c.ensure("pos_uses_decay_constant", num(a[3].get("time_constant")) == kv["tc_decay"].z)
            if m.startswith("neg"):
                c.ensure("neg_uses_rise_constant", num(a[3].get("time_constant")) == kv["tc_rise"].z)
        c.canary("canary_impossible", tol.z < 0)


for _s in AT_METHODS:
    _mk_at(_s)


@contract(P, "DoubleExponentialCurrent.current_at", [(SE, "DoubleExponentialCurrent.current_at")])
def dexp_current_at(c):
    dt, delay, tol = c.real("dt"), c.real("delay"), c.real("interp_tol")
    Q, td, tr_ = c.real("Q"), c.real("td"), c.real("tr")
    c.require(dt > 0, delay >= 0, tol >= 0, Q != 0, tr_ > 0, td > tr_)
    cob_mode = c.choice("current_overbound", ["value", "none"])
    cob = c.real("current_overbound") if cob_mode == "value" else None
    syn = new_syn(c, SE, "DoubleExponentialCurrent", step_time=dt, delay=delay, interp_tol=tol, current_overbound=cob, spike_charge=Q, tc_decay=td, tc_rise=tr_)
    calls = []
    POS, NEG = z3.Function("sel_pos", R, R), z3.Function("sel_neg", R, R)

    def summary(interp, fi, args, kwargs):
        calls.append((args, kwargs))
        t = args[1]
        which = POS if args[0] is syn.fields["pos_current_"] else NEG
        return T(which(t.f if isinstance(t, T) else num(t)), "float")

    c.interp.summaries[(INF, "RecordTensor.select")] = summary
    sel = c.pw("selector")
    N = syn.fields["_spike__constraints"][0]
    out = c.outcome(c.getattr(syn, "current_at"), sel)
    c.expect_return(out)
    res = out.value
    undelayed = num(N) == 1
    b = z3.If(sel.f < 0, 0, z3.If(sel.f > delay.z, delay.z, sel.f))  # clamp to the CONFIGURED maximum delay
    if calls:
        c.ensure("selects_both_components_at_clamped_time", z3.And(len(calls) == 2, res.f == z3.If(True, POS(b) - NEG(b), 0) if cob is None else True))
        kwp = [k for a, k in calls if a[0] is syn.fields["pos_current_"]]
        kwn = [k for a, k in calls if a[0] is syn.fields["neg_current_"]]
        okc = len(kwp) == 1 and len(kwn) == 1
        c.ensure("one_select_per_component", okc)
        if okc:
            c.ensure("analytic_decay_constants", z3.And(num(kwp[0]["interp_kwargs"]["time_constant"]) == td.z, num(kwn[0]["interp_kwargs"]["time_constant"]) == tr_.z, num(kwp[0]["tolerance"]) == tol.z, num(kwn[0]["tolerance"]) == tol.z))
        d = sel.f - b
        within = z3.If(d >= 0, d, -d) <= tol.z
        if cob is None:
            c.ensure("value_at_the_limit", res.f == POS(b) - NEG(b))
        else:
            c.ensure("out_of_bounds_value_beyond_configured_delay", res.f == z3.If(within, POS(b) - NEG(b), cob.z))
    c.canary("canary_impossible", tol.z < 0)


ASSUMPTIONS = [
    "time-indexed select is consumed by contract (C02): its result is an uninterpreted function of the (clamped) query time; 'delayed read = what was current k steps ago' follows from C02 on-grid + the push recurrence (history shift) proved here",
    "input spikes are 0/1 valued; injected currents arbitrary reals",
    "closed forms (sum over past spikes of the impulse response) follow from the per-step recurrences by induction (geometric recurrence lemma); compared on short histories in the bounded stand-in",
]

MUTANTS = [
    dict(file=SC, func="DeltaPlusCurrent.__init__", old='            case "nearest":\n                interp = interp_nearest', new='            case "nearest":\n                interp = interp_previous', contracts=["DeltaPlusCurrent.*_at[wiring]"], name="seed C04g: interp_mode nearest silently behaves as previous"),
    dict(file=SM, func="_synparam_at", old="                tolerance=tolerance,\n", new="", contracts=["_synparam_at"], name="seed C04b: the synapse's interpolation tolerance is not forwarded to select"),
    dict(file=SM, func="SpikeMixin.spike_at", old="self.__tolerance,\n            self.__overbound,", new="self.__overbound,\n            self.__tolerance,", contracts=["DeltaCurrent.*_at[wiring]", "SingleExponentialCurrent.*_at[wiring]"], name="D5 regression: spike_at tolerance/overbound swapped"),
    dict(file=SM, func="_synparam_at", old="bounded_selector = selector.clamp(min=0, max=value.duration)", new="bounded_selector = selector", contracts=["_synparam_at"]),
    dict(file=SM, func="_synparam_at", old="(selector - bounded_selector).abs() <= tolerance, res, overbound", new="(selector - bounded_selector).abs() >= tolerance, res, overbound", contracts=["_synparam_at"]),
    dict(file=SE, func="DoubleExponentialCurrent.current_at", old="bounded_selector = selector.clamp(min=0, max=self.spike_.duration)", new="bounded_selector = selector.clamp(min=0, max=self.dt * (self.spike_.recordsz - 1))", contracts=["DoubleExponentialCurrent.current_at"], name="seed C04: clamp to the stored extent instead of the configured delay"),
    dict(file=SE, func="SingleExponentialCurrent.forward", old="math.exp(-self.dt / self.time_constant)", new="math.exp(-self.time_constant / self.dt)", contracts=["SingleExponentialCurrent.forward"]),
    dict(file=SE, func="DoubleExponentialCurrent.forward", old="self.neg_current * math.exp(-self.dt / self.tc_rise)", new="self.neg_current * math.exp(-self.dt / self.tc_decay)", contracts=["DoubleExponentialCurrent.forward"]),
    dict(file=SC, func="DeltaPlusCurrent.forward", old="self.spike = inputs[0].bool()", new="self.spike = inputs[0]", contracts=["DeltaPlusCurrent.forward"], expect="survives", name="control: SpikeMixin.spike setter converts to bool itself"),
    dict(file=SE, func="SingleExponentialCurrent.clear", old="self.current_.reset(0.0)", new="pass", contracts=["SingleExponentialCurrent.forward"]),
    dict(file=SC, func="DeltaCurrent.__init__", old="                synapse.spike_charge / synapse.dt", new="                synapse.spike_charge / step_time", contracts=["DeltaCurrent.forward"], name="seed C04h: the pulse divides by the constructor's step time (stale after the dt setter)"),
    dict(file=SM, func="SpikeCurrentMixin.__init__", old="            spike_interp,\n            spike_interp_kwargs,\n            spike_overbound,", new="            current_interp,\n            current_interp_kwargs,\n            spike_overbound,", contracts=["SingleExponentialCurrent.*_at[wiring]"], name="seed C06h: the spike record is interpolated with the current's interpolation"),
]
