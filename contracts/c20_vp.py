"""C20, Victor-Purpura distance: the Needleman-Wunsch loop of the REAL `victor_purpura_pair_dist` under a LOOP CONTRACT.

The dynamic programme is a doubly nested `for` over a table with two symbolic dimensions: outside the one-time-axis tensor
theory, and not unrollable.  It is verified the deductive way:

  * the table is the model `Grid` below: its content is a z3 function of (row, column) - every read and write of the real
    statements goes through `grid[:, a, b]`, is logged, and reads outside the already-filled region are violations;
  * the initialisation code runs for real on the model (zeros / two arange assignments / unsqueeze / repeat) and must
    establish the invariant on row 0 and column 0;
  * the loop nest is replaced by ONE arbitrary iteration (r, c) of the real body (interpreter hook `loop_contracts`): the
    loop ranges must be exactly 1..n and 1..m, the body must write exactly the cell (r, c), and the invariant must hold
    for that cell given the invariant on the three cells it reads;
  * lean/Induction.lean `grid_invariant` (core Lean, checked on every run) is the induction: base row + base column +
    that step give the invariant on every cell, in particular on the returned cell (n, m).

Invariants proved this way, each for ALL lengths n, m, all spike times and all finite costs >= 0:
  bounds     |r - c| <= G(r, c) <= r + c                       (the documented limits |n - m| and n + m at cost 0 / inf)
  identity   t0 = t1  =>  G(r, r) = 0
  symmetry   the cell recurrence of d(t1, t0) is the transpose of that of d(t0, t1): G'(c, r) = G(r, c)
  monotone   cost <= cost'  =>  G(r, c) <= G'(r, c)
The triangle inequality needs an alignment-composition argument that a cell-local invariant cannot carry: it stays with the
bounded oracle native/c20.py and is NOT counted as proved.
"""
from __future__ import annotations

import ast

import z3

from pyvc import repo
from pyvc import tensor as tz
from pyvc.harness import contract
from pyvc.sym import SV, Unsupported, num, wrap
from pyvc.tensor import T

P = "C20"
M = "inferno/core/math.py"
FN = "victor_purpura_pair_dist"
R, I = z3.RealSort(), z3.IntSort()


def _concrete(k):
    if isinstance(k, SV):
        z = z3.simplify(num(k))
        return z.as_long() if z3.is_int_value(z) else None
    return k if isinstance(k, int) and not isinstance(k, bool) else None


class Grid:
    """DP table: `cell(r, c)` is a z3 Real term; `lead` once the leading cost axis was added (unsqueeze + repeat)"""

    def __init__(self, rows, cols, cell, lead=False, log=None):
        self.rows, self.cols, self.cell, self.lead = rows, cols, cell, lead
        self.log = log if log is not None else {"reads": [], "writes": [], "other": []}
        self.dtype, self.device = "float", "cpu"

    # -- the two re-layouts of the initialisation
    def sym_getattr(self, interp, name):
        if name == "unsqueeze":
            def unsqueeze(dim):
                if _concrete(dim) != 0 or self.lead:
                    raise Unsupported("grid.unsqueeze other than (0)")
                return Grid(self.rows, self.cols, self.cell, True, self.log)
            return unsqueeze
        if name == "repeat":
            def repeat(k, a, b):
                if not self.lead or _concrete(a) != 1 or _concrete(b) != 1:
                    raise Unsupported("grid.repeat other than (k, 1, 1)")
                self.log["other"].append(("repeat", k))
                return Grid(self.rows, self.cols, self.cell, True, self.log)
            return repeat
        raise Unsupported(f"grid.{name}")

    def _idx(self, k, size):
        z = num(k)
        c = _concrete(k)
        if c is not None and c < 0:
            return size + c
        return z

    def sym_getitem(self, interp, k):
        if not (self.lead and isinstance(k, tuple) and len(k) == 3 and isinstance(k[0], slice) and k[0] == slice(None)):
            raise Unsupported(f"grid read {k!r}")
        a, b = self._idx(k[1], self.rows), self._idx(k[2], self.cols)
        self.log["reads"].append((a, b))
        return T(self.cell(a, b), "float", None, None, None)

    def sym_setitem(self, interp, k, v):
        old = self.cell
        if not self.lead:
            # grid[:, 0] = arange(rows)   /   grid[0, :] = arange(cols)
            if not (isinstance(k, tuple) and len(k) == 2):
                raise Unsupported(f"grid init write {k!r}")
            if isinstance(v, T) and v.tlen is not None:
                f = v.f
            elif isinstance(v, (int, float, SV)) or (isinstance(v, T) and v.tlen is None):
                const = num(v) if not isinstance(v, T) else v.f  # a scalar broadcasts over the row / column
                f = lambda i, const=const: const  # noqa: E731
                v = T(f, "float", wrap(self.rows if _concrete(k[1]) == 0 else self.cols), "first", tz.Shape(()))
            else:
                raise Unsupported(f"grid init write {k!r}")
            if isinstance(k[0], slice) and k[0] == slice(None) and _concrete(k[1]) == 0:
                interp_len_ok = num(v.tlen) == self.rows
                self.log["other"].append(("col0_len", interp_len_ok))
                self.cell = lambda r, c, old=old, f=f: z3.If(c == 0, tz.coerce(f(r), "float"), old(r, c))
            elif isinstance(k[1], slice) and k[1] == slice(None) and _concrete(k[0]) == 0:
                self.log["other"].append(("row0_len", num(v.tlen) == self.cols))
                self.cell = lambda r, c, old=old, f=f: z3.If(r == 0, tz.coerce(f(c), "float"), old(r, c))
            else:
                raise Unsupported(f"grid init write {k!r}")
            return
        if not (isinstance(k, tuple) and len(k) == 3 and isinstance(k[0], slice) and k[0] == slice(None) and isinstance(v, T) and v.tlen is None):
            raise Unsupported(f"grid write {k!r}")
        a, b = self._idx(k[1], self.rows), self._idx(k[2], self.cols)
        val = tz.coerce(v.f, "float")
        self.log["writes"].append((a, b, val, v.nan_at() if v.nan is not None else None))
        self.cell = lambda r, c, old=old, a=a, b=b, val=val: z3.If(z3.And(r == a, c == b), val, old(r, c))


def _setup(c, tag, t0f, t1f, n, m, cost, times_dtype="float"):
    """one symbolic run of the real function up to and including its return; returns dict(result, step facts...)"""
    it = c.interp
    t0 = T(lambda t: t0f(t), times_dtype, wrap(n), "first", tz.Shape(()))
    t1 = T(lambda t: t1f(t), times_dtype, wrap(m), "first", tz.Shape(()))
    t0._numel, t1._numel = wrap(n), wrap(m)
    st = {"tag": tag}
    G = z3.Function(f"G_{tag}", I, I, R)  # table content once the loops are done / of the already-filled region

    orig_zeros = it.torch_ns._table["zeros"]

    def zeros(*shape, **kw):
        if len(shape) == 2:
            st["grid_dtype"] = kw.get("dtype")
            st["grid0"] = Grid(num(shape[0]), num(shape[1]), lambda r, cc: z3.RealVal(0))
            return st["grid0"]
        return orig_zeros(*shape, **kw)

    it.torch_ns._table["zeros"] = zeros
    r, cc = z3.Int(f"r_{tag}"), z3.Int(f"c_{tag}")

    def dp(interp, node, env, mod, cls, fn):
        inner = node.body[0] if len(node.body) == 1 and isinstance(node.body[0], ast.For) else None
        if inner is None or node.orelse or inner.orelse:
            raise Unsupported("the DP is no longer a two-level for nest")

        def rng(nd):
            if not (isinstance(nd.iter, ast.Call) and ast.unparse(nd.iter.func) == "range" and len(nd.iter.args) == 2 and isinstance(nd.target, ast.Name)):
                raise Unsupported("DP loop is not `for x in range(lo, hi)`")
            lo, hi = (num(interp.eval(a, env, mod, cls)) for a in nd.iter.args)
            return nd.target.id, lo, hi

        g = env.lookup("grid")
        if not isinstance(g, Grid) or not g.lead:
            raise Unsupported("grid is not the (cost, rows, cols) table at the loop head")
        st["init"] = g.cell
        st["rows"], st["cols"] = g.rows, g.cols
        st["init_other"] = list(g.log["other"])
        rv, rlo, rhi = rng(node)
        env.set(rv, wrap(r))
        cv, clo, chi = rng(inner)  # evaluated with the row variable bound (the inner range may mention it)
        st["ranges"] = (rlo, rhi, clo, chi)
        # one arbitrary iteration: the table holds the initial row/column and G on the filled region
        init = g.cell
        filled = lambda a, b: z3.Or(a < r, z3.And(a == r, b < cc))  # noqa: E731
        g.cell = lambda a, b: z3.If(z3.Or(a == 0, b == 0), init(a, b), G(a, b))
        g.log["reads"].clear()
        g.log["writes"].clear()
        env.set(cv, wrap(cc))
        # (r, c) is an arbitrary cell of the iteration space: one path runs the body there, the other (no such cell - an
        # empty train - or (r, c) outside it) skips it, so base and exit obligations are never vacuous
        st["in_range"] = interp.truth(wrap(z3.And(rlo <= r, r < rhi, clo <= cc, cc < chi)))
        if st["in_range"]:
            interp.exec_block(inner.body, env, mod, cls, fn)
        st["reads"], st["writes"] = list(g.log["reads"]), list(g.log["writes"])
        st["filled"] = filled
        # after the loops: every cell holds G (base row / column: the initial values)
        g.cell = lambda a, b: z3.If(z3.Or(a == 0, b == 0), init(a, b), G(a, b))
        g.log["reads"].clear()
        g.log["writes"].clear()
        st["grid"] = g

    it.loop_contracts[(FN, 0)] = dp
    out = c.outcome(c.function(M, FN), t0, t1, cost)
    c.expect_return(out, label=f"returns[{tag}]")
    st["out"] = out.value if out.ok else None
    st.update(G=G, r=r, c=cc, n=n, m=m)
    it.torch_ns._table["zeros"] = orig_zeros
    return st


def _structure(c, st, tag=""):
    """the loop nest really is the cell recurrence the invariants talk about"""
    n, m, r, cc = st["n"], st["m"], st["r"], st["c"]
    c.ensure(f"table_has_one_row_per_prefix_of_t0{tag}", st["rows"] == n + 1)
    c.ensure(f"table_has_one_column_per_prefix_of_t1{tag}", st["cols"] == m + 1)
    for kind, f in st["init_other"]:
        if kind in ("col0_len", "row0_len"):
            c.ensure(f"initial_{kind}_matches_the_table{tag}", f)
    rlo, rhi, clo, chi = st["ranges"]
    c.ensure(f"loops_visit_every_cell_once{tag}", z3.And(rlo == 1, rhi == n + 1, clo == 1, chi == m + 1))
    ws = st["writes"]
    dom = z3.And(1 <= r, r <= n, 1 <= cc, cc <= m)
    if not st["in_range"]:
        return dom
    c.ensure(f"body_writes_exactly_its_own_cell{tag}", len(ws) == 1 and z3.And(ws[0][0] == r, ws[0][1] == cc))
    for i, (a, b) in enumerate(st["reads"]):
        ok = z3.And(a >= 0, b >= 0, a <= n, b <= m, z3.Or(a == 0, b == 0, st["filled"](a, b)))
        c.ensure(f"body_reads_only_cells_already_computed{tag}#{i}", z3.Implies(dom, ok))
    c.ensure(f"body_reads_the_three_neighbours{tag}", len(st["reads"]) == 3)
    return dom


def _inv_on_reads(st, inv):
    """the induction hypothesis, instantiated at the cells the body read (base row/column cells carry their initial value,
    for which the invariant is a separate obligation, so it may be assumed there as well)"""
    return z3.And([inv(a, b, st["grid"].cell(a, b)) for a, b in st["reads"]] or [z3.BoolVal(True)])


def _abs(x):
    return z3.If(x >= 0, x, -x)


@contract(P, "victor_purpura_pair_dist[loop contract: bounds, identity]", (M, FN), min_obligations=10)
def vp_bounds(c):
    n, m = c.int("n"), c.int("m")
    c.require(n >= 0, m >= 0)
    t0f, t1f = z3.Function("t0", I, R), z3.Function("t1", I, R)
    cost = c.pw("cost")
    c.require(cost.f >= 0)
    same = c.bool("same_train")
    c.axiom(z3.Implies(same.z, n.z == m.z))
    k = z3.Int("k_same")
    st = _setup(c, "a", t0f, lambda t: z3.If(same.z, t0f(t), t1f(t)), n.z, m.z, cost)
    dom = _structure(c, st)
    r, cc, G = st["r"], st["c"], st["G"]
    init = st["init"]
    a0, b0 = z3.Int("base_row_index"), z3.Int("base_col_index")
    tr = lambda x: z3.ToReal(x)  # noqa: E731
    bound = lambda a, b, v: z3.And(_abs(tr(a) - tr(b)) <= v, v <= tr(a) + tr(b))  # noqa: E731
    ident = lambda a, b, v: z3.Implies(z3.And(same.z, a == b), v == 0)  # noqa: E731
    inv = lambda a, b, v: z3.And(bound(a, b, v), ident(a, b, v))  # noqa: E731
    # base: row 0 and column 0 as the initialisation code left them
    c.ensure("base_column_is_the_prefix_length", z3.Implies(z3.And(0 <= a0, a0 <= n.z), init(a0, z3.IntVal(0)) == tr(a0)))
    c.ensure("base_row_is_the_prefix_length", z3.Implies(z3.And(0 <= b0, b0 <= m.z), init(z3.IntVal(0), b0) == tr(b0)))
    c.ensure("invariant_on_base_column", z3.Implies(z3.And(0 <= a0, a0 <= n.z), inv(a0, z3.IntVal(0), init(a0, z3.IntVal(0)))))
    c.ensure("invariant_on_base_row", z3.Implies(z3.And(0 <= b0, b0 <= m.z), inv(z3.IntVal(0), b0, init(z3.IntVal(0), b0))))
    # step: one arbitrary iteration of the real body
    if len(st["writes"]) == 1:
        _, _, val, nanflag = st["writes"][0]
        hyp = z3.And(dom, _inv_on_reads(st, inv))
        c.ensure("step_keeps_lower_bound_|r-c|", z3.Implies(hyp, _abs(tr(r) - tr(cc)) <= val))
        c.ensure("step_keeps_upper_bound_r+c", z3.Implies(hyp, val <= tr(r) + tr(cc)))
        c.ensure("step_keeps_identity_zero_on_the_diagonal", z3.Implies(hyp, ident(r, cc, val)))
        if nanflag is not None:
            c.ensure("step_value_is_a_number", z3.Implies(hyp, z3.Not(nanflag)))
        c.canary("canary_step_is_always_zero", z3.Implies(hyp, val == 0))
    # exit: the returned cell is (n, m); by lean grid_invariant the invariant holds there
    res = st["out"]
    if res is not None:
        c.ensure("returns_the_last_cell", tz.coerce(res.f, "float") == st["grid"].cell(n.z, m.z) if isinstance(res, T) and res.tlen is None else False)
        fin = st["grid"].cell(n.z, m.z)
        concl = z3.Implies(inv(n.z, m.z, fin), z3.And(_abs(tr(n.z) - tr(m.z)) <= fin, fin <= tr(n.z) + tr(m.z), z3.Implies(same.z, fin == 0)))
        c.ensure("invariant_at_the_last_cell_gives_limits_and_identity", concl)


@contract(P, "victor_purpura_pair_dist[loop contract: symmetry, cost monotone]", (M, FN), min_obligations=6)
def vp_sym(c):
    """two symbolic runs of the real body: (t0, t1, cost) at cell (r, c) and (t1, t0, cost') at cell (c, r)"""
    n, m = c.int("n"), c.int("m")
    c.require(n >= 0, m >= 0)
    t0f, t1f = z3.Function("t0", I, R), z3.Function("t1", I, R)
    cost, cost2 = c.pw("cost"), c.pw("cost_b")
    mode = c.choice("law", ["symmetry", "monotone"])
    c.require(cost.f >= 0, cost2.f >= 0)
    if mode == "symmetry":
        c.require(cost2.f == cost.f)
    else:
        c.require(cost.f <= cost2.f)
    sa = _setup(c, "a", t0f, t1f, n.z, m.z, cost)
    if mode == "symmetry":
        sb = _setup(c, "b", t1f, t0f, m.z, n.z, cost2)
    else:
        sb = _setup(c, "b", t0f, t1f, n.z, m.z, cost2)
    doma = _structure(c, sa, "[first]")
    domb = _structure(c, sb, "[second]")
    ra, ca, rb, cb = sa["r"], sa["c"], sb["r"], sb["c"]
    link = z3.And(rb == ca, cb == ra) if mode == "symmetry" else z3.And(rb == ra, cb == ca)
    if len(sa["writes"]) != 1 or len(sb["writes"]) != 1:
        return
    va, vb = sa["writes"][0][2], sb["writes"][0][2]
    ga, gb = sa["grid"].cell, sb["grid"].cell
    # relational hypothesis on the neighbours: instantiated at the cells the FIRST run read
    if mode == "symmetry":
        rel = lambda a, b: ga(a, b) == gb(b, a)  # noqa: E731
    else:
        rel = lambda a, b: ga(a, b) <= gb(a, b)  # noqa: E731
    a0, b0 = z3.Int("base_row_index"), z3.Int("base_col_index")
    base_dom = z3.And(0 <= a0, a0 <= n.z, 0 <= b0, b0 <= m.z, z3.Or(a0 == 0, b0 == 0))
    base = (sa["init"](a0, b0) == sb["init"](b0, a0)) if mode == "symmetry" else (sa["init"](a0, b0) <= sb["init"](a0, b0))
    c.ensure(f"{mode}:holds_on_base_row_and_column", z3.Implies(base_dom, base))
    hyp = z3.And(doma, domb, link, z3.And([rel(a, b) for a, b in sa["reads"]] or [z3.BoolVal(True)]))
    c.ensure(f"{mode}:step", z3.Implies(hyp, va == vb if mode == "symmetry" else va <= vb))
    c.canary(f"canary_{mode}:strict", z3.Implies(hyp, va < vb))
    # both runs return their last cell, and the last cells correspond
    oa, ob = sa["out"], sb["out"]
    if oa is not None and ob is not None:
        c.ensure(f"{mode}:returns_the_last_cells", z3.And(tz.coerce(oa.f, "float") == ga(n.z, m.z), tz.coerce(ob.f, "float") == (gb(m.z, n.z) if mode == "symmetry" else gb(n.z, m.z))))



@contract(P, "victor_purpura_pair_dist[integer spike times]", (M, FN), min_obligations=2)
def vp_integer_times(c):
    """spike times given as INTEGERS (step indices, e.g. from torch.nonzero of a raster) with a fractional cost: the table
    accumulates costs, so it is created with the COST's floating-point type - a table typed like the spike times would
    truncate every shift cost toward zero (distinct trains at distance 0)"""
    n, m = c.int("n"), c.int("m")
    c.require(n >= 0, m >= 0)
    t0f, t1f = z3.Function("t0i", I, I), z3.Function("t1i", I, I)
    cost = c.pw("cost")
    c.require(cost.f >= 0)
    st = _setup(c, "i", t0f, t1f, n.z, m.z, cost, times_dtype="int")
    # no dtype given = torch's default floating type: fine as well (only an INTEGER table truncates the costs)
    c.ensure("table_created_with_the_floating_point_type_of_the_cost", "grid0" in st and (st.get("grid_dtype") is None or tz.tag_of(st.get("grid_dtype")) == "float"))
    c.canary("canary_table_typed_like_the_spike_times", st.get("grid_dtype") is not None and tz.tag_of(st.get("grid_dtype")) == "int")


@contract(P, "victor_purpura_pair_dist[scalar cost limits]", (M, FN), min_obligations=2)
def vp_limits(c):
    """the two closed-form branches for a python-float cost: 0 -> |n - m| ; inf -> n + m (as documented, coincident spikes
    not matched); any other float becomes a one-element tensor and takes the loop"""
    n, m = c.int("n"), c.int("m")
    c.require(n >= 0, m >= 0)
    t0f, t1f = z3.Function("t0", I, R), z3.Function("t1", I, R)
    t0 = T(lambda t: t0f(t), "float", n, "first", tz.Shape(()))
    t1 = T(lambda t: t1f(t), "float", m, "first", tz.Shape(()))
    t0._numel, t1._numel = n, m
    which = c.choice("cost", ["zero", "inf"])
    out = c.outcome(c.function(M, FN), t0, t1, 0.0 if which == "zero" else float("inf"))
    c.expect_return(out)
    v = out.value
    val = v.f(z3.IntVal(0)) if isinstance(v, T) and v.tlen is not None else v.f
    d = z3.ToReal(n.z) - z3.ToReal(m.z)
    c.ensure(f"cost_{which}_limit", tz.coerce(val, "float") == (_abs(d) if which == "zero" else z3.ToReal(n.z) + z3.ToReal(m.z)))
    c.canary("canary_limit_is_zero", tz.coerce(val, "float") == 0)


ASSUMPTIONS = [
    "victor_purpura_pair_dist: the cost tensor is one arbitrary finite element >= 0 (the loop body is element-wise over the cost axis); +inf as a TENSOR cost (NaN from inf*0, mapped to inf by nan_to_num) is outside the real-arithmetic theory and stays with native/c20.py",
    "victor_purpura_pair_dist: the induction from (base row, base column, cell step) to every cell is lean/Induction.lean grid_invariant; the solver discharges base and step on the real loop body",
    "victor_purpura_pair_dist: triangle inequality NOT proved (bounded oracle only)",
]

MUTANTS = [
    dict(file=M, func=FN, old="c_add_b = grid[:, r, c - 1] + 1", new="c_add_b = grid[:, r, c - 1] + 2", contracts=["victor_purpura_pair_dist[loop contract: bounds, identity]", "victor_purpura_pair_dist[loop contract: symmetry, cost monotone]"], name="deleting a spike of the second train costs 2 (upper bound and symmetry break)"),
    dict(file=M, func=FN, old="c_shift = grid[:, r - 1, c - 1] + cost * torch.abs(t0[r - 1] - t1[c - 1])", new="c_shift = grid[:, r - 1, c - 1] + cost * (t0[r - 1] - t1[c - 1])", contracts=["victor_purpura_pair_dist[loop contract: bounds, identity]"], name="signed shift cost (lower bound breaks)"),
    dict(file=M, func=FN, old="c_shift = grid[:, r - 1, c - 1] + cost * torch.abs(t0[r - 1] - t1[c - 1])", new="c_shift = grid[:, r - 1, c - 1] + cost * torch.abs(t0[r - 1] - t1[c - 1]) + 0.5", contracts=["victor_purpura_pair_dist[loop contract: bounds, identity]"], name="shift has a fixed cost (d(t, t) is no longer 0)"),
    dict(file=M, func=FN, old="for c in range(1, t1.numel() + 1):", new="for c in range(1, t1.numel()):", contracts=["victor_purpura_pair_dist[loop contract: bounds, identity]"], name="last column never filled"),
    dict(file=M, func=FN, old="c_add_a = grid[:, r - 1, c] + 1", new="c_add_a = grid[:, r - 1, c + 1] + 1", contracts=["victor_purpura_pair_dist[loop contract: bounds, identity]"], name="reads a cell that is not computed yet"),
    dict(file=M, func=FN, old="grid[:, 0] = torch.arange(0, t0.numel() + 1, **tckwargs).t()", new="grid[:, 0] = 0", contracts=["victor_purpura_pair_dist[loop contract: bounds, identity]"], name="base column not initialised"),
    dict(file=M, func=FN, old="return torch.tensor([float(abs(t0.numel() - t1.numel()))], device=t0.device)", new="return torch.tensor([float(t0.numel() - t1.numel())], device=t0.device)", contracts=["victor_purpura_pair_dist[scalar cost limits]"], name="cost 0: signed count difference"),
    dict(file=M, func=FN, old="return grid[:, -1, -1]", new="return grid[:, -1, -2]", contracts=["victor_purpura_pair_dist[loop contract: bounds, identity]"], name="returns the wrong cell"),
    dict(file=M, func=FN, old='tckwargs = {"dtype": cost.dtype, "device": cost.device}', new='tckwargs = {"dtype": t0.dtype, "device": t0.device}', contracts=["victor_purpura_pair_dist[integer spike times]"], name="seed C20h: the table is typed like the spike times"),
    dict(file=M, func=FN, old='tckwargs = {"dtype": cost.dtype, "device": cost.device}', new='tckwargs = {"device": cost.device}', contracts=["victor_purpura_pair_dist[integer spike times]"], expect="survives", name="control: table created with the default floating type"),
]
