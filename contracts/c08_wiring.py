"""C08 - monitor wiring of the STDP-family trainers: the REAL register_cell (and _build_cell_state) are executed on a
stub trainer whose add_cell/add_monitor/get_unit record their arguments; the recorded table is checked against what
the per-step formula (c09_split) needs to produce the documented pair sums."""
from __future__ import annotations

import z3

from pyvc import repo
from pyvc.harness import contract
from pyvc.interp import Closure, Obj, Partial
from pyvc.models import Model
from pyvc.sym import ceil_real, num

T2 = "inferno/learn/trainers/two_factor_stdp.py"
T3 = "inferno/learn/trainers/three_factor_stdp.py"
P = "C08"


def zabs(x):
    return z3.If(x >= 0, x, -x)


def run_register(c, file, cls, fields, delayed_conn):
    it = c.interp
    cv = it.classv(repo.load_module(file).classes[cls])
    tr = Obj(cv, "trainer")
    tr.fields.update(fields)
    conn = Obj(None, "connection")
    dt = c.real("dt")
    c.require(dt > 0)
    dby = c.real("delayedby")
    c.require(dby > 0)
    conn.fields.update(dt=dt, delayedby=(dby if delayed_conn else None))
    conn.fields["presyn_receptive"] = Model(lambda itp, x: x, "presyn_receptive")
    conn.fields["postsyn_receptive"] = Model(lambda itp, x: x, "postsyn_receptive")
    box_conn = conn
    cell = Obj(None, "cell")
    cell.fields.update(connection=conn)
    calls = []
    box = {}

    def add_cell(itp, name, cl, state, params):
        box["state"] = state
        box["params"] = params
        return (cl, state)

    def add_monitor(itp, name, mon, attr, ctor, unique=False, /, **tags):
        calls.append(dict(cell=name, name=mon, attr=attr, ctor=ctor, unique=unique, tags=tags))
        return None

    tr.fields["add_cell"] = Model(add_cell, "add_cell")
    tr.fields["add_monitor"] = Model(add_monitor, "add_monitor")
    tr.fields["get_unit"] = Model(lambda itp, name: ("unit", name), "get_unit")
    out = c.outcome(c.getattr(tr, "register_cell"), "cell0", cell)
    c.expect_return(out)
    table = {}
    for k in calls:
        ctor = k["ctor"]
        if isinstance(ctor, Closure):
            g = lambda n: ctor.env.lookup(n)  # noqa: E731
        elif isinstance(ctor, Partial):
            g = lambda n: ctor.kwargs.get(n)  # noqa: E731
        else:
            raise TypeError("monitor constructor")
        red = g("reducer")
        N = red.fields["_data__constraints"][0]
        box.setdefault("raw", {})[k["name"]] = dict(unique=k["unique"], tags=k["tags"], prepend=g("prepend"), subattrs=(g("subattrs") if k["attr"] == "monitors" else None), conn=box_conn)
        table[k["name"]] = dict(attr=k["attr"], cls=red.cls.name, red=red, N=N, train=g("train_update"), evl=g("eval_update"), prehook=g("as_prehook"), dur=red.fields["_data__duration"], incl=red.fields["_data__inclusive"], rdt=red.fields["_data__dt"])
    return table, dt, dby, box


def common_clauses(c, table, dt, pre_attr):
    c.ensure("all_monitors_record_in_training_only", all(m["train"] is True and m["evl"] is False for m in table.values()))
    c.ensure("all_monitors_posthooks", all(m["prehook"] is False for m in table.values()))
    c.ensure("all_records_inclusive_with_connection_dt", z3.And(*[z3.And(m["incl"] is True, num(m["rdt"]) == dt.z) for m in table.values()]))
    c.ensure("post_side_observes_neuron_spikes", all(m["attr"] == "neuron.spike" for n, m in table.items() if "post" in n))
    c.ensure("pre_side_observes_" + pre_attr.replace(".", "_"), all(m["attr"] == pre_attr for n, m in table.items() if "pre" in n))


def _pair(cls, file, stable):
    @contract(P, f"{cls}.register_cell", [(file, f"{cls}.register_cell"), (file, f"{cls}._build_cell_state")], tags=("wiring",))
    def wiring(c, cls=cls):
        lr_post, lr_pre, tc_post, tc_pre = c.real("lr_post"), c.real("lr_pre"), c.real("tc_post"), c.real("tc_pre")
        c.require(tc_post > 0, tc_pre > 0, lr_post != 0, lr_pre != 0)  # reducers reject a zero amplitude
        mode = c.choice("trace_mode", ["cumulative", "nearest"])
        delayed = c.choice("delayed", [True, False])
        dconn = c.choice("connection_has_delay", [True, False])
        fields = dict(lr_post=lr_post, lr_pre=lr_pre, tc_post=tc_post, tc_pre=tc_pre, delayed=delayed, tolerance=0.0, trace=mode, batchreduce=None, inplace=False)
        table, dt, dby, box = run_register(c, file, cls, fields, dconn)
        isdel = delayed and dconn
        c.ensure("monitor_names", sorted(table) == ["spike_post", "spike_pre", "trace_post", "trace_pre"])
        common_clauses(c, table, dt, "synapse.spike" if isdel else "connection.synspike")
        tcls = "CumulativeTraceReducer" if mode == "cumulative" else "NearestTraceReducer"
        c.ensure("trace_reducer_class_by_mode", table["trace_post"]["cls"] == tcls and table["trace_pre"]["cls"] == tcls)
        c.ensure("spike_monitors_passthrough", table["spike_post"]["cls"] == "PassthroughReducer" and table["spike_pre"]["cls"] == "PassthroughReducer")
        tp, tq = table["trace_post"]["red"], table["trace_pre"]["red"]
        # product (reducer amplitude) x (factor applied in forward) = |eta| : forward of STDP applies 1, StableSTDP applies |eta|
        ap, aq = (1, 1) if stable else (zabs(lr_pre.z), zabs(lr_post.z))
        c.ensure("post_trace_amplitude_and_tau", z3.And(num(tp.fields["amplitude"]) == ap, num(tp.fields["time_constant"]) == tc_post.z))
        c.ensure("pre_trace_amplitude_and_tau", z3.And(num(tq.fields["amplitude"]) == aq, num(tq.fields["time_constant"]) == tc_pre.z))
        need = ceil_real(dby.z / dt.z) + 1 if isdel else z3.IntVal(1)
        c.ensure("pre_records_reach_the_largest_delay", z3.And(num(table["trace_pre"]["N"]) >= need, num(table["spike_pre"]["N"]) >= need))
        c.ensure("trains_weight", box.get("params") == ["weight"])
        c.canary("canary_swapped_amplitudes", z3.And(num(tp.fields["amplitude"]) == aq, num(tq.fields["amplitude"]) == ap, lr_post.z != lr_pre.z, lr_post.z != -lr_pre.z, not stable))


_pair("STDP", T2, False)
_pair("StableSTDP", T2, True)
_pair("MSTDP", T3, False)


def _triplet(cls, stable):
    @contract(P, f"{cls}.register_cell", [(T2, f"{cls}.register_cell"), (T2, f"{cls}._build_cell_state")], tags=("wiring",))
    def wiring(c, cls=cls):
        names = ["lr_post_pair", "lr_post_triplet", "lr_pre_pair", "lr_pre_triplet", "tc_post_fast", "tc_post_slow", "tc_pre_fast", "tc_pre_slow"]
        f = {n: c.real(n) for n in names}
        c.require(f["tc_post_fast"] > 0, f["tc_post_slow"] > 0, f["tc_pre_fast"] > 0, f["tc_pre_slow"] > 0, f["lr_post_pair"] != 0, f["lr_pre_pair"] != 0, f["lr_post_triplet"] != 0, f["lr_pre_triplet"] != 0, f["tc_post_slow"] > f["tc_post_fast"], f["tc_pre_slow"] > f["tc_pre_fast"])
        mode = c.choice("trace_mode", ["cumulative", "nearest"])
        delayed = c.choice("delayed", [True, False])
        dconn = c.choice("connection_has_delay", [True, False])
        fields = dict(f, delayed=delayed, tolerance=0.0, trace=mode, batchreduce=None, inplace=False)
        table, dt, dby, box = run_register(c, T2, cls, fields, dconn)
        isdel = delayed and dconn
        c.ensure("monitor_names", sorted(table) == sorted(["spike_post", "spike_pre", "trace_post_fast", "trace_post_slow", "trace_pre_fast", "trace_pre_slow"]))
        common_clauses(c, table, dt, "synapse.spike" if isdel else "connection.synspike")
        tcls = "CumulativeTraceReducer" if mode == "cumulative" else "NearestTraceReducer"
        c.ensure("trace_reducer_class_by_mode", all(table[n]["cls"] == tcls for n in ("trace_post_fast", "trace_post_slow", "trace_pre_fast", "trace_pre_slow")))
        c.ensure("spike_monitors_passthrough", table["spike_post"]["cls"] == "PassthroughReducer" and table["spike_pre"]["cls"] == "PassthroughReducer")
        z = {k: v.z for k, v in f.items()}
        g = lambda n: table[n]["red"].fields  # noqa: E731
        if not stable:
            c.ensure("fast_amplitudes", z3.And(num(g("trace_post_fast")["amplitude"]) == zabs(z["lr_pre_pair"]), num(g("trace_pre_fast")["amplitude"]) == zabs(z["lr_post_pair"])))
            c.ensure("slow_amplitudes_ratio_triplet_over_pair", z3.And(num(g("trace_post_slow")["amplitude"]) == zabs(z["lr_post_triplet"] / z["lr_post_pair"]), num(g("trace_pre_slow")["amplitude"]) == zabs(z["lr_pre_triplet"] / z["lr_pre_pair"])))
        c.ensure("time_constants", z3.And(num(g("trace_post_fast")["time_constant"]) == z["tc_post_fast"], num(g("trace_post_slow")["time_constant"]) == z["tc_post_slow"], num(g("trace_pre_fast")["time_constant"]) == z["tc_pre_fast"], num(g("trace_pre_slow")["time_constant"]) == z["tc_pre_slow"]))
        D = ceil_real(dby.z / dt.z)
        # forward reads the slow traces at offset 2 (one step earlier): post slow needs >= 2 slots; the delayed slow pre
        # trace is selected at offset 2 with delays up to delayedby: needs ceil(delayedby/dt) + 2 slots
        c.ensure("slow_post_record_has_two_slots", num(table["trace_post_slow"]["N"]) >= 2)
        c.ensure("slow_pre_record_reaches_largest_delay_plus_one_step", num(table["trace_pre_slow"]["N"]) >= (D + 2 if isdel else z3.IntVal(2)))
        c.ensure("fast_pre_records_reach_the_largest_delay", z3.And(num(table["trace_pre_fast"]["N"]) >= (D + 1 if isdel else z3.IntVal(1)), num(table["spike_pre"]["N"]) >= (D + 1 if isdel else z3.IntVal(1))))
        c.canary("canary_slow_pre_too_short", z3.And(isdel, num(table["trace_pre_slow"]["N"]) <= D + 1))


_triplet("TripletSTDP", False)
_triplet("StableTripletSTDP", True)


@contract(P, "MSTDPET.register_cell", [(T3, "MSTDPET.register_cell"), (T3, "MSTDPET._build_cell_state"), (T3, "EligibilityTraceReducer.__init__")], tags=("wiring",))
def mstdpet_wiring(c):
    lr_post, lr_pre, tc_post, tc_pre, tce = c.real("lr_post"), c.real("lr_pre"), c.real("tc_post"), c.real("tc_pre"), c.real("tc_eligibility")
    c.require(tc_post > 0, tc_pre > 0, lr_post != 0, lr_pre != 0, tce > 0)
    mode = c.choice("trace_mode", ["cumulative", "nearest"])
    fields = dict(lr_post=lr_post, lr_pre=lr_pre, tc_post=tc_post, tc_pre=tc_pre, tc_eligibility=tce, tolerance=0.0, trace=mode, batchreduce=None, inplace=False, scale=1.0)
    table, dt, dby, box = run_register(c, T3, "MSTDPET", fields, False)
    raw = box["raw"]
    c.ensure("monitor_names", sorted(table) == sorted(["spike_post", "spike_pre", "trace_post", "trace_pre", "elig_post", "elig_pre"]))
    base = {n: m for n, m in table.items() if not n.startswith("elig")}
    common_clauses(c, base, dt, "connection.synspike")
    tcls = "CumulativeTraceReducer" if mode == "cumulative" else "NearestTraceReducer"
    c.ensure("trace_reducer_class_by_mode", table["trace_post"]["cls"] == tcls and table["trace_pre"]["cls"] == tcls)
    c.ensure("spike_monitors_passthrough", table["spike_post"]["cls"] == "PassthroughReducer" and table["spike_pre"]["cls"] == "PassthroughReducer")
    tp, tq = table["trace_post"]["red"], table["trace_pre"]["red"]
    c.ensure("trace_amplitudes_and_taus", z3.And(num(tp.fields["amplitude"]) == zabs(lr_pre.z), num(tp.fields["time_constant"]) == tc_post.z, num(tq.fields["amplitude"]) == zabs(lr_post.z), num(tq.fields["time_constant"]) == tc_pre.z))
    # eligibility traces: z_post integrates (presynaptic trace x postsynaptic spike), z_pre (postsynaptic trace x presynaptic spike)
    c.ensure("eligibility_monitors_read_the_cell_monitor_map", table["elig_post"]["attr"] == "monitors" and table["elig_pre"]["attr"] == "monitors")
    c.ensure("elig_post_pairs_pre_trace_with_post_spike", tuple(raw["elig_post"]["subattrs"]) == ("trace_pre.latest", "spike_post.latest"))
    c.ensure("elig_pre_pairs_post_trace_with_pre_spike", tuple(raw["elig_pre"]["subattrs"]) == ("trace_post.latest", "spike_pre.latest"))
    ep, eq = table["elig_post"]["red"], table["elig_pre"]["red"]
    c.ensure("eligibility_time_constant_and_step", z3.And(num(ep.fields["time_constant"]) == tce.z, num(eq.fields["time_constant"]) == tce.z, num(table["elig_post"]["rdt"]) == dt.z, num(table["elig_pre"]["rdt"]) == dt.z))
    conn = raw["elig_post"]["conn"]
    pre_m, post_m = conn.fields["presyn_receptive"], conn.fields["postsyn_receptive"]

    def target(wm):
        return wm() if not isinstance(wm, Model) else wm

    c.ensure("elig_post_reshapes_observation_as_presynaptic_condition_as_postsynaptic", target(ep.fields["obs_reshape"]) is pre_m and target(ep.fields["cond_reshape"]) is post_m)
    c.ensure("elig_pre_reshapes_observation_as_postsynaptic_condition_as_presynaptic", target(eq.fields["obs_reshape"]) is post_m and target(eq.fields["cond_reshape"]) is pre_m)
    # ordering inside one layer step: the trace / spike monitors are prepended (run first), the eligibility monitors are
    # appended (run after them) so that `.latest` is this step's value
    c.ensure("eligibility_monitors_run_after_the_monitors_they_read", all(raw[n]["prepend"] is True for n in base) and raw["elig_post"]["prepend"] is False and raw["elig_pre"]["prepend"] is False)
    c.ensure("eligibility_monitors_are_never_pooled", raw["elig_post"]["unique"] is True and raw["elig_pre"]["unique"] is True)
    c.ensure("all_record_in_training_only", all(m["train"] is True and m["evl"] is False for m in table.values()))
    c.canary("canary_eligibility_tau_is_tc_post", num(ep.fields["time_constant"]) == tc_post.z)


D2 = "inferno/learn/trainers/delay_adj_two_factor_stdp.py"
D3 = "inferno/learn/trainers/delay_adj_three_factor_stdp.py"
KS = "inferno/learn/trainers/kernel_stdp.py"


def _event_wiring(prop, cls, file, param, kernel):
    """delay-adjusted / kernel rules work from last-spike TIMES: both monitors are event reducers that start at NaN
    ("has not spiked yet"), the post side observes neuron.spike, the pre side the UNDELAYED synapse.spike (the rule
    subtracts the learned delay itself), records one step, training mode only, trains `param`"""
    @contract(prop, f"{cls}.register_cell", [(file, f"{cls}.register_cell"), (file, f"{cls}._build_cell_state")], tags=("wiring",))
    def wiring(c, cls=cls):
        lr_pos, lr_neg, tc_pos, tc_neg, tol = c.real("lr_pos"), c.real("lr_neg"), c.real("tc_pos"), c.real("tc_neg"), c.real("tol")
        c.require(tc_pos > 0, tc_neg > 0, tol >= 0)
        inplace = c.choice("inplace", [False, True])
        if kernel:
            fields = dict(kernel_post="<kpost>", kernel_pre="<kpre>", kernel_post_kwargs={}, kernel_pre_kwargs={}, tolerance=tol, batchreduce=None, inplace=inplace, delayed=False)
        else:
            fields = dict(lr_pos=lr_pos, lr_neg=lr_neg, tc_pos=tc_pos, tc_neg=tc_neg, tolerance=tol, batchreduce=None, inplace=inplace)
        table, dt, dby, box = run_register(c, file, cls, fields, True)
        raw = box["raw"]
        c.ensure("monitor_names", sorted(table) == ["spike_post", "spike_pre"])
        c.ensure("event_reducers", all(m["cls"] == "EventReducer" for m in table.values()))
        c.ensure("post_side_observes_neuron_spikes", table["spike_post"]["attr"] == "neuron.spike")
        c.ensure("pre_side_observes_undelayed_synapse_spikes", table["spike_pre"]["attr"] == "synapse.spike")
        import math as _math

        def is_nan(v):
            return isinstance(v, float) and _math.isnan(v)

        c.ensure("start_at_nan_not_spiked_yet", all(is_nan(m["red"].fields.get("_FoldReducer__fill")) for m in table.values()))
        c.ensure("records_one_inclusive_step_with_connection_dt", z3.And(*[z3.And(m["incl"] is True, num(m["rdt"]) == dt.z, num(m["dur"]) == 0) for m in table.values()]))
        c.ensure("record_in_training_only_as_posthooks", all(m["train"] is True and m["evl"] is False and m["prehook"] is False for m in table.values()))
        c.ensure("trains_" + param, box.get("params") == [param])
        st = box["state"]
        if not kernel:
            c.ensure("state_carries_the_hyperparameters", z3.And(num(st.fields["lr_pos"]) == lr_pos.z, num(st.fields["lr_neg"]) == lr_neg.z, num(st.fields["tc_pos"]) == tc_pos.z, num(st.fields["tc_neg"]) == tc_neg.z, num(st.fields["tolerance"]) == tol.z))
        # pooling key: monitors may be shared between cells only if they agree on the step time (an `inplace` tag is
        # optional: it changes how the record is written, not what it holds)
        c.ensure("monitors_poolable_and_keyed_by_dt", z3.And(*[z3.And(z3.BoolVal(raw[n]["unique"] is False and "dt" in raw[n]["tags"] and set(raw[n]["tags"]) <= {"dt", "inplace"}), num(raw[n]["tags"]["dt"]) == dt.z if "dt" in raw[n]["tags"] else z3.BoolVal(False)) for n in table]))
        c.canary("canary_pre_reads_delayed_spikes", table["spike_pre"]["attr"] == "connection.synspike")

    return wiring


for _prop in ("C18",):
    _event_wiring(_prop, "DelayAdjustedSTDP", D2, "weight", False)
    _event_wiring(_prop, "DelayAdjustedSTDPD", D2, "delay", False)
    _event_wiring(_prop, "DelayAdjustedMSTDP", D3, "weight", False)
    _event_wiring(_prop, "DelayAdjustedMSTDPD", D3, "delay", False)
    _event_wiring(_prop, "DelayAdjustedKernelSTDP", KS, "weight", True)
    _event_wiring(_prop, "DelayAdjustedKernelSTDPD", KS, "delay", True)


HS = "inferno/learn/trainers/homeostasis.py"
LBASE = "inferno/learn/base.py"

TRAINER_CTORS = {
    # class: (file, required hyper-parameter names in constructor order, properties the contract is registered under)
    "STDP": (T2, ["lr_post", "lr_pre", "tc_post", "tc_pre"], ("C08", "C09")),
    "StableSTDP": (T2, ["lr_post", "lr_pre", "tc_post", "tc_pre"], ("C08", "C09")),
    "TripletSTDP": (T2, ["lr_post_pair", "lr_post_triplet", "lr_pre_pair", "lr_pre_triplet", "tc_post_fast", "tc_post_slow", "tc_pre_fast", "tc_pre_slow"], ("C08", "C09")),
    "StableTripletSTDP": (T2, ["lr_post_pair", "lr_post_triplet", "lr_pre_pair", "lr_pre_triplet", "tc_post_fast", "tc_post_slow", "tc_pre_fast", "tc_pre_slow"], ("C08", "C09")),
    "MSTDP": (T3, ["lr_post", "lr_pre", "tc_post", "tc_pre"], ("C08", "C09")),
    "MSTDPET": (T3, ["lr_post", "lr_pre", "tc_post", "tc_pre", "tc_eligibility"], ("C08", "C09")),
    "DelayAdjustedSTDP": (D2, ["lr_pos", "lr_neg", "tc_pos", "tc_neg"], ("C18", "C09")),
    "DelayAdjustedSTDPD": (D2, ["lr_neg", "lr_pos", "tc_neg", "tc_pos"], ("C18", "C09")),
    "DelayAdjustedMSTDP": (D3, ["lr_pos", "lr_neg", "tc_pos", "tc_neg"], ("C18", "C09")),
    "DelayAdjustedMSTDPD": (D3, ["lr_neg", "lr_pos", "tc_neg", "tc_pos"], ("C18", "C09")),
    "KernelSTDP": (KS, None, ("C18", "C09")),
    "DelayAdjustedKernelSTDP": (KS, None, ("C18", "C09")),
    "DelayAdjustedKernelSTDPD": (KS, None, ("C18", "C09")),
}


def _trainer_defaults(cls):
    file, names, props = TRAINER_CTORS[cls]
    for prop in props:
        @contract(prop, f"{cls}.defaults", [(file, f"{cls}.__init__"), (file, f"{cls}._build_cell_state"), (LBASE, "CellTrainer.__init__"), (LBASE, "IndependentCellTrainer.__init__")], tags=("wiring",))
        def defaults(c, cls=cls):
            """the REAL constructor followed by the REAL _build_cell_state: every hyper-parameter reaches the per-cell state
            under its own name (positional order as documented), per-cell overrides win, and the batch reduction is the
            documented default torch.mean unless one is configured (on the trainer or for the cell)"""
            cv = c.interp.classv(repo.load_module(file).classes[cls])
            # documented defaults: the two-factor rules average over the batch, the reward-modulated (three-factor) rules sum
            three_factor = cls in ("MSTDP", "MSTDPET", "DelayAdjustedMSTDP", "DelayAdjustedMSTDPD")
            mean = c.interp.torch_ns.get("sum" if three_factor else "mean")
            if names is None:
                args = ["<kernel_post>", "<kernel_pre>", {"a": 1}, {"b": 2}]
                vals = {}
            else:
                vals = {n: c.real(n) for n in names}
                c.require(*[v > 0 for n, v in vals.items() if n.startswith("tc_")])
                c.require(*[v != 0 for n, v in vals.items() if n.startswith("lr_")])
                if "tc_post_slow" in vals:
                    c.require(vals["tc_post_slow"] > vals["tc_post_fast"], vals["tc_pre_slow"] > vals["tc_pre_fast"])
                args = [vals[n] for n in names]
            cfg = c.choice("batch_reduction", ["default", "on_trainer", "for_the_cell"])
            custom = "<custom reduction>"
            tr = c.call(cv, *args, **({"batch_reduction": custom} if cfg == "on_trainer" else {}))
            st = c.call(c.getattr(tr, "_build_cell_state"), **({"batch_reduction": custom} if cfg == "for_the_cell" else {}))
            got = st.fields.get("batchreduce")
            c.ensure("batch_reduction_default_is_the_documented_one_unless_configured", (got is mean) if cfg == "default" else (got == custom))
            if names is not None:
                # (the triplet learning rates are stored as magnitudes: their sign follows the pair term)
                stored = lambda n: zabs(vals[n].z) if n.endswith("_triplet") else vals[n].z  # noqa: E731
                c.ensure("hyperparameters_reach_the_state_under_their_own_names", z3.And(*[num(st.fields[n]) == stored(n) for n in names]))
                first = names[0]
                ov = c.real("override_" + first)
                c.require(ov != 0)
                st2 = c.call(c.getattr(tr, "_build_cell_state"), **{first: ov})
                c.ensure("per_cell_override_wins", z3.And(num(st2.fields[first]) == ov.z, *[num(st2.fields[n]) == stored(n) for n in names[1:]]))
            else:
                c.ensure("kernels_and_their_kwargs_reach_the_state", st.fields["kernel_post"] == "<kernel_post>" and st.fields["kernel_pre"] == "<kernel_pre>" and dict(st.fields["kernel_post_kwargs"]) == {"a": 1} and dict(st.fields["kernel_pre_kwargs"]) == {"b": 2})
                # cell-by-cell overrides of ONE side's kernel / keyword arguments leave the other side at the trainer's values
                for side, other in (("post", "pre"), ("pre", "post")):
                    st2 = c.call(c.getattr(tr, "_build_cell_state"), **{f"kernel_{side}_kwargs": {"o": 9}, f"kernel_{side}": f"<override_{side}>"})
                    keep = {"a": 1} if other == "post" else {"b": 2}
                    c.ensure(f"per_cell_override_of_the_{side}_kernel_wins_and_leaves_the_{other}_kernel_alone", dict(st2.fields[f"kernel_{side}_kwargs"]) == {"o": 9} and st2.fields[f"kernel_{side}"] == f"<override_{side}>" and dict(st2.fields[f"kernel_{other}_kwargs"]) == keep and st2.fields[f"kernel_{other}"] == f"<kernel_{other}>")
            c.canary("canary_default_is_the_other_reduction", z3.BoolVal(cfg == "default" and got is c.interp.torch_ns.get("mean" if three_factor else "sum")))


for _t in TRAINER_CTORS:
    _trainer_defaults(_t)


@contract(P, "CellTrainer.add_monitor[forwards to the pool]", [(LBASE, "CellTrainer.add_monitor"), (LBASE, "CellTrainer.__init__")], tags=("wiring",), min_obligations=2)
def trainer_add_monitor(c):
    """the link between the wiring tables above (recorded at the trainer's add_monitor) and the monitor pool: everything a
    rule passes - cell, monitor name, attribute, constructor, the unique flag AND the pooling tags (dt / amplitude / time
    constant ...: monitors with different settings must never be pooled) - reaches MonitorPool.add_monitor unchanged, and an
    unknown cell is refused"""
    from pyvc import repo
    from pyvc.interp import Obj

    cv = c.interp.classv(repo.load_module(LBASE).classes["CellTrainer"])
    tr = c.interp.instantiate(cv, [], {})
    calls = []
    pool = Obj(None, "monitor_pool")
    pool.fields["add_monitor"] = Model(lambda it, *a, **kw: (calls.append((a, kw)), "<monitor>")[1], "MonitorPool.add_monitor")
    tr.fields["monitor_pool_"] = pool
    cells = tr.fields.get("cells_")
    known = c.choice("cell", ["registered", "unknown"])
    if isinstance(cells, dict):
        cells["a"] = Obj(None, "cell")
    else:
        tr.fields["cells_"] = {"a": Obj(None, "cell")}
    unique = c.choice("unique", [False, True])
    dtv, amp = c.real("dt"), c.real("amp")
    out = c.outcome(c.getattr(tr, "add_monitor"), "a" if known == "registered" else "b", "trace_pre", "connection.synspike", "<ctor>", unique, dt=dtv, amp=amp, tc=3.0)
    if known == "unknown":
        c.expect_raise(out, "AttributeError", "unknown_cell_refused")
        c.ensure("pool_not_touched_for_an_unknown_cell", not calls)
        return
    c.expect_return(out)
    ok = len(calls) == 1 and calls[0][0] == ("a", "trace_pre", "connection.synspike", "<ctor>", unique)
    c.ensure("cell_name_attribute_constructor_and_unique_flag_forwarded", ok)
    kw = calls[0][1] if calls else {}
    c.ensure("pooling_tags_forwarded", sorted(kw) == ["amp", "dt", "tc"] and z3.is_true(z3.simplify(z3.And(num(kw["dt"]) == dtv.z, num(kw["amp"]) == amp.z))) and kw["tc"] == 3.0)
    c.ensure("returns_the_pool_monitor", out.value == "<monitor>")
    c.canary("canary_tags_dropped", z3.BoolVal(not kw))

# every STDP-family rule pairs presynaptic (receptive) and postsynaptic (receptive) views tap by tap / output by output:
# for Conv2D cells that is the layout contract of C05 (unfold order of taps and of output positions)
from . import c05_connections as _c05  # noqa: E402

_c05.make_conv_layout("C08")
_c05.make_conv_layout("C09")

MUTANTS = [
    dict(file=_c05.CONV, func="Conv2D.postsyn_receptive", old='"b f oh ow -> b f 1 1 1 (oh ow)"', new='"b f oh ow -> b f 1 1 1 (ow oh)"', contracts=["Conv2D.layouts"], name="seed C08g: postsynaptic receptive view flattened column-major"),
    dict(file=LBASE, func="CellTrainer.add_monitor", old="return self.monitor_pool_.add_monitor(cell, name, attr, monitor, unique, **tags)", new="return self.monitor_pool_.add_monitor(cell, name, attr, monitor, unique)", contracts=["CellTrainer.add_monitor[forwards to the pool]"], name="seed C08f: pooling tags dropped on the way to the pool"),
    dict(file=KS, func="DelayAdjustedKernelSTDPD._build_cell_state", old='        kernel_pre_kwargs = kwargs.get(\n            "kernel_pre_kwargs",', new='        kernel_pre_kwargs = kwargs.get(\n            "kernel_post_kwargs",', contracts=["DelayAdjustedKernelSTDPD.defaults"], name="seed C18f: the presynaptic kernel arguments are overridden by the POSTsynaptic per-cell override"),
    dict(file=T3, func="MSTDPET.register_cell", old='                reducer=state.tracecls(\n                    cell.connection.dt,\n                    state.tc_pre,', new='                reducer=CumulativeTraceReducer(\n                    cell.connection.dt,\n                    state.tc_pre,', contracts=["MSTDPET.register_cell"], name="seed C08e: presynaptic trace ignores the configured trace mode"),
    dict(file=KS, func="DelayAdjustedKernelSTDP.__init__", old="        self.batchreduce = batch_reduction if batch_reduction else torch.mean", new="        self.batchreduce = batch_reduction if batch_reduction else torch.sum", contracts=["DelayAdjustedKernelSTDP.defaults"], name="seed C18b: default batch reduction sum instead of the documented mean"),
    dict(file=D2, func="DelayAdjustedSTDPD.__init__", old="        self.lr_neg = float(lr_neg)", new="        self.lr_neg = float(lr_pos)", contracts=["DelayAdjustedSTDPD.defaults"]),
    dict(file=D2, func="DelayAdjustedSTDP.register_cell", old='            "spike_pre",\n            "synapse.spike",', new='            "spike_pre",\n            "connection.synspike",', contracts=["DelayAdjustedSTDP.register_cell"], name="delay-adjusted rule fed with already delayed spikes (delay counted twice)"),
    dict(file=D3, func="DelayAdjustedMSTDPD.register_cell", old='self._build_cell_state(**kwargs), ["delay"]', new='self._build_cell_state(**kwargs), ["weight"]', contracts=["DelayAdjustedMSTDPD.register_cell"]),
    dict(file=T3, func="MSTDPET.register_cell", old='subattrs=("trace_pre.latest", "spike_post.latest"),', new='subattrs=("trace_post.latest", "spike_post.latest"),', contracts=["MSTDPET.register_cell"]),
    dict(file=T3, func="MSTDPET.register_cell", old="                subattrs=(\"trace_pre.latest\", \"spike_post.latest\"),\n                prepend=False,", new="                subattrs=(\"trace_pre.latest\", \"spike_post.latest\"),\n                prepend=True,", contracts=["MSTDPET.register_cell"], name="eligibility monitor runs before the traces it reads"),
    dict(file=T2, func="TripletSTDP.register_cell", old="cell.connection.delayedby + cell.connection.dt", new="max(cell.connection.delayedby, 2 * cell.connection.dt)", contracts=["TripletSTDP.register_cell"], name="seed C08: slow pre trace record one slot short in delayed mode"),
    dict(file=T2, func="STDP.register_cell", old='"synapse.spike" if delayed else "connection.synspike",\n            StateMonitor.partialconstructor(\n                reducer=state.tracecls(', new='"connection.synspike" if delayed else "synapse.spike",\n            StateMonitor.partialconstructor(\n                reducer=state.tracecls(', contracts=["STDP.register_cell"]),
    dict(file=T2, func="STDP.register_cell", old="amplitude=abs(state.lr_pre),", new="amplitude=abs(state.lr_post),", contracts=["STDP.register_cell"]),
    dict(file=T2, func="STDP.register_cell", old='"eval_update": False,', new='"eval_update": True,', contracts=["STDP.register_cell"]),
]
