PROP_MODULES = {
    "C01": ["contracts.c01_ring"],
    "C02": ["contracts.c02_select"],
    "C03": ["contracts.c03_neurons"],
    "C04": ["contracts.c04_synapses"],
    "C07": ["contracts.c07_traces"],
    "C08": ["contracts.c09_split", "contracts.c08_wiring"],
    "C09": ["contracts.c09_split", "contracts.c18_dastdp"],
    "C10": ["contracts.c10_updater"],
    "C13": ["contracts.c13_resize"],
    "C14": ["contracts.c14_config"],
    "C18": ["contracts.c18_dastdp"],
    "C20": ["contracts.c20_numeric"],
}
