PROP_MODULES = {
    "C01": ["contracts.c01_ring"],
}
