"""C05 - connections compute their documented linear map (and C06: a delay is a per-synapse time shift).

The REAL LinearDense / LinearDirect / LinearLateral constructors, parameter setters, selector, syncurrent / synspike
and forward are executed symbolically in the layout-free tensor theory (contracts/layoutfree.py) with a stub synapse
that follows the C04 contracts: its call returns ITS OWN current tensor SYN(input), its delayed reads are the history
functions HC(d) / HS(d) of the requested delay.  Conv2D: constructor geometry only (the unfold / fold algebra is out of
reach: bounded stand-in).
"""
from __future__ import annotations

import z3

from pyvc import repo
from pyvc import tensor as tz
from pyvc.harness import contract
from pyvc.sym import num
from pyvc.tensor import T

from . import layoutfree as lf
from .layoutfree import HC, HS, SUM, SYN

LIN = "inferno/neural/connections/linear.py"
CONV = "inferno/neural/connections/conv.py"
MIX = "inferno/neural/connections/mixins.py"
NB = "inferno/neural/base.py"
R = z3.RealSort()


def cls(c, file, name):
    return c.interp.classv(repo.load_module(file).classes[name])


def fl(x):
    return tz.coerce(x.f, "float")


def build(c, P, kind, bias, delayed, log, inits=False):
    """run the real constructor; returns (connection, diag, symbols)"""
    diag = lf.install(c)
    dt = c.real("dt")
    c.require(dt > 0)
    B = c.int("B")
    c.require(B >= 1)
    maxdelay = c.real("max_delay")
    c.require(maxdelay > 0)
    n_in, n_out = c.int("n_in"), c.int("n_out")
    c.require(n_in >= 1, n_out >= 1)
    kw = dict(synapse=lf.synapse_ctor(c, log), bias=bias, delay=(maxdelay if delayed == "delayed" else (0.0 if delayed == "zero_max_delay" else None)), batch_size=B)
    if kind == "LinearDense":
        conn = c.call(cls(c, LIN, kind), (n_in,), (n_out,), dt, **kw)
    else:
        conn = c.call(cls(c, LIN, kind), (n_in,), dt, **kw)
    return conn, diag, dict(dt=dt, B=B, maxdelay=maxdelay, n_in=n_in, n_out=n_out)


def assign(c, conn, name, tag):
    v = c.pw(tag)
    c.setattr(conn, name, T(v.f, "float", None, None, None))
    return v.f


FWD = {
    "LinearDense": [(LIN, "LinearDense.__init__"), (LIN, "LinearDense.forward"), (LIN, "LinearDense.like_synaptic"), (LIN, "LinearDense.selector"), (LIN, "LinearDense.outshape")],
    "LinearDirect": [(LIN, "LinearDirect.__init__"), (LIN, "LinearDirect.forward"), (LIN, "LinearDirect.like_synaptic"), (LIN, "LinearDirect.selector"), (LIN, "LinearDirect.outshape")],
    "LinearLateral": [(LIN, "LinearLateral.__init__"), (LIN, "LinearLateral.forward"), (LIN, "LinearDense.forward"), (LIN, "LinearLateral.weight@setter"), (LIN, "LinearLateral.delay@setter"), (LIN, "LinearLateral.selector"), (LIN, "LinearDense.selector")],
}
COMMON = [(MIX, "WeightMixin.__init__"), (MIX, "WeightMixin.weight@setter"), (MIX, "WeightBiasMixin.bias"), (MIX, "WeightBiasMixin.bias@setter"), (MIX, "WeightBiasDelayMixin.delay"), (MIX, "WeightBiasDelayMixin.delay@setter"),
          (NB, "Connection.__init__"), (NB, "Connection.syncurrent"), (NB, "Connection.synspike"), (NB, "Connection.delayedby"), (NB, "Connection.biased"), (NB, "Connection.batchsz")]


def make(P, kind):
    @contract(P, f"{kind}.forward", FWD[kind] + COMMON, min_obligations=8)
    def forward(c, kind=kind):
        bias = c.choice("bias", [False, True])
        delayed = c.choice("delay", ["none", "zero_max_delay", "delayed"])
        log = []
        conn, diag, s = build(c, P, kind, bias, delayed, log)
        cons = [e for e in log if e[0] == "construct"]
        c.ensure("synapse_built_once_with_step_time_max_delay_and_batch_size", len(cons) == 1 and cons[0][2] is s["dt"] and cons[0][4] is s["B"] and (cons[0][3] is s["maxdelay"] if delayed == "delayed" else num(cons[0][3]) == 0))
        size_in = s["n_in"]
        c.ensure("synapse_sized_by_the_flattened_input", num(cons[0][1]) == size_in.z)
        c.ensure("advertised_shapes", tuple(c.getattr(conn, "inshape")) == (s["n_in"],) and tuple(c.getattr(conn, "outshape")) == ((s["n_out"],) if kind == "LinearDense" else (s["n_in"],)))
        w = assign(c, conn, "weight", "W")
        b = assign(c, conn, "bias", "b") if bias else None
        d = assign(c, conn, "delay", "d") if delayed != "none" else None
        mask = z3.If(diag, z3.RealVal(0), z3.RealVal(1)) if kind == "LinearLateral" else z3.RealVal(1)
        c.ensure("weight_reads_back_what_was_assigned" + ("_off_the_diagonal_zero_on_it" if kind == "LinearLateral" else ""), fl(c.getattr(conn, "weight")) == w * mask)
        if bias:
            c.ensure("bias_reads_back", fl(c.getattr(conn, "bias")) == b)
        else:
            c.ensure("no_bias_reported", c.getattr(conn, "bias") is None and c.getattr(conn, "biased") is False)
        if d is not None:
            c.ensure("delay_reads_back" + ("_off_the_diagonal_zero_on_it" if kind == "LinearLateral" else ""), fl(c.getattr(conn, "delay")) == d * mask)
        else:
            c.ensure("no_delay_reported", c.getattr(conn, "delay") is None and c.getattr(conn, "delayedby") is None)
        sel = c.getattr(conn, "selector")
        c.ensure("selector_is_the_per_synapse_delay_for_every_sample", fl(sel) == (d * mask if d is not None else 0))
        x = c.pw("x")
        xin = T(x.f, "float", None, None, None)
        log.clear()
        out = c.outcome(c.getattr(conn, "forward"), xin, extra=7)
        c.expect_return(out)
        res = out.value
        calls = [e for e in log if e[0] == "call"]
        c.ensure("synapse_stepped_exactly_once_with_the_input_and_kwargs", len(calls) == 1 and len(calls[0][1]) == 1 and fl(calls[0][1][0]) == x.f and calls[0][2] == {"extra": 7})
        syn = c.getattr(conn, "synapse")
        # the synapse's own state must not be touched by the connection (in-place arithmetic on the returned tensor)
        c.ensure("synapse_current_left_untouched", fl(syn.fields["current"]) == SYN(x.f))
        use_delay = delayed == "delayed"
        src = HC(d * mask) if use_delay else SYN(x.f)
        if kind == "LinearDirect":
            exp = src * w
        else:
            exp = SUM(src * (w * mask))
        if bias:
            exp = exp + b
        c.ensure("output_is_the_documented_linear_map" + ("_of_the_delay_shifted_currents" if use_delay else ""), fl(res) == exp)
        if use_delay:
            reads = [e for e in log if e[0] == "current_at"]
            c.ensure("delayed_read_uses_the_selector", z3.And(z3.BoolVal(len(reads) >= 1), *[fl(e[1]) == d * mask for e in reads]))
        # learning views
        log.clear()
        sc, ss = c.getattr(conn, "syncurrent"), c.getattr(conn, "synspike")
        c.ensure("syncurrent_view_is_delay_shifted_iff_delayed", fl(sc) == (HC(d * mask) if use_delay else SYN(x.f)))
        c.ensure("synspike_view_is_delay_shifted_iff_delayed", ss.f == (HS(d * mask) if use_delay else (x.f != 0)))
        c.canary("canary_ignores_weight", z3.And(fl(res) == (SUM(src) if kind != "LinearDirect" else src), w != 1, src != 0, SUM(src) != SUM(src * w), mask == 1, (b == 0) if bias else True))

    return forward


for _k in ("LinearDense", "LinearDirect", "LinearLateral"):
    make("C05", _k)


@contract("C05", "LinearLateral.diagonal_invariant", FWD["LinearLateral"] + COMMON, min_obligations=4)
def lateral_invariant(c):
    """no self-weight / self-delay after the constructor (random init, custom initialisers) and after any assignment
    through the public attribute - the route trainer updates take (C10: Accumulator.update assigns the attribute)"""
    bias = c.choice("bias", [False, True])
    log = []
    diag = lf.install(c)
    dt, md = c.real("dt"), c.real("max_delay")
    c.require(dt > 0, md > 0)
    n = c.int("n")
    c.require(n >= 1)
    wi, di = c.pw("w_init"), c.pw("d_init")
    from pyvc.models import Model

    inits = c.choice("initialisers", [False, True])
    kw = dict(synapse=lf.synapse_ctor(c, log), bias=bias, delay=md, batch_size=1)
    if inits:
        kw.update(weight_init=Model(lambda it, w: T(wi.f, "float", None, None, None), "weight_init"), delay_init=Model(lambda it, w: T(di.f, "float", None, None, None), "delay_init"))
    conn = c.call(cls(c, LIN, "LinearLateral"), (n,), dt, **kw)
    c.ensure("constructed_without_self_weight", z3.Implies(diag, fl(c.getattr(conn, "weight")) == 0))
    c.ensure("constructed_without_self_delay", z3.Implies(diag, fl(c.getattr(conn, "delay")) == 0))
    if inits:
        c.ensure("initialisers_apply_off_the_diagonal", z3.Implies(z3.Not(diag), z3.And(fl(c.getattr(conn, "weight")) == wi.f, fl(c.getattr(conn, "delay")) == di.f)))
    for k in range(2):  # the invariant is re-established by EVERY assignment: induction over assignment histories
        w = assign(c, conn, "weight", f"W{k}")
        d = assign(c, conn, "delay", f"d{k}")
        c.ensure(f"assignment{k}:no_self_weight", z3.If(diag, fl(c.getattr(conn, "weight")) == 0, fl(c.getattr(conn, "weight")) == w))
        c.ensure(f"assignment{k}:no_self_delay", z3.If(diag, fl(c.getattr(conn, "delay")) == 0, fl(c.getattr(conn, "delay")) == d))
    c.ensure("mask_is_not_persistent_state", "mask" in conn.fields.get("_non_persistent", set()))
    c.canary("canary_diagonal_kept", z3.And(diag, fl(c.getattr(conn, "weight")) != 0))


@contract("C05", "Conv2D.geometry", [(CONV, "Conv2D.__init__"), (CONV, "Conv2D.inshape"), (CONV, "Conv2D.outshape")], min_obligations=4)
def conv_geometry(c):
    log = []
    lf.install(c)
    H, W, C, F_ = c.int("H"), c.int("W"), c.int("C"), c.int("F")
    kh, kw_, sh, sw, ph, pw_, dh, dw = (c.int(n) for n in ("kh", "kw", "sh", "sw", "ph", "pw", "dh", "dw"))
    c.require(H >= 1, W >= 1, C >= 1, F_ >= 1, kh >= 1, kw_ >= 1, sh >= 1, sw >= 1, ph >= 0, pw_ >= 0, dh >= 1, dw >= 1)
    # configurations with a non-empty output
    c.require(H + 2 * ph - dh * (kh - 1) - 1 >= 0, W + 2 * pw_ - dw * (kw_ - 1) - 1 >= 0)
    dt = c.real("dt")
    c.require(dt > 0)
    scalar = c.choice("scalar_arguments", [False, True])
    if scalar:
        c.require(kh == kw_, sh == sw, ph == pw_, dh == dw)
        conn = c.call(cls(c, CONV, "Conv2D"), H, W, C, F_, dt, kh, stride=sh, padding=ph, dilation=dh, synapse=lf.synapse_ctor(c, log), batch_size=2)
    else:
        conn = c.call(cls(c, CONV, "Conv2D"), H, W, C, F_, dt, (kh, kw_), stride=(sh, sw), padding=(ph, pw_), dilation=(dh, dw), synapse=lf.synapse_ctor(c, log), batch_size=2)
    oh, ow = num(c.getattr(conn, "outheight")), num(c.getattr(conn, "outwidth"))
    # standard formula: oh = floor((H + 2p - d(k-1) - 1) / s) + 1, stated without floor
    nh, nw = H.z + 2 * ph.z - dh.z * (kh.z - 1) - 1, W.z + 2 * pw_.z - dw.z * (kw_.z - 1) - 1
    c.ensure("output_height_is_the_cross_correlation_size", z3.And((oh - 1) * sh.z <= nh, nh < oh * sh.z))
    c.ensure("output_width_is_the_cross_correlation_size", z3.And((ow - 1) * sw.z <= nw, nw < ow * sw.z))
    c.ensure("output_is_non_empty", z3.And(oh >= 1, ow >= 1))
    ins, outs = c.getattr(conn, "inshape"), c.getattr(conn, "outshape")
    c.ensure("advertised_shapes", z3.And(num(ins[0]) == C.z, num(ins[1]) == H.z, num(ins[2]) == W.z, num(outs[0]) == F_.z, num(outs[1]) == oh, num(outs[2]) == ow))
    cons = [e for e in log if e[0] == "construct"]
    shp = cons[0][1]
    c.ensure("synapse_holds_one_current_per_kernel_tap_and_output_position", z3.And(num(shp[0]) == C.z * kh.z * kw_.z, num(shp[1]) == oh * ow))
    c.canary("canary_stride_ignored", z3.And(oh == nh + 1, sh.z > 1, nh > 0))


MD = "inferno/neural/modeling.py"


@contract("C05", "LinearLateral.trainer_update_keeps_diagonal", FWD["LinearLateral"] + COMMON + [(MD, "Updater.__init__"), (MD, "Updater.forward"), (MD, "Accumulator.update"), (MD, "Accumulator.forward"), (NB, "Connection.defaultupdater"), (MD, "Updatable.update")], min_obligations=4)
def lateral_update(c):
    """end to end with the REAL Updater / Accumulator: whatever potentiating / depressing parts trainers accumulate for
    weight and delay, applying them (connection.update()) leaves no self-weight and no self-delay, and off the diagonal
    applies exactly old + pos - neg"""
    log = []
    diag = lf.install(c)
    dt, md = c.real("dt"), c.real("max_delay")
    c.require(dt > 0, md > 0)
    n = c.int("n")
    c.require(n >= 1)
    conn = c.call(cls(c, LIN, "LinearLateral"), (n,), dt, synapse=lf.synapse_ctor(c, log), delay=md, batch_size=1)
    w0 = assign(c, conn, "weight", "W0")
    d0 = assign(c, conn, "delay", "d0")
    up = c.call(c.getattr(conn, "defaultupdater"))
    c.setattr(conn, "updater", up)
    pw_, nw, pd, nd = c.pw("pos_w"), c.pw("neg_w"), c.pw("pos_d"), c.pw("neg_d")
    mk = lambda t: T(t.f, "float", None, None, None)  # noqa: E731
    c.setattr(up, "weight", (mk(pw_), mk(nw)))
    c.setattr(up, "delay", (mk(pd), mk(nd)))
    c.call(c.getattr(conn, "update"))
    w1, d1 = fl(c.getattr(conn, "weight")), fl(c.getattr(conn, "delay"))
    c.ensure("no_self_weight_after_trainer_update", z3.Implies(diag, w1 == 0))
    c.ensure("no_self_delay_after_trainer_update", z3.Implies(diag, d1 == 0))
    c.ensure("off_diagonal_weight_is_old_plus_pos_minus_neg", z3.Implies(z3.Not(diag), w1 == w0 + pw_.f - nw.f))
    c.ensure("off_diagonal_delay_is_old_plus_pos_minus_neg", z3.Implies(z3.Not(diag), d1 == d0 + pd.f - nd.f))
    c.canary("canary_diagonal_updated", z3.And(diag, w1 != 0))


def make_conv(P):
    @contract(P, "Conv2D.forward", [(CONV, "Conv2D.__init__"), (CONV, "Conv2D.forward"), (CONV, "Conv2D.like_synaptic"), (CONV, "Conv2D.selector")] + COMMON, min_obligations=6)
    def conv_forward(c):
        bias = c.choice("bias", [False, True])
        delayed = c.choice("delay", ["none", "zero_max_delay", "delayed"])
        log = []
        lf.install(c)
        pad = c.layout_symbols["pad"]
        dt, maxdelay = c.real("dt"), c.real("max_delay")
        c.require(dt > 0, maxdelay > 0)
        conn = c.call(cls(c, CONV, "Conv2D"), 5, 6, 2, 3, dt, (2, 3), stride=(1, 2), padding=(1, 0), dilation=(2, 1), synapse=lf.synapse_ctor(c, log), bias=bias,
                      delay=(maxdelay if delayed == "delayed" else (0.0 if delayed == "zero_max_delay" else None)), batch_size=2)
        w = assign(c, conn, "weight", "W")
        b = assign(c, conn, "bias", "b") if bias else None
        d = assign(c, conn, "delay", "d") if delayed != "none" else None
        sel = c.getattr(conn, "selector")
        c.ensure("selector_is_the_per_tap_delay_for_every_sample_and_position", fl(sel) == (d if d is not None else 0))
        x = c.pw("x")
        log.clear()
        out = c.outcome(c.getattr(conn, "forward"), T(x.f, "float", None, None, None), extra=7)
        c.expect_return(out)
        res = out.value
        calls = [e for e in log if e[0] == "call"]
        unfolded = z3.If(pad, z3.RealVal(0), x.f)
        c.ensure("synapse_stepped_once_with_the_unfolded_input_and_kwargs", z3.And(z3.BoolVal(len(calls) == 1 and len(calls[0][1]) == 1 and calls[0][2] == {"extra": 7}), fl(calls[0][1][0]) == unfolded if calls else z3.BoolVal(False)))
        syn = c.getattr(conn, "synapse")
        c.ensure("synapse_current_left_untouched", fl(syn.fields["current"]) == SYN(unfolded))
        src = HC(d) if delayed == "delayed" else SYN(unfolded)
        exp = SUM(w * src)
        if bias:
            exp = exp + b
        c.ensure("output_is_kernel_contracted_with_the_" + ("delay_shifted_" if delayed == "delayed" else "") + "unfolded_currents_plus_bias", fl(res) == exp)
        c.canary("canary_no_kernel", z3.And(fl(res) == SUM(src), w != 1, SUM(src) != SUM(w * src)))

    return conv_forward


make_conv("C05")


def make_conv_layout(P):
    @contract(P, "Conv2D.layouts", [(CONV, "Conv2D.presyn_receptive"), (CONV, "Conv2D.postsyn_receptive"), (CONV, "Conv2D.selector"), (CONV, "Conv2D.forward"), (CONV, "Conv2D.__init__")], min_obligations=5)
    def conv_layouts(c):
        """the einops patterns of Conv2D are read SYMBOLICALLY (symbolic channel / kernel / output sizes and indices): the
        kernel tap (c, a, b) must sit at row (c*KH + a)*KW + b of the unfolded layout - F.unfold's documented order - in the
        flattened kernel, in the per-tap delay selector and in the presynaptic receptive view; output position (oy, ox)
        must be column oy*OW + ox in forward's result and in the postsynaptic receptive view"""
        log = []
        lf.install(c)
        H, W, C, F_ = 9, 8, c.int("C"), c.int("F")
        KH, KW = c.int("KH"), c.int("KW")
        c.require(C >= 1, F_ >= 1, KH >= 1, KW >= 1, KH <= 3, KW <= 3)
        dt = c.real("dt")
        c.require(dt > 0)
        conn = c.call(cls(c, CONV, "Conv2D"), H, W, C, F_, dt, (KH, KW), synapse=lf.synapse_ctor(c, log), delay=dt, bias=True, batch_size=2)
        OH, OW = num(c.getattr(conn, "outheight")), num(c.getattr(conn, "outwidth"))
        ci, a, b = c.int("tap_channel"), c.int("tap_row"), c.int("tap_col")
        oy, ox = c.int("out_row"), c.int("out_col")
        c.require(0 <= ci, ci < C, 0 <= a, a < KH, 0 <= b, b < KW, 0 <= oy, oy < OH, 0 <= ox, ox < OW)
        row = (ci.z * KH.z + a.z) * KW.z + b.z  # F.unfold: channel-major, kernel positions row-major
        col = oy.z * OW + ox.z
        x = T(c.pw("x").f, "float", None, None, None)

        def last_pattern(needle):
            hits = [(p, ax) for p, ax in c.rearrange_log if needle in p]
            return hits[-1] if hits else (None, None)

        def check(label, pattern, axes, side, group_pos, roles, sizes_by_role, expected):
            """the composite group at `group_pos` of `side`: its flat index, with the axis names bound to their ROLES (decided
            by where the same names sit on the other side), must equal `expected`"""
            if pattern is None:
                c.ensure(label + ":pattern_found", False)
                return
            lhs, rhs = (lf.parse_side(s_) for s_ in pattern.split("->"))
            comp_side, other = (lhs, rhs) if side == "lhs" else (rhs, lhs)
            group = comp_side[group_pos]
            ok = isinstance(group, list) and len(group) == len(roles["names"])
            c.ensure(label + ":composite_axis_present", ok)
            if not ok:
                return
            # role of a name = position of that name among the plain axes of the OTHER side
            plain = [t for t in other if isinstance(t, str) and t not in ("1", "...")]
            role_of = {}
            for name, role in zip([plain[i] for i in roles["positions"]], roles["names"]):
                role_of[name] = role
            ok2 = sorted(group) == sorted(role_of)
            c.ensure(label + ":same_axes_on_both_sides", ok2)
            if not ok2:
                return
            idx = {n: roles["index"][role_of[n]] for n in group}
            size = {}
            for n in group:
                given = axes.get(n)
                size[n] = num(given) if given is not None else sizes_by_role[role_of[n]]
                if given is not None:
                    c.ensure(label + f":size_of_{role_of[n]}_axis", num(given) == sizes_by_role[role_of[n]])
            c.ensure(label, lf.composite_index(group, idx, size) == expected)

        taps = dict(index={"channel": ci.z, "krow": a.z, "kcol": b.z})
        tap_sizes = {"channel": C.z, "krow": KH.z, "kcol": KW.z}
        outs = dict(index={"orow": oy.z, "ocol": ox.z})
        out_sizes = {"orow": OH, "ocol": OW}
        # 1. receptive view of synaptic-layout data: 'b (c kh kw) l ... -> b (...) c kh kw l'
        c.call(c.getattr(conn, "presyn_receptive"), x)
        p, ax = last_pattern("l ...")
        check("presyn_receptive:tap_is_its_unfold_row", p, ax, "lhs", 1, dict(taps, positions=[1, 2, 3], names=["channel", "krow", "kcol"]), tap_sizes, row)
        # 2. per-tap delay selector: 'f c h w -> 1 (c h w) 1 f'
        c.getattr(conn, "selector")
        p, ax = last_pattern("1 f")
        check("selector:delay_of_tap_at_its_unfold_row", p, ax, "rhs", 1, dict(taps, positions=[1, 2, 3], names=["channel", "krow", "kcol"]), tap_sizes, row)
        # 3. forward: flattened kernel 'f c h w -> f (c h w)' and folded output 'b f (oh ow) -> b f oh ow'
        c.rearrange_log.clear()
        c.call(c.getattr(conn, "forward"), x)
        p, ax = next(((p_, a_) for p_, a_ in c.rearrange_log if p_.strip().startswith("f ") and "(" in p_.split("->")[1]), (None, None))
        check("forward:kernel_tap_at_its_unfold_row", p, ax, "rhs", 1, dict(taps, positions=[1, 2, 3], names=["channel", "krow", "kcol"]), tap_sizes, row)
        p, ax = next(((p_, a_) for p_, a_ in reversed(c.rearrange_log) if "(" in p_.split("->")[0] and p_.strip().startswith("b f")), (None, None))
        check("forward:output_position_is_its_unfold_column", p, ax, "lhs", 2, dict(outs, positions=[2, 3], names=["orow", "ocol"]), out_sizes, col)
        # 4. receptive view of the output: 'b f oh ow -> b f 1 1 1 (oh ow)'
        c.rearrange_log.clear()
        c.call(c.getattr(conn, "postsyn_receptive"), x)
        p, ax = last_pattern("1 1 1")
        check("postsyn_receptive:output_position_is_its_unfold_column", p, ax, "rhs", 5, dict(outs, positions=[2, 3], names=["orow", "ocol"]), out_sizes, col)
        c.canary("canary_column_major_taps", (ci.z * KW.z + b.z) * KH.z + a.z == row)

    return conv_layouts


make_conv_layout("C05")


MUTANTS = [
    dict(file=CONV, func="Conv2D.presyn_receptive", old='"b (c kh kw) l ... -> b (...) c kh kw l"', new='"b (c kw kh) l ... -> b (...) c kh kw l"', contracts=["Conv2D.layouts"], name="seed C05d: receptive view decomposes the unfolded rows as (c kw kh)"),
    dict(file=CONV, func="Conv2D.selector", old='"f c h w -> 1 (c h w) 1 f"', new='"f c h w -> 1 (c w h) 1 f"', contracts=["Conv2D.layouts"], name="seed C06d: delay selector flattens the kernel as (c w h)"),
    dict(file=CONV, func="Conv2D.presyn_receptive", old='"b (c kh kw) l ... -> b (...) c kh kw l"', new='"b (kh kw c) l ... -> b (...) c kh kw l"', contracts=["Conv2D.layouts"], name="seed C18d: receptive view decomposes the unfolded rows as (kh kw c)"),
    dict(file=CONV, func="Conv2D.forward", old="oh=self.outheight,\n                ow=self.outwidth,\n            )\n        else:", new="oh=self.outwidth,\n                ow=self.outheight,\n            )\n        else:", contracts=["Conv2D.layouts"], name="delayed forward folds the output with height and width sizes swapped"),
    dict(file="inferno/neural/modeling.py", func="Updater.forward", old="                setattr(module, p, self.updates_[p](getattr(module, p), **kwargs))", new="                getattr(module, p).data = self.updates_[p](getattr(module, p), **kwargs)", contracts=["LinearLateral.trainer_update_keeps_diagonal"], name="updates written to the parameter data directly, bypassing the masked setter"),
    dict(file=LIN, func="LinearDirect.forward", name="seed C05: in-place arithmetic on the tensor returned by the synapse", contracts=["LinearDirect.forward"],
         old="        if self.biased:\n            res = res * self.weight + self.bias\n        else:\n            res = res * self.weight\n", new="        res *= self.weight\n        if self.biased:\n            res += self.bias\n"),
    dict(file=LIN, func="LinearDirect.forward", old="res = res * self.weight + self.bias", new="res = res * self.weight", contracts=["LinearDirect.forward"]),
    dict(file=LIN, func="LinearDense.forward", old="            res = F.linear(res, self.weight, self.bias)", new="            res = F.linear(res, self.weight)", contracts=["LinearDense.forward"]),
    dict(file=LIN, func="LinearDense.forward", old="                res = ein.einsum(res, self.weight, \"b i o, o i -> b o\") + self.bias", new="                res = ein.einsum(res, self.weight, \"b i o, o i -> b o\")", contracts=["LinearDense.forward"], name="delayed dense path drops the bias"),
    dict(file=LIN, func="LinearLateral.weight@setter", old="WeightBiasDelayMixin.weight.fset(self, value * self.mask)", new="WeightBiasDelayMixin.weight.fset(self, value)", contracts=["LinearLateral.diagonal_invariant", "LinearLateral.forward"]),
    dict(file=LIN, func="LinearLateral.delay@setter", old="WeightBiasDelayMixin.delay.fset(self, value * self.mask)", new="WeightBiasDelayMixin.delay.fset(self, value)", contracts=["LinearLateral.diagonal_invariant"]),
    dict(file=LIN, func="LinearLateral.__init__", old="weight=(torch.rand(size, size) * self.mask),", new="weight=torch.rand(size, size),", contracts=["LinearLateral.diagonal_invariant"]),
    dict(file=LIN, func="LinearLateral.__init__", old='self.register_buffer("mask", 1 - torch.eye(size), persistent=False)', new='self.register_buffer("mask", torch.eye(size), persistent=False)', contracts=["LinearLateral.diagonal_invariant"]),
    dict(file=NB, func="Connection.syncurrent", old="            return self.synapse.current_at(self.selector)", new="            return self.synapse.current", contracts=["LinearDense.forward"]),
    dict(file=NB, func="Connection.synspike", old="            return self.synapse.spike_at(self.selector)", new="            return self.synapse.spike", contracts=["LinearDirect.forward"]),
    dict(file=LIN, func="LinearDirect.selector", old="            delays = self.delay\n", new="            delays = self.delay * 2\n", contracts=["LinearDirect.forward"]),
    dict(file=CONV, func="Conv2D.__init__", old="- self.dilation[d] * (self.kernel[d] - 1)", new="- self.dilation[d] * self.kernel[d]", contracts=["Conv2D.geometry"]),
    dict(file=CONV, func="Conv2D.__init__", old="                / self.stride[d]\n                + 1", new="                / self.stride[d]\n                + 1.5", contracts=["Conv2D.geometry"]),
    dict(file=LIN, func="LinearDirect.forward", old="            res = res * self.weight + self.bias", new="            res = self.bias + self.weight * res", contracts=["LinearDirect.forward"], expect="survives", name="control: commuted operands"),
    dict(file=CONV, func="Conv2D.forward", old='            return res + ein.rearrange(self.bias, "f -> 1 f 1 1")', new="            return res", contracts=["Conv2D.forward"]),
    dict(file=CONV, func="Conv2D.forward", old="        if self.delayedby:\n", new="        if False:\n", contracts=["Conv2D.forward"], name="Conv2D ignores its delays"),
]
ASSUMPTIONS = [
    "C05/C06: layout-free tensor theory - a tensor is its value at one arbitrary index tuple, re-layouts keep it, a contraction is an uninterpreted linear functional of the summand; wrong axis permutations / reshape orders are invisible to it (bounded stand-in)",
    "C05/C06: the synapse is a stub following the C04 contracts (call returns its own current tensor; current_at / spike_at return the history d ms back)",
    "C05: Conv2D unfold / fold / matmul algebra and the receptive-field reshapes are NOT proved (bounded stand-in against torch.nn.functional.conv2d and exhaustive index round trips)",
]
