"""C11 - batch samples never interact.

Non-interference is a dependency (frame) condition: the output and next state AT batch index b depend only on the inputs
and state at b (and on batch-shared parameters).  The pyvc tensor theory represents every tensor by its value at ONE
arbitrary element - in particular one arbitrary batch index - so every obligation discharged there is already a
statement about that sample alone; the only ways another sample can leak in are (a) a reduction over all elements
(any / all / sum / amin / amax / min / max without a dimension) whose result flows into per-element data, and (b) control
flow on such a reduction (other than `if ...: raise` input validation).  The executor records both as batch events;
the contracts below re-run the REAL constructors and step functions of C03 / C04 / C05 / C06 / C17 and demand that no
such event occurs on any path: then batch-run(b) = single-run of sample b follows by induction over steps from the
determinism of the step contracts.

The documented couplings (adaptation batch reduction, trainer batch_reduction) are explicit calls of the configured
reduction and are proved separate: every shipped trainer forward hands the updater batchreduce(<per-sample term>, 0) -
applied exactly once per part, outermost - so with a sum reduction the batched step is the sum of the per-sample steps.
"""
from __future__ import annotations

import z3

from pyvc.harness import REGISTRY, contract
from pyvc.sym import cur

from . import c03_neurons, c04_synapses, c05_connections, c06_delays, c09_split, c17_layers, c18_dastdp  # noqa: F401  (registers)

P = "C11"

BASES = [
    ("C03", lambda n: n.endswith(".forward") or n.startswith("nf.")),
    ("C04", lambda n: n.endswith(".forward") or n == "_synparam_at" or n == "DoubleExponentialCurrent.current_at"),
    ("C05", lambda n: n.endswith(".forward")),
    ("C06", lambda n: n.startswith("_synparam_at")),
    ("C17", lambda n: n in ("Serial", "Biclique", "RecurrentSerial", "Connection.clear")),  # the component contracts C17 shares from C03 / C04 are already above
]


def _wrap(base):
    def fn(c, base=base):
        try:
            base.fn(c)
        finally:
            ev = list(cur().batch_events)
            # the functional clauses of the base contract belong to its own property: only the dependency clause here -
            # plus, for the adaptive neurons, the clauses about the ONE documented coupling: the batch reduction of the
            # learned adaptation runs iff the neuron is adapting (never when adaptation is frozen)
            c.pending[:] = [p for p in c.pending if p[0] == "safety" or (p[0] == "ensure" and ("adapting" in p[1] or "keyword_arguments_reach" in p[1] or "kwargs_routed" in p[1]))]
            if ev:
                c.info["batch_events"] = "; ".join(sorted({f"{k}: {t}" for k, t in ev}))[:300]
            c.ensure("no_cross_batch_dependence", z3.BoolVal(not ev))

    return fn


_seen = set()
for _prop, _pred in BASES:
    for _cd in list(REGISTRY.get(_prop, [])):
        if _pred(_cd.name) and (_prop, _cd.name) not in _seen:
            _seen.add((_prop, _cd.name))
            contract(P, f"{_cd.name}[batch independence]", list(_cd.targets), min_obligations=1)(_wrap(_cd))


def _uninterpreted_leaves(t, acc):
    if z3.is_app(t):
        if t.decl().kind() == z3.Z3_OP_UNINTERPRETED:
            acc.add(t.decl().name())
        for ch in t.children():
            _uninterpreted_leaves(ch, acc)


def _per_sample_symbols(env):
    """names of the symbols that stand for per-sample data: everything the monitors hand to the trainer"""
    acc = set()
    tq = z3.Int("tq_probe")
    for m in env.monitors.values():
        for holder in (m, m.fields["reducer"].fields["data_"]):
            for mdl in holder.fields.values():
                pass
    return acc


def _escapes(term, sample_names, under=False):
    """a per-sample symbol occurring outside every batch_reduction(...) application"""
    if z3.is_app(term):
        d = term.decl()
        if d.name() == "batch_reduction":
            under = True
        elif d.kind() == z3.Z3_OP_UNINTERPRETED and d.name() in sample_names and not under:
            return d.name()
        for ch in term.children():
            r = _escapes(ch, sample_names, under)
            if r:
                return r
    return None


def _red_apps(term, acc):
    if z3.is_app(term):
        if term.decl().name() == "batch_reduction":
            if not any(term.eq(a) for a in acc):
                acc.append(term)
            return
        for ch in term.children():
            _red_apps(ch, acc)


def _wrap_trainer(base):
    def fn(c, base=base):
        from . import trainer_stubs as ts

        ts.REDUCE_UF[0] = True
        try:
            base.fn(c)
        finally:
            ts.REDUCE_UF[0] = False
            ev = list(cur().batch_events)
            c.pending[:] = [p for p in c.pending if p[0] == "safety"]
            c.ensure("no_cross_batch_dependence_before_the_documented_reduction", z3.BoolVal(not ev))
            env = getattr(cur(), "trainer_env", None)
            if env is not None and env.updater.fields:
                sample_names = set()
                for sp in env.monitor_specs.values():
                    for t in sp.values():
                        if hasattr(t, "f"):
                            _uninterpreted_leaves(t.f if t.tlen is None else t.f(z3.Int("tq_probe")), sample_names)
                            if getattr(t, "nan", None) is not None:
                                n = t.nan if t.tlen is None else (t.nan(z3.Int("tq_probe")) if callable(t.nan) else t.nan)
                                _uninterpreted_leaves(n, sample_names)
                parts = []
                for name, v in env.updater.fields.items():
                    for i, x in enumerate(v if isinstance(v, tuple) else (v,)):
                        if x is not None and hasattr(x, "f") and x.tlen is None:
                            parts.append((f"{name}[{i}]", x.f))
                c.ensure("reductions_are_over_the_batch_dimension", all((r[1] == 0) for r in env.reductions) and len(env.reductions) >= 1)
                for lab, term in parts:
                    esc = _escapes(term, sample_names)
                    c.ensure(f"{lab}:per_sample_data_reaches_the_updater_only_through_the_batch_reduction", z3.BoolVal(esc is None))
                    # additivity in the reduced quantities: with a SUM reduction the batched step is the sum of the
                    # per-sample steps   part(r + r') = part(r) + part(r')
                    apps = []
                    _red_apps(term, apps)
                    if apps:
                        r1 = [z3.Real(f"red{i}_a") for i in range(len(apps))]
                        r2 = [z3.Real(f"red{i}_b") for i in range(len(apps))]
                        f1 = z3.substitute(term, *[(a, x) for a, x in zip(apps, r1)])
                        f2 = z3.substitute(term, *[(a, x) for a, x in zip(apps, r2)])
                        f12 = z3.substitute(term, *[(a, x + y) for a, x, y in zip(apps, r1, r2)])
                        c.ensure(f"{lab}:additive_in_the_reduced_per_sample_terms", f12 == f1 + f2)

    return fn


for _cd in list(REGISTRY.get("C09", [])):
    if ".forward" in _cd.name and ("C09", _cd.name) not in _seen:
        _seen.add(("C09", _cd.name))
        contract(P, f"{_cd.name}[per-sample terms]", list(_cd.targets), min_obligations=1)(_wrap_trainer(_cd))

# "an identically parameterised batch-size-1 copy" is usually produced by the batch-size setter: its contract (C14) that
# every sample - kept or new - is left in the rest state of a fresh component belongs to this property too
from . import c14_config as _c14  # noqa: E402,F401

for _cd in list(REGISTRY.get("C14", [])):
    if _cd.name == "LIF[setters_vs_constructor]" and not any(x.name == _cd.name for x in REGISTRY.get(P, [])):
        contract(P, _cd.name, list(_cd.targets), min_obligations=_cd.min_obligations)(_cd.fn)

SM = "inferno/neural/synapses/mixins.py"
LIN = "inferno/neural/connections/linear.py"
ND = "inferno/neural/functional/dynamics.py"
MUTANTS = [
    dict(file="inferno/neural/network.py", func="Biclique.__init__", old='                        list(tensors.values()), "s ... -> ...", combine.lower()', new='                        torch.cat(list(tensors.values())), "s ... -> ...", combine.lower()', contracts=["Biclique[batch independence]"], name="seed C11e: connection outputs concatenated along the batch axis before the combine reduction"),
    dict(file="inferno/neural/neurons/linear.py", func="ALIF.forward", old="        if adapt or (adapt is None and self.training):", new="        if adapt or (adapt is None or self.training):", contracts=["ALIF.forward[batch independence]"], name="seed C11b: adaptation (and its batch reduction) runs although frozen with adapt=False"),
    dict(file=SM, func="CurrentMixin.current@setter", name="seed C11: history write skipped when the whole batch is silent",
         old="        self.current_.push(value, self.inplace)", new="        if value.any() or self.current.any():\n            self.current_.push(value, self.inplace)\n        else:\n            self.current_.incr()",
         contracts=["SingleExponentialCurrent.forward[batch independence]"]),
    dict(file=SM, func="SpikeMixin.spike@setter", old="        self.spike_.push(value.bool(), self.inplace)", new="        self.spike_.push(value.bool() if value.any() else value.bool() & False, self.inplace)", contracts=["DeltaCurrent.forward[batch independence]"], name="spike record depends on any() over the batch"),
    dict(file=LIN, func="LinearDirect.forward", old="            res = res * self.weight\n", new="            res = res * self.weight / (1 + res.sum() * 0)\n", contracts=["LinearDirect.forward[batch independence]"], name="output normalised by a sum over the whole batch"),
]
T2 = "inferno/learn/trainers/two_factor_stdp.py"
_DPRE = "            dpre = state.batchreduce(\n                ein.einsum(i_pre, x_post, \"b ... r, b ... r -> b ...\"), 0\n            )"
MUTANTS += [
    dict(file=T2, func="STDP.forward", old=_DPRE, new=_DPRE + "\n            dpre = dpre * dpre", contracts=["STDP.forward[per-sample terms]"], name="update part quadratic in the reduced term (batched step != sum of per-sample steps)"),
    dict(file=T2, func="STDP.forward", old=_DPRE, new=_DPRE + "\n            dpre = dpre + ein.einsum(i_pre, x_post, \"b ... r, b ... r -> b ...\")", contracts=["STDP.forward[per-sample terms]"], name="per-sample term bypasses the batch reduction"),
    dict(file=T2, func="STDP.forward", old=_DPRE, new=_DPRE.replace(", 0\n", ", 1\n"), contracts=["STDP.forward[per-sample terms]"], name="reduction over a non-batch dimension"),
    dict(file=T2, func="STDP.forward", old=_DPRE, new=_DPRE + "\n            dpre = 2.0 * dpre - dpre", contracts=["STDP.forward[per-sample terms]"], expect="survives", name="control: linear rewrite after the reduction"),
]
ASSUMPTIONS = [
    "C11: non-interference is read off the pointwise tensor theory: every modelled tensor operation is element-wise in the batch index except whole-tensor reductions, which are tracked; an operation the theory does not model is reported as out of reach, never as independent",
    "C11: layers are checked with stub components (C17), connections with the C04-contract synapse stub (C05): their own batch independence is the C03/C04 part of this property",
    "C11: ALIF / GLIF2 / Izhikevich / AdEx (adaptation frozen), Conv2D, RecurrentSerial on real components: bounded stand-in only (native/c11.py: batched run vs per-sample runs)",
    "C11: the induction from one step to whole input sequences uses determinism of the step contracts (generic Lean lemma batch_projection_fold, lean/Induction.lean)",
]
