"""Layout-free tensor theory for the connection contracts (C05 / C06 / C11).

A tensor is its value at ONE arbitrary index tuple (b, o, i, ...).  Pure re-layouts (view, expand, einops.rearrange
without reduction) keep that value; a contraction over an axis (F.linear, torch.matmul, einops.einsum with a contracted
axis) is the uninterpreted linear functional SUM applied to the summand at the arbitrary contracted index: equal
summands at every index give equal sums, nothing else is known.  `torch.eye` is 1 exactly when the arbitrary element
lies on the diagonal (one symbolic boolean per path).

What this theory cannot see (bounded stand-in native/c05.py): a wrong permutation of axes, wrong reshape order,
unfold/fold geometry.
"""
from __future__ import annotations

import re

import z3

from pyvc import tensor as tz
from pyvc.interp import Namespace, Obj
from pyvc.models import Model
from pyvc.sym import Unsupported
from pyvc.tensor import T

R = z3.RealSort()
SUM = z3.Function("contract_sum", R, R)
HC = z3.Function("current_history", R, R)  # synaptic current `d` ms before the present step (C04 / C02 contracts)
HS = z3.Function("spike_history", R, z3.BoolSort())
SYN = z3.Function("synapse_response", R, R)  # current produced by this step's input (C04 step contracts)


def _names(side):
    return sorted(t for t in re.findall(r"[A-Za-z_][A-Za-z_0-9]*|\.\.\.", side))


def install(c):
    """switch the interpreter of this path to layout-free mode and install the library models"""
    it = c.interp
    tz.LAYOUT_FREE[0] = True
    diag = z3.Bool("element_on_diagonal")

    def flat(x):
        if not isinstance(x, T) or x.tlen is not None:
            raise Unsupported("layout-free op on a tensor with a time axis")
        return x

    relog = []
    c.rearrange_log = relog

    def rearrange(x, pattern, **axes):
        relog.append((pattern, dict(axes)))
        flat(x)
        lhs, rhs = pattern.split("->")
        if _names(lhs) != _names(rhs):
            raise Unsupported(f"einops.rearrange {pattern!r} is not a pure re-layout")
        return T(x.f, x.dtype, None, None, None, x.nan)

    def einsum(*args):
        *ops, pattern = args
        lhs, rhs = pattern.split("->")
        ins = [s for s in lhs.split(",")]
        if len(ins) != len(ops):
            raise Unsupported("einsum arity")
        out = set(_names(rhs))
        contracted = set(n for s in ins for n in _names(s)) - out
        pr = None
        for o in ops:
            o = flat(o)
            pr = o if pr is None else pr * o
        v = tz.coerce(pr.f, "float")
        return T(SUM(v) if contracted else v, "float", None, None, None)

    def linear(x, w, b=None):
        r = T(SUM(tz.coerce((flat(x) * flat(w)).f, "float")), "float", None, None, None)
        return r + b if b is not None else r

    def matmul(a, b):
        return T(SUM(tz.coerce((flat(a) * flat(b)).f, "float")), "float", None, None, None)

    cnt = [0]

    def rand(*shape, **kw):
        cnt[0] += 1
        t = c.pw(f"rand{cnt[0]}")
        c.require(t.f >= 0, t.f < 1)
        return T(t.f, "float", None, None, None)

    def zeros(*shape, **kw):
        return T(z3.RealVal(0), "float", None, None, None)

    def eye(n, *a, **kw):
        return T(z3.If(diag, z3.RealVal(1), z3.RealVal(0)), "float", None, None, None)

    pad = z3.Bool("element_is_padding")

    def unfold(x, kernel_size, dilation=1, padding=0, stride=1):
        """F.unfold copies input elements into (C*kh*kw, L) columns; positions that fall into the zero padding are 0:
        the arbitrary element of the result is an arbitrary input element or a padding zero"""
        x = flat(x)
        return T(z3.If(pad, tz.coerce(z3.IntVal(0), x.dtype), x.f), x.dtype, None, None, None)

    it.F_ns._table["unfold"] = unfold
    it.namespaces["einops"] = Namespace("einops", dict(rearrange=rearrange, einsum=einsum))
    it.F_ns._table["linear"] = linear
    tn = it.torch_ns._table
    tn["matmul"] = matmul
    tn["rand"] = rand
    tn["zeros"] = zeros
    tn["eye"] = eye
    tn["is_floating_point"] = lambda x: x.dtype == "float"
    c.layout_symbols = dict(diag=diag, pad=pad)
    return diag


def synapse_ctor(c, log):
    """stub SynapseConstructor: records its arguments; the synapse object follows the C04 contracts"""

    def build(itp, shape, step_time, delay, batch_size, **kw):
        syn = Obj(None, "synapse")
        syn.fields.update(shape=shape if isinstance(shape, tuple) else (shape,), dt=step_time, delay=delay, batchsz=batch_size)
        syn.fields["current"] = T(HC(z3.RealVal(0)), "float", None, None, None)
        syn.fields["spike"] = T(HS(z3.RealVal(0)), "bool", None, None, None)
        log.append(("construct", shape, step_time, delay, batch_size))

        def call(itp2, *inputs, **kwargs):
            log.append(("call", inputs, kwargs))
            x = inputs[0]
            cur = T(SYN(tz.coerce(x.f, "float")), "float", None, None, None)
            syn.fields["current"] = cur  # the synapse returns ITS OWN current tensor (same object)
            syn.fields["spike"] = T(tz.coerce(x.f, "float") != 0, "bool", None, None, None)
            return cur

        def current_at(itp2, selector):
            log.append(("current_at", selector))
            return T(HC(tz.coerce(selector.f, "float")), "float", None, None, None)

        def spike_at(itp2, selector):
            log.append(("spike_at", selector))
            return T(HS(tz.coerce(selector.f, "float")), "bool", None, None, None)

        syn.fields["__call__"] = Model(call, "synapse.__call__")
        syn.fields["current_at"] = Model(current_at, "synapse.current_at")
        syn.fields["spike_at"] = Model(spike_at, "synapse.spike_at")
        syn.fields["clear"] = Model(lambda itp2, **k: log.append(("clear", k)), "synapse.clear")
        return syn

    return Model(build, "SynapseConstructor")


# ----------------------------------------------------------------------- symbolic reading of an einops pattern
def parse_side(side):
    """'b (c kh kw) l ...' -> ['b', ['c', 'kh', 'kw'], 'l', '...']"""
    out, cur_group = [], None
    for tok in re.findall(r"\(|\)|\.\.\.|[A-Za-z_][A-Za-z_0-9]*|1", side):
        if tok == "(":
            cur_group = []
        elif tok == ")":
            out.append(cur_group)
            cur_group = None
        elif cur_group is not None:
            cur_group.append(tok)
        else:
            out.append(tok)
    return out


def composite_index(names, idx, size):
    """row-major position inside a composite axis '(a b c)': ((i_a) * n_b + i_b) * n_c + i_c"""
    r = None
    for n in names:
        r = idx[n] if r is None else r * size[n] + idx[n]
    return r if r is not None else z3.IntVal(0)
