"""C02 - time-indexed select / insert (contracts on the real RecordTensor.select / insert).

Change of variables (legal because dt > 0):  time = dt*s,  tolerance = dt*tau.  The interpolation /
extrapolation callables are UNINTERPRETED inside select/insert, so the clauses hold for every shipped
and user kernel; the shipped kernels get their own contracts (interp/extrap pair lemmas) below.
"""
from __future__ import annotations

import z3

from pyvc import tensor as tz
from pyvc.harness import contract
from pyvc.models import Model
from pyvc.sym import SV, ceil_real, floor_real, num, round_half_even, smod, unit_abstract
from pyvc.tensor import T

from .fixtures import INF, Rec

P = "C02"
R = z3.RealSort()
I_UF = z3.Function("interp", R, R, R, R, R)
E0_UF = z3.Function("extrap_prev", R, R, R, R, R, R)
E1_UF = z3.Function("extrap_next", R, R, R, R, R, R)


def _tf(x):
    return x.f if isinstance(x, T) else (num(x) if z3.is_real(num(x)) else z3.ToReal(num(x)))


def _r(z):
    return z if z3.is_real(z) else z3.ToReal(z)


def interp_model():
    def fn(interp, prev, nxt, sample_at, dt, **kw):
        ref = prev if isinstance(prev, T) and prev.tlen is not None else (nxt if isinstance(nxt, T) and nxt.tlen is not None else (sample_at if isinstance(sample_at, T) and sample_at.tlen is not None else None))
        zdt = _r(num(dt))
        ua = lambda z: unit_abstract(_r(z), zdt)  # noqa: E731
        if ref is None:
            return T(I_UF(_r(prev.f), _r(nxt.f), ua(sample_at.f), zdt), "float", None, None, prev.eshape)
        g = lambda x: (x.f if x.tlen is not None else (lambda t, v=x.f: v))  # noqa: E731
        fp, fn_, fs = g(prev), g(nxt), g(sample_at)
        return T(lambda t: I_UF(_r(fp(t)), _r(fn_(t)), ua(fs(t)), zdt), "float", ref.tlen, ref.taxis, ref.eshape)

    return Model(fn, "interp(uninterpreted)")


def extrap_model():
    def fn(interp, obs, sample_at, prev, nxt, dt, **kw):
        zdt = _r(num(dt))
        ref = next((x for x in (obs, sample_at, prev, nxt) if isinstance(x, T) and x.tlen is not None), None)
        ua = lambda z: unit_abstract(_r(z), zdt)  # noqa: E731
        if ref is None:
            a = (_r(obs.f), ua(sample_at.f), _r(prev.f), _r(nxt.f), zdt)
            return (T(E0_UF(*a), "float", None, None, obs.eshape), T(E1_UF(*a), "float", None, None, obs.eshape))
        g = lambda x: (x.f if x.tlen is not None else (lambda t, v=x.f: v))  # noqa: E731
        fo, fs, fp, fn_ = g(obs), g(sample_at), g(prev), g(nxt)
        return (
            T(lambda t: E0_UF(_r(fo(t)), ua(fs(t)), _r(fp(t)), _r(fn_(t)), zdt), "float", ref.tlen, ref.taxis, ref.eshape),
            T(lambda t: E1_UF(_r(fo(t)), ua(fs(t)), _r(fp(t)), _r(fn_(t)), zdt), "float", ref.tlen, ref.taxis, ref.eshape),
        )

    return Model(fn, "extrap(uninterpreted)")


def _setup(c, dtype="float"):
    N, ptr = c.int("N"), c.int("ptr")
    dt, s, tau = c.real("dt"), c.real("s"), c.real("tau")
    off = c.int("off")
    c.require(N >= 1, 0 <= ptr, ptr < N, dt > 0, tau >= 0)
    # stated quantifier domain: offsets within two record lengths, tolerance at most the record duration
    c.require(off >= -2 * N, off <= 2 * N, tau <= z3.ToReal(N.z))
    r = Rec(c, N, ptr, dtype, dt=dt)
    return N, ptr, dt, s, tau, off, r


def _spec_pieces(N, s, tau):
    zs = s.z
    rr = round_half_even(zs)
    on = z3.If(z3.ToReal(rr) - zs >= 0, z3.ToReal(rr) - zs, zs - z3.ToReal(rr)) <= tau.z
    in_range = z3.And(zs >= -tau.z, zs <= z3.ToReal(N.z - 1) + tau.z)
    return rr, on, in_range, ceil_real(zs), floor_real(zs)


@contract(P, "RecordTensor.select[scalar]", (INF, "RecordTensor.select"))
def select_scalar(c):
    N, ptr, dt, s, tau, off, r = _setup(c)
    t = dt * s
    out = c.outcome(r.method("select"), t, interp_model(), tolerance=dt * tau, offset=off)
    rr, on, in_range, cl, fl = _spec_pieces(N, s, tau)
    if out.raised:
        c.ensure("rejects_only_out_of_range", z3.And(out.raised == "ValueError", z3.Not(in_range)))
        return
    c.ensure("accepts_only_in_range", in_range)
    v = out.value
    c.ensure("on_grid_exact", z3.Implies(on, v.f == r.M0(off.z + rr)))
    sample_at = unit_abstract(dt.z * z3.ToReal(cl) - dt.z * s.z, dt.z)
    c.ensure("off_grid_interpolates", z3.Implies(z3.Not(on), v.f == I_UF(r.M0(off.z + cl), r.M0(off.z + fl), sample_at, dt.z)))
    c.ensure("frame", z3.And(r.ptr == ptr, not r.owner.writes))
    c.canary("canary_always_exact", v.f == r.M0(off.z + rr))


def _mk_select_nonfloat(dtype):
    @contract(P, f"RecordTensor.select[scalar, {dtype} record]", [(INF, "RecordTensor.select"), ("inferno/core/tensor.py", "fullc")], min_obligations=3)
    def select_scalar_nf(c, dtype=dtype):
        """records of integer / boolean observations (spike records are boolean): the elapsed time handed to the
        interpolation is a floating-point tensor holding the exact off-grid time, whatever the record's own data type"""
        N, ptr, dt, s, tau, off, r = _setup(c, dtype)
        t = dt * s
        seen = []
        base = interp_model()

        def fn(interp, prev, nxt, sample_at, step, **kw):
            seen.append(sample_at)
            return interp.call(base, [prev, nxt, sample_at, step], kw)

        out = c.outcome(r.method("select"), t, Model(fn, "interp(uninterpreted, logging)"), tolerance=dt * tau, offset=off)
        rr, on, in_range, cl, fl = _spec_pieces(N, s, tau)
        if out.raised:
            c.ensure("rejects_only_out_of_range", z3.And(out.raised == "ValueError", z3.Not(in_range)))
            return
        c.ensure("accepts_only_in_range", in_range)
        v = out.value
        as_r = lambda z: z3.If(z, z3.RealVal(1), z3.RealVal(0)) if z3.is_bool(z) else (z3.ToReal(z) if z3.is_int(z) else z)  # noqa: E731
        c.ensure("on_grid_exact", z3.Implies(on, as_r(v.f) == as_r(r.M0(off.z + rr))))
        if seen:
            sa = seen[0]
            c.ensure("elapsed_time_is_a_floating_point_tensor", sa.dtype == "float")
            exact = dt.z * z3.ToReal(cl) - dt.z * s.z
            c.ensure("elapsed_time_is_exact", z3.Implies(z3.Not(on), as_r(sa.f if sa.tlen is None else sa.f(z3.IntVal(0))) == exact))
        c.ensure("frame", z3.And(r.ptr == ptr, not r.owner.writes))
        c.canary("canary_always_exact", as_r(v.f) == as_r(r.M0(off.z + rr)))

    return select_scalar_nf


_mk_select_nonfloat("int")
_mk_select_nonfloat("bool")


def _select_tensor(c, layouts):
    N, ptr, dt, s, tau, off, r = _setup(c)
    layout = c.choice("time_layout", layouts)
    j = None
    if layout == "squeezed":
        time = T(dt.z * s.z, "float", None, None, r.S)
    elif layout == "trailing_axis":
        time = T(lambda t: dt.z * s.z, "float", 1, "last", r.S)
    else:
        # L query times per element (what a connection asks for: one delay per output); position j is arbitrary
        L, j = c.int("L"), c.int("j")
        c.require(L >= 1, 0 <= j, j < L)
        sf = c.func("s_at", z3.IntSort(), R)
        s = SV(sf(j.z))
        time = T(lambda t: dt.z * sf(t), "float", L, "last", r.S)
    out = c.outcome(r.method("select"), time, interp_model(), tolerance=dt * tau, offset=off)
    rr, on, in_range, cl, fl = _spec_pieces(N, s, tau)
    if out.raised:
        c.ensure("raises_value_error", out.raised == "ValueError")
        return
    if j is not None:
        time.f(j.z)  # names position j: instantiates the min/max facts of the range check there
    c.ensure("accepts_only_in_range", in_range)  # an element out of range forces min/max out of range
    v = out.value
    val = v.f if v.tlen is None else v.at(0 if j is None else j.z)
    c.ensure("shape", (v.tlen is None) if layout == "squeezed" else (v.tlen is not None and v.taxis == "last"))
    if j is not None:
        c.ensure("one_result_per_query_time", num(v.tlen) == L.z)
    c.ensure("on_grid_exact", z3.Implies(on, val == r.M0(off.z + rr)))
    sample_at = unit_abstract(dt.z * z3.ToReal(cl) - dt.z * s.z, dt.z)
    c.ensure("off_grid_interpolates", z3.Implies(z3.Not(on), val == I_UF(r.M0(off.z + cl), r.M0(off.z + fl), sample_at, dt.z)))
    c.ensure("frame", z3.And(r.ptr == ptr, not r.owner.writes))
    if j is None:
        c.canary("canary_always_exact", val == r.M0(off.z + rr))
    else:
        c.canary("canary_constant_result", val == 12345)


@contract(P, "RecordTensor.select[tensor]", (INF, "RecordTensor.select"))
def select_tensor(c):
    _select_tensor(c, ["squeezed", "trailing_axis"])


@contract(P, "RecordTensor.select[tensor,many times per element]", (INF, "RecordTensor.select"))
def select_tensor_many(c):
    _select_tensor(c, ["trailing_axis_many"])


def _insert_post(c, r, N, ptr, dt, s, tau, off, obs, k):
    rr, on, in_range, cl, fl = _spec_pieces(N, s, tau)
    sample_at = unit_abstract(dt.z * z3.ToReal(cl) - dt.z * s.z, dt.z)
    a = (obs.f, sample_at, r.M0(off.z + cl), r.M0(off.z + fl), dt.z)
    hit_on = smod(num(k) - (off.z + rr), N.z) == 0
    hit_prev = smod(num(k) - (off.z + cl), N.z) == 0
    hit_next = smod(num(k) - (off.z + fl), N.z) == 0
    c.ensure("wf", r.wf1())
    c.ensure("on_grid_exact_write", z3.Implies(on, z3.If(hit_on, r.M1(k) == obs.f, r.M1(k) == r.M0(k))))
    c.ensure("off_grid_prev_slot", z3.Implies(z3.And(z3.Not(on), hit_prev), r.M1(k) == E0_UF(*a)))
    c.ensure("off_grid_next_slot", z3.Implies(z3.And(z3.Not(on), hit_next, z3.Not(hit_prev)), r.M1(k) == E1_UF(*a)))
    c.ensure("others_untouched", z3.Implies(z3.And(z3.Not(on), z3.Not(hit_prev), z3.Not(hit_next)), r.M1(k) == r.M0(k)))
    c.ensure("ptr_kept", r.ptr == ptr)
    return in_range


@contract(P, "RecordTensor.insert[scalar]", (INF, "RecordTensor.insert"))
def insert_scalar(c):
    N, ptr, dt, s, tau, off, r = _setup(c)
    k = c.int("k")
    c.require(0 <= k, k < N)  # M(k) = M(k mod N): k in [0, N) names every slot
    inplace = c.bool("inplace")
    obs = c.pw("obs", "float", eshape=r.S)
    out = c.outcome(r.method("insert"), obs, dt * s, extrap_model(), tolerance=dt * tau, offset=off, inplace=inplace)
    rr, on, in_range, cl, fl = _spec_pieces(N, s, tau)
    if out.raised:
        c.ensure("rejects_only_out_of_range", z3.And(out.raised == "ValueError", z3.Not(in_range)))
        return
    c.ensure("accepts_only_in_range", in_range)
    # N == 1 with an off-grid time maps both brackets onto the single slot: excluded by the range check unless tau >= 1/2
    _insert_post(c, r, N, ptr, dt, s, tau, off, obs, k)
    c.canary("canary_nothing_written", r.M1(k) == r.M0(k))


@contract(P, "RecordTensor.insert[tensor]", (INF, "RecordTensor.insert"))
def insert_tensor(c):
    N, ptr, dt, s, tau, off, r = _setup(c)
    k = c.int("k")
    c.require(0 <= k, k < N)
    inplace = c.bool("inplace")
    obs = c.pw("obs", "float", eshape=r.S)
    time = T(dt.z * s.z, "float", None, None, r.S)
    out = c.outcome(r.method("insert"), obs, time, extrap_model(), tolerance=dt * tau, offset=off, inplace=inplace)
    rr, on, in_range, cl, fl = _spec_pieces(N, s, tau)
    if out.raised:
        c.ensure("raises_value_error", out.raised == "ValueError")
        return
    c.ensure("accepts_only_in_range", in_range)
    _insert_post(c, r, N, ptr, dt, s, tau, off, obs, k)
    c.canary("canary_nothing_written", r.M1(k) == r.M0(k))


ASSUMPTIONS = [
    "A1: time/dt, dt*round(shift) and the tolerance comparison are evaluated in exact real arithmetic (IEEE rounding of time/dt is the declared unverified clause; bounded float grid in native/c02.py)",
    "interp/extrap callables are pure element-wise functions of their tensor arguments (uninterpreted)",
    "for tensor times the contract is stated at one arbitrary element: acceptance implies that element is in range (min/max bound it)",
]


# ----------------------------------------------------------------------- shipped kernels (PW contracts)
FI = "inferno/functional/interpolation.py"
FE = "inferno/functional/extrapolation.py"
PAIRS = [
    ("extrap_previous", "interp_previous", {}, None),
    ("extrap_next", "interp_next", {}, None),
    ("extrap_neighbors", "interp_previous", {}, None),
    ("extrap_neighbors", "interp_next", {}, None),
    ("extrap_neighbors", "interp_nearest", {}, None),
    ("extrap_neighbors", "interp_linear", {}, None),
    ("extrap_nearest", "interp_nearest", {}, None),
    ("extrap_linear_forward", "interp_linear", {}, "ts_nonzero"),
    ("extrap_linear_backward", "interp_linear", {}, "ts_not_dt"),
    ("extrap_linear_forward", "interp_linear", {"adjust": "<adjust>"}, "ts_nonzero"),
    ("extrap_linear_backward", "interp_linear", {"adjust": "<adjust>"}, "ts_not_dt"),
    ("extrap_expdecay", "interp_expdecay", {"time_constant": "tc"}, None),
    ("extrap_expratedecay", "interp_expratedecay", {"rate_constant": "rc"}, None),
]


def _mk_pair(ex_name, in_name, kw, cond, prop=P):
    adj = "adjust" in kw
    @contract(prop, f"pair[{ex_name},{in_name}]" + ("[adjust]" if adj else ""), [(FE, ex_name), (FI, in_name)], tags=("kernel",))
    def pair(c, ex_name=ex_name, in_name=in_name, kw=kw, cond=cond):
        """`[adjust]`: the optional `adjust` callable is an uninterpreted element-wise function f; the endpoints must be the
        documented ones (slope taken from the ADJUSTED endpoint) and the round trip must still return the sample"""
        x, p, n, ts = c.pw("x"), c.pw("p"), c.pw("n"), c.pw("ts")
        dt = c.real("dt")
        c.require(dt > 0, ts.f >= 0, ts.f <= dt.z)
        if cond == "ts_nonzero":
            c.require(ts.f > 0)
        if cond == "ts_not_dt":
            c.require(ts.f < dt.z)
        kws, ikws = {}, {}
        ADJ = z3.Function("adjust_fn", z3.RealSort(), z3.RealSort())
        for k, v in kw.items():
            if v == "<adjust>":
                kws[k] = Model(lambda it, t: t.float()._map(lambda e: ADJ(e), "float"), "adjust")
                continue
            sv = c.real(v)
            c.require(sv > 0)
            kws[k] = sv
            ikws[k] = sv
        ex = c.function(FE, ex_name)
        it = c.function(FI, in_name)
        out = c.outcome(ex, x, ts, p, n, dt, **kws)
        c.expect_return(out)
        p1, n1 = out.value
        if "adjust" in kws:
            if ex_name == "extrap_linear_forward":
                fp = ADJ(p.f)
                c.ensure("documented_endpoints_with_adjust", z3.And(p1.f == fp, n1.f == fp + (x.f - fp) / ts.f * dt.z))
            else:
                fn_ = ADJ(n.f)
                c.ensure("documented_endpoints_with_adjust", z3.And(n1.f == fn_, p1.f == fn_ - (fn_ - x.f) / (dt.z - ts.f) * dt.z))
        back = c.outcome(it, p1, n1, ts, dt, **ikws)
        c.expect_return(back)
        c.ensure("interp_of_extrap_is_sample", back.value.f == x.f)
        c.canary("canary_returns_prev", back.value.f == p.f)

    return pair


for _a in PAIRS:
    _mk_pair(*_a)


def lin_between(c):
    p, n, t = c.pw("p"), c.pw("n"), c.pw("t")
    dt = c.real("dt")
    c.require(dt > 0, 0 <= t.f, t.f <= dt.z)
    r = c.call(c.function(FI, "interp_linear"), p, n, t, dt)
    lo = z3.If(p.f <= n.f, p.f, n.f)
    hi = z3.If(p.f <= n.f, n.f, p.f)
    c.ensure("between", z3.And(lo <= r.f, r.f <= hi))
    c.ensure("at_older_end", z3.Implies(t.f == 0, r.f == p.f))
    c.ensure("at_newer_end", z3.Implies(t.f == dt.z, r.f == n.f))
    c.canary("canary_constant", r.f == p.f)


contract(P, "interp_linear[between]", (FI, "interp_linear"), tags=("kernel",))(lin_between)


@contract(P, "roundtrip[insert;select]", [(INF, "RecordTensor.insert"), (INF, "RecordTensor.select")], tags=("lemma",))
def roundtrip(c):
    """insert(x, t, extrap) ; select(t, interp) == x  whenever interp(extrap(x,..)) == x (the pair lemma), same offset."""
    N, ptr, dt, s, tau, off, r = _setup(c)
    c.require(N >= 2)
    inplace = c.bool("inplace")
    obs = c.pw("obs", "float", eshape=r.S)
    # pair hypothesis for the uninterpreted kernels, instantiated at the brackets actually used
    rr, on, in_range, cl, fl = _spec_pieces(N, s, tau)
    sample_at = unit_abstract(dt.z * z3.ToReal(cl) - dt.z * s.z, dt.z)
    a = (obs.f, sample_at, r.M0(off.z + cl), r.M0(off.z + fl), dt.z)
    c.require(I_UF(E0_UF(*a), E1_UF(*a), sample_at, dt.z) == obs.f)
    o1 = c.outcome(r.method("insert"), obs, dt * s, extrap_model(), tolerance=dt * tau, offset=off, inplace=inplace)
    if o1.raised:
        c.ensure("insert_rejects_only_out_of_range", z3.Not(in_range))
        return
    o2 = c.outcome(r.method("select"), dt * s, interp_model(), tolerance=dt * tau, offset=off)
    c.expect_return(o2)
    c.ensure("select_returns_inserted", o2.value.f == obs.f)
    c.canary("canary_returns_old", o2.value.f == r.M0(off.z + rr))


_F = INF

@contract(P, "RecordTensor.select/insert[default offset]", [(INF, "RecordTensor.select"), (INF, "RecordTensor.insert")])
def default_offset(c):
    """callers that do not pass `offset`: select (every reducer view, every synapse delayed read) uses offset 1 - time 0
    is the NEWEST observation, the pointer naming the next write position; insert uses offset 0 (as write does)"""
    N, ptr, dt, s, tau, off, r = _setup(c)
    k = c.int("k")
    c.require(0 <= k, k < N)
    rr, on, in_range, cl, fl = _spec_pieces(N, s, tau)
    c.require(in_range, on)
    which = c.choice("operation", ["select_scalar", "select_tensor", "insert_scalar"])
    if which == "select_scalar":
        out = c.outcome(r.method("select"), dt * s, interp_model(), tolerance=dt * tau)
        c.expect_return(out)
        c.ensure("time_zero_is_the_newest_observation", out.value.f == r.M0(1 + rr))
        c.canary("canary_offset_zero", out.value.f == r.M0(rr))
    elif which == "select_tensor":
        out = c.outcome(r.method("select"), T(dt.z * s.z, "float", None, None, r.S), interp_model(), tolerance=dt * tau)
        c.expect_return(out)
        c.ensure("time_zero_is_the_newest_observation", out.value.f == r.M0(1 + rr))
        c.canary("canary_offset_zero", out.value.f == r.M0(rr))
    else:
        obs = c.pw("obs", "float", eshape=r.S)
        out = c.outcome(r.method("insert"), obs, dt * s, extrap_model(), tolerance=dt * tau)
        c.expect_return(out)
        hit = smod(num(k) - rr, N.z) == 0
        c.ensure("insert_default_offset_is_the_write_position", z3.If(hit, r.M1(k) == obs.f, r.M1(k) == r.M0(k)))
        c.canary("canary_nothing_written", r.M1(k) == r.M0(k))


MUTANTS = [
    dict(file="inferno/core/tensor.py", func="fullc", old="            if tensor.is_floating_point() or tensor.is_complex()", new="            if tensor.is_floating_point() or not tensor.is_complex()", contracts=["RecordTensor.select[scalar, int record]", "RecordTensor.select[scalar, bool record]"], name="seed C02f: the elapsed-time tensor takes the data type of an integer / boolean record"),
    dict(file=FE, func="extrap_linear_forward", old="    prev_data = adjust(prev_data) if adjust else prev_data\n    slope = (sample - prev_data) / sample_at", new="    slope = (sample - prev_data) / sample_at\n    prev_data = adjust(prev_data) if adjust else prev_data", contracts=["pair[extrap_linear_forward,interp_linear][adjust]"], name="seed C02e: slope taken from the unadjusted older endpoint"),
    dict(file=FE, func="extrap_linear_backward", old="    next_data = adjust(next_data) if adjust else next_data\n    slope = (next_data - sample) / (step_time - sample_at)", new="    slope = (next_data - sample) / (step_time - sample_at)\n    next_data = adjust(next_data) if adjust else next_data", contracts=["pair[extrap_linear_backward,interp_linear][adjust]"], name="seed C20e: slope taken from the unadjusted newer endpoint"),
    dict(file=_F, func="RecordTensor.select", old="        offset: int = 1,\n        interp_kwargs", new="        offset: int = 0,\n        interp_kwargs", contracts=["RecordTensor.select/insert[default offset]"], name="select: default offset changed"),
    dict(file=_F, func="RecordTensor.select", old="torch.where(torch.abs(dt * shiftr - time) <= tolerance, shiftr, shift),", new="torch.where(torch.abs(dt * shiftr - time) < tolerance, shiftr, shift),", contracts=["RecordTensor.select[tensor]"], name="seed C06: tensor-time tolerance test <= -> <"),
    dict(file=_F, func="RecordTensor.select", old="prev_idx, next_idx = offset.ceil(), offset.floor()", new="prev_idx, next_idx = offset.floor(), offset.ceil()", contracts=["RecordTensor.select[tensor]"], name="tensor select: brackets swapped"),
    dict(file=_F, func="RecordTensor.select", old="                dt - dt * (shift % 1),\n", new="                dt * (shift % 1),\n", contracts=["RecordTensor.select[tensor]"], name="tensor select: elapsed time measured from the wrong bracket"),
    dict(file=_F, func="RecordTensor.insert", old="            shift = torch.where(\n                torch.abs(dt * shiftr - time) <= tolerance, shiftr, shift\n            )", new="            shift = torch.where(\n                torch.abs(dt * shiftr - time) < tolerance, shiftr, shift\n            )", contracts=["RecordTensor.insert[tensor]"], name="tensor insert: tolerance test <= -> <"),
    dict(file=_F, func="RecordTensor.insert", old="            bypass = prev_idx == next_idx\n            prev_exobs = torch.where(bypass, obs, prev_exobs)", new="            bypass = prev_idx == next_idx\n            prev_exobs = torch.where(bypass, prev_exobs, obs)", contracts=["RecordTensor.insert[tensor]"], name="tensor insert: bypass inverted"),
    dict(file=_F, func="RecordTensor.select", old="math.ceil(offset), recordsz)", new="math.floor(offset), recordsz)", contracts=["RecordTensor.select[scalar]"], name="select: ceil->floor for the older bracket"),
    dict(file=_F, func="RecordTensor.select", old="fullc(data, dt - dt * (shift % 1), shape=data.shape[1:])", new="fullc(data, dt * (shift % 1), shape=data.shape[1:])", contracts=["RecordTensor.select[scalar]"]),
    dict(file=_F, func="RecordTensor.select", old="if abs(dt * round(shift) - time) <= tolerance:", new="if abs(dt * round(shift) - time) < tolerance:", contracts=["RecordTensor.select[scalar]"]),
    dict(file=_F, func="RecordTensor.select", old="if time < -tolerance or time > dt * (recordsz - 1) + tolerance:", new="if time < -tolerance or time > dt * recordsz + tolerance:", contracts=["RecordTensor.select[scalar]"]),
    dict(file=_F, func="RecordTensor.select", old="data[_unwind_ptr(ptr, offset + round(shift), recordsz), ...]", new="data[_unwind_ptr(ptr, offset - round(shift), recordsz), ...]", contracts=["RecordTensor.select[scalar]"]),
    dict(file=_F, func="RecordTensor.insert", old="math.ceil(offset),\n                        forward=True,", new="math.ceil(offset),\n                        forward=False,", contracts=["RecordTensor.insert[scalar]"]),
    dict(file=_F, func="RecordTensor.insert", old="torch.stack((prev_exobs, next_exobs), -1)", new="torch.stack((next_exobs, prev_exobs), -1)", contracts=["RecordTensor.insert[scalar]"]),
    dict(file=FI, func="interp_nearest", old="sample_at / step_time > 0.5", new="sample_at / step_time >= 0.5", contracts=["pair[extrap_nearest,interp_nearest]"]),
    dict(file=FI, func="interp_expdecay", old="torch.exp(-sample_at / time_constant)", new="torch.exp(sample_at / time_constant)", contracts=["pair[extrap_expdecay,interp_expdecay]"]),
    dict(file=FE, func="extrap_expdecay", old="(sample_at - step_time) / time_constant", new="(step_time - sample_at) / time_constant", contracts=["pair[extrap_expdecay,interp_expdecay]"], expect="survives", name="control: extrap_expdecay newer-bracket value is not read back by interp_expdecay"),
    dict(file=FE, func="extrap_linear_forward", old="(sample - prev_data) / sample_at", new="(sample - prev_data) / step_time", contracts=["pair[extrap_linear_forward,interp_linear]"]),
]
