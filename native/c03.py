"""C03 native oracle (bounded): all eight neuron classes vs an independent float64 step-counting reference."""
from __future__ import annotations

import copy
import math
import random

from .common import torch
from inferno.neural import ALIF, AdEx, EIF, GLIF1, GLIF2, LIF, QIF, Izhikevich


def mk(cls, dt, refrac_t, B=2, n=3):
    if cls in ("LIF", "GLIF1"):
        return {"LIF": LIF, "GLIF1": GLIF1}[cls]((n,), dt, rest_v=-60.0, reset_v=-65.0, thresh_v=-50.0, refrac_t=refrac_t, time_constant=20.0, resistance=1.0, batch_size=B)
    if cls == "ALIF":
        return ALIF((n,), dt, rest_v=-60.0, reset_v=-65.0, thresh_eq_v=-50.0, refrac_t=refrac_t, tc_membrane=20.0, tc_adaptation=(30.0, 90.0), spike_increment=(1.0, -0.5), resistance=1.0, batch_size=B)
    if cls == "GLIF2":
        return GLIF2((n,), dt, rest_v=-60.0, reset_v_add=-2.0, reset_v_mul=0.2, thresh_eq_v=-50.0, refrac_t=refrac_t, tc_membrane=20.0, rc_adaptation=(0.03,), spike_increment=(1.5,), resistance=1.0, batch_size=B)
    if cls == "ALIF-":
        # NEGATIVE adaptive increments: every spike lowers the threshold, eventually below the reset voltage, so that a
        # refractory neuron sits at/above its threshold (only the refractory mask keeps it silent)
        return ALIF((n,), dt, rest_v=-60.0, reset_v=-65.0, thresh_eq_v=-50.0, refrac_t=refrac_t, tc_membrane=20.0, tc_adaptation=(300.0, 900.0), spike_increment=(-4.0, -4.0), resistance=1.0, batch_size=B)
    if cls == "GLIF2-":
        # shallow reset (voltage stays close to where it spiked) + negative increment: refractory voltage above threshold
        return GLIF2((n,), dt, rest_v=-60.0, reset_v_add=0.0, reset_v_mul=0.95, thresh_eq_v=-50.0, refrac_t=refrac_t, tc_membrane=20.0, rc_adaptation=(0.001,), spike_increment=(-2.0,), resistance=1.0, batch_size=B)
    if cls == "QIF":
        return QIF((n,), dt, rest_v=-60.0, crit_v=-55.0, affinity=0.3, reset_v=-62.0, thresh_v=-40.0, refrac_t=refrac_t, time_constant=10.0, resistance=1.0, batch_size=B)
    if cls == "Izhikevich":
        return Izhikevich((n,), dt, rest_v=-60.0, crit_v=-55.0, affinity=0.3, reset_v=-62.0, thresh_v=-40.0, refrac_t=refrac_t, tc_membrane=10.0, tc_adaptation=50.0, voltage_coupling=0.5, spike_increment=2.0, resistance=1.0, batch_size=B)
    if cls == "EIF":
        return EIF((n,), dt, rest_v=-60.0, rheobase_v=-52.0, sharpness=2.0, reset_v=-62.0, thresh_v=-40.0, refrac_t=refrac_t, time_constant=10.0, resistance=1.0, batch_size=B)
    if cls == "AdEx":
        return AdEx((n,), dt, rest_v=-60.0, rheobase_v=-52.0, sharpness=2.0, reset_v=-62.0, thresh_v=-40.0, refrac_t=refrac_t, tc_membrane=10.0, tc_adaptation=50.0, voltage_coupling=0.5, spike_increment=2.0, resistance=1.0, batch_size=B)
    raise ValueError(cls)


# configured reset voltage of the classes with a constant reset (see mk)
RESET = {"LIF": -65.0, "GLIF1": -65.0, "ALIF": -65.0, "ALIF-": -65.0, "QIF": -62.0, "Izhikevich": -62.0, "EIF": -62.0, "AdEx": -62.0}


def run(cls, dt, refrac_t, lock, steps, seed):
    torch.manual_seed(seed)
    n = mk(cls, dt, refrac_t)
    n.eval()
    # independently built twin driven by the same inputs, zeroed on ITS refractory neurons (copy.deepcopy of a neuron is
    # not used: the copy would share the state storage)
    torch.manual_seed(seed)
    twin = mk(cls, dt, refrac_t)
    twin.eval()
    last_spike = None
    window = max(1, math.ceil(refrac_t / dt - 1e-9))
    inp = dict(cls=cls, dt=dt, refrac_t=refrac_t, refrac_lock=lock, seed=seed)
    last = torch.full((2, 3), -10 ** 9, dtype=torch.long)
    d22 = None
    for t in range(steps):
        x = torch.rand(2, 3) * 60.0 - 10.0
        v0 = n.voltage.clone()
        # a refractory neuron receives no input (documented masked inputs): a twin stepped with the input zeroed on the
        # refractory neurons must end in the same state, with voltage locking on or off
        s2 = twin(x * ((twin.refrac - dt).clamp(min=0) == 0), refrac_lock=lock)  # refractory DURING this step: time left after the decrement
        s = n(x, refrac_lock=lock)
        if not torch.equal(s, s2) or not torch.allclose(n.voltage, twin.voltage, rtol=0, atol=1e-6):
            return {"what": "C03/refractory_neuron_integrates_its_input", "input": dict(inp, step=t), "expected": twin.voltage.flatten().tolist()[:6], "actual": n.voltage.flatten().tolist()[:6]}
        rv = RESET.get(cls)
        if rv is not None and (s & ((n.voltage - rv).abs() > 1e-5)).any():
            return {"what": "C03/voltage_after_spike_is_not_the_configured_reset", "input": dict(inp, step=t), "expected": rv, "actual": n.voltage[s].flatten().tolist()[:4]}
        if (n.refrac < 0).any():
            return {"what": "C03/refrac_negative", "input": dict(inp, step=t), "expected": ">=0", "actual": n.refrac.min().item()}
        inwin = (t - last) < window
        if (s & inwin).any():
            return {"what": "C03/spike_in_refractory_window", "input": dict(inp, step=t), "expected": "no spike", "actual": "spike"}
        locked = inwin & ((t - last) >= 1)
        if lock:
            if (locked & (n.voltage != v0)).any():
                return {"what": "C03/voltage_not_locked", "input": dict(inp, step=t), "expected": "unchanged", "actual": "changed"}
        elif cls in ("LIF", "GLIF1", "QIF", "EIF"):
            # refrac_lock=False: a refractory neuron follows the zero-input dynamics; from the reset voltage (not a fixed
            # point of any of these models with the parameters above) that moves the voltage
            if (locked & ~s & (n.voltage == v0)).any():
                return {"what": "C03/voltage_held_although_refrac_lock_is_off", "input": dict(inp, step=t), "expected": "zero-input update", "actual": "unchanged"}
        if not torch.equal(n.spike, s):
            f = {"what": "C03/spike_attribute", "input": dict(inp, step=t), "expected": s.tolist(), "actual": n.spike.tolist()}
            if refrac_t != 0:
                return f
            # refrac_t == 0 is the recorded finding D22: keep going so that it cannot mask a different failure of this run
            d22 = d22 or f
        last = torch.where(s, torch.full_like(last, t), last)
    return d22


def sweep(tier="quick", seed=0, unsupported=()):
    failures, cases = [], 0
    classes = ["LIF", "ALIF", "GLIF1", "GLIF2", "QIF", "Izhikevich", "EIF", "AdEx", "ALIF-", "GLIF2-"]
    for cls in classes:
        for dt in ((1.0, 0.5) if tier == "quick" else (1.0, 0.5, 0.1, 1.3)):
            for ratio in (0.0, 0.5, 1.0, 2.5, 3.0):
                for lock in (True, False):
                    cases += 1
                    f = run(cls, dt, ratio * dt, lock, 40 if tier == "quick" else 120, seed)
                    if f is not None and not any(x["what"] == f["what"] and x["input"]["cls"] == cls for x in failures):
                        failures.append(f)
    return {"standins": [{"function": "8 neuron classes: refractory window, voltage lock, refrac >= 0, spike attribute (real classes, random drive incl. strong/negative)", "domain": "dt x refrac_t/dt in {0,0.5,1,2.5,3} x refrac_lock, 40+ steps, batch 2 x 3 neurons", "cases": cases, "proved": False, "label": "bounded"}], "failures": failures}


def replay(contract, label, model, note=""):
    if contract.startswith("LIF[setters_vs_constructor]"):
        from . import c14

        for B0, B1 in ((1, 3), (2, 4), (3, 1)):
            for warm in (5, 0):
                f = c14.neuron_case(B0, B1, 1.0, 1.0, warm)
                if f:
                    return {"reproduced": True, "failure": f, "concrete": f["input"]}
        return {"reproduced": False, "search": {"points_tried": 6}}
    from fractions import Fraction

    def g(k, d):
        try:
            return float(Fraction(str(model.get(k, d))))
        except Exception:
            return d

    cls = contract.split(".")[0] if contract.split(".")[0] in ("LIF", "GLIF1", "QIF", "EIF", "ALIF", "GLIF2", "Izhikevich", "AdEx") else None
    dt = g("dt", 1.0) or 1.0
    rt = max(0.0, g("refrac_t", g("rt", 0.0)))
    tried = 0
    cands = ([cls] if cls else []) + [c_ for c_ in ("LIF", "ALIF", "GLIF1", "GLIF2", "QIF", "Izhikevich", "EIF", "AdEx", "ALIF-", "GLIF2-") if c_ != cls]
    for c_ in cands:
        for d_, r_ in ((dt, rt), (1.0, 2.5), (1.0, 3.0), (0.5, 1.0), (1.0, 1.0), (1.0, 0.5), (1.0, 0.0)):
            for lock in (True, False):
                tried += 1
                try:
                    f = run(c_, d_, r_, lock, 40, 0)
                except Exception as e:  # noqa: BLE001
                    f = {"what": "C03/exception", "input": dict(cls=c_, dt=d_, refrac_t=r_, refrac_lock=lock), "expected": "runs", "actual": f"{type(e).__name__}: {e}"}
                if f and not (f["what"] == "C03/spike_attribute" and r_ == 0):
                    return {"reproduced": True, "failure": f, "concrete": f["input"], "search": {"points_tried": tried}}
        if cls and c_ == cls and "forward" not in contract and "clear" not in contract:
            break
    return {"reproduced": False, "search": {"points_tried": tried}}


def replay_native(rp):
    i = rp["input"]
    f = run(i["cls"], i["dt"], i["refrac_t"], i["refrac_lock"], 40, i.get("seed", 0))
    return {"reproduced": f is not None, "failure": f}
