from __future__ import annotations

from . import trainers as tr

_DOM = {"c08": "pair/stable STDP: sampled 1x1 histories of length 4 (all 256 pairs in thorough, length 6) x cumulative/nearest x sign modes x delay 0..2 steps; random 3x2 populations with heterogeneous delays incl. the maximum in delayed and delay-frozen modes; MSTDP scalar and per-sample signals",
        "c09": "every trainer step of the C08 sweep: parts handed to the updater are >= 0; LinearHomeostasis on weight/bias/delay with the rate above and below target"}


def sweep(tier="quick", seed=0, unsupported=()):
    f, n = tr.sweep_c08(tier, seed)
    f = [x for x in f if x["what"].startswith("C08/")]
    return {"standins": [{"function": "real trainers on real cells vs brute-force sums over spike times", "domain": _DOM["c08"], "cases": n, "proved": False, "label": "bounded"}], "failures": f}


def replay(contract, label, model, note=""):
    if contract.startswith("Conv2D.layouts"):
        from . import connections as _cx

        return _cx.replay_layouts(model)
    f, n = tr.sweep_c08("quick", 0)
    f = [x for x in f if x["what"].startswith("C08/")]
    if f:
        return {"reproduced": True, "failure": f[0], "concrete": f[0]["input"], "search": {"points_tried": n}}
    return {"reproduced": False, "search": {"points_tried": n}}


def replay_native(rp):
    f, n = tr.sweep_c08("quick", 0)
    hit = [x for x in f if x["what"] == rp.get("what")]
    return {"reproduced": bool(hit), "failure": hit[0] if hit else None}
