"""Native oracles for the trainer properties (C08, C09, C18): real trainers on small real cells vs brute-force sums
over spike times (bounded stand-ins + replay)."""
from __future__ import annotations

import itertools
import math
import random

from .common import torch
from inferno.extra import ExactNeuron
from inferno.learn import STDP, DelayAdjustedKernelSTDP, DelayAdjustedSTDP, KernelSTDP, LinearHomeostasis, MSTDP, MSTDPET, TripletSTDP
from inferno.learn.trainers.two_factor_stdp import StableSTDP
from inferno.neural import DeltaCurrent, LinearDense, Serial
from inferno import functional as F


def build(I, O, B, dt, dsteps=None, maxsteps=0):
    conn = LinearDense((I,), (O,), dt, synapse=DeltaCurrent.partialconstructor(1.0), delay=(maxsteps * dt if maxsteps else None), batch_size=B)
    conn.updater = conn.defaultupdater()
    conn.weight = torch.full((O, I), 0.5)
    if maxsteps:
        conn.delay = dsteps.float() * dt
    neuron = ExactNeuron((O,), dt, rest_v=-60.0, thresh_v=-45.0, batch_size=B)
    return conn, neuron, Serial(conn, neuron)


def pair_expected(pre, post, dsteps, dt, lr_post, lr_pre, tc_post, tc_pre, mode):
    """documented pair sum: for every post spike eta_post*exp(-(t_post-t_pre)/tau_pre) over earlier-or-simultaneous
    (delay-shifted) pre spikes (all / most recent), plus the mirror image for every pre spike."""
    T, B, I = pre.shape
    O = post.shape[2]
    dw = torch.zeros(O, I, dtype=torch.float64)
    for b, o, i in itertools.product(range(B), range(O), range(I)):
        k = int(dsteps[o, i])
        tpost = [t for t in range(T) if post[t, b, o]]
        tpre = [t + k for t in range(T) if pre[t, b, i] and t + k < T]
        tot = 0.0
        for t in tpost:
            part = [s for s in tpre if s <= t]
            if mode == "nearest":
                part = part[-1:]
            tot += lr_post * sum(math.exp(-(t - s) * dt / tc_pre) for s in part)
        for t in tpre:
            part = [u for u in tpost if u <= t]
            if mode == "nearest":
                part = part[-1:]
            tot += lr_pre * sum(math.exp(-(t - u) * dt / tc_post) for u in part)
        dw[o, i] += tot
    return dw


def run_pair(cls, pre, post, dsteps, maxsteps, dt, lr_post, lr_pre, tc_post, tc_pre, mode, delayed=True, check_parts=True, step=None, per_cell=False):
    T, B, I = pre.shape
    O = post.shape[2]
    conn, neuron, layer = build(I, O, B, dt, dsteps, maxsteps)
    if per_cell:
        # the documented cell-by-cell override: the trainer is built with DECOY hyper-parameters (opposite signs, other time
        # constants), the real ones are given when the cell is registered
        tr = cls(-lr_post, -lr_pre, tc_post + 3.0, tc_pre + 2.0, delayed=delayed, interp_tolerance=1e-4, trace_mode=mode, batch_reduction=torch.amax)
        # ... including the batch reduction: the trainer-level one (amax) is a decoy too, the cell's own is the sum
        tr.register_cell("cell", layer.cell, lr_post=lr_post, lr_pre=lr_pre, tc_post=tc_post, tc_pre=tc_pre, batch_reduction=torch.sum)
    else:
        tr = cls(lr_post, lr_pre, tc_post, tc_pre, delayed=delayed, interp_tolerance=1e-4, trace_mode=mode, batch_reduction=torch.sum)
        tr.register_cell("cell", layer.cell)
    w0 = conn.weight.clone().double()
    inp = dict(trainer=cls.__name__, pre=pre.int().tolist(), post=post.int().tolist(), delays=dsteps.tolist(), dt=dt, lr_post=lr_post, lr_pre=lr_pre, mode=mode, delayed=delayed, per_cell_hyperparameters=per_cell)
    with torch.no_grad():
        for t in range(T):
            layer(pre[t].float(), neuron_kwargs={"override": post[t]})
            tr() if step is None else step(tr)
            if check_parts:
                p, n = conn.updater.weight.pos, conn.updater.weight.neg
                for nm, x in (("pos", p), ("neg", n)):
                    if x is not None and (x < -1e-9).any():
                        return {"what": f"C09/{cls.__name__}/{nm}_negative", "input": dict(inp, step=t), "expected": ">=0", "actual": x.min().item()}
        conn.update()
    actual = conn.weight.double() - w0
    exp = pair_expected(pre, post, dsteps, dt, lr_post, lr_pre, tc_post, tc_pre, mode)  # delay-frozen mode observes the delay-offset views: same shift
    if not torch.allclose(actual, exp, atol=2e-4, rtol=1e-4):
        return {"what": f"C08/{cls.__name__}/pair_sum", "input": inp, "expected": exp.tolist(), "actual": actual.tolist()}
    return None


def triplet_expected(pre, post, dsteps, dt, a_post, b_post, a_pre, b_pre, tc_pf, tc_ps, tc_qf, tc_qs):
    """documented triplet rule (cumulative traces): each pair term is multiplied by 1 + |b/a| * (slow trace of the
    triggering population one step earlier); presynaptic spike times are shifted by the synaptic delay."""
    T, B, I = pre.shape
    O = post.shape[2]
    dw = torch.zeros(O, I, dtype=torch.float64)
    for b, o, i in itertools.product(range(B), range(O), range(I)):
        k = int(dsteps[o, i])
        tpost = [t for t in range(T) if post[t, b, o]]
        tpre = [t + k for t in range(T) if pre[t, b, i] and t + k < T]
        tot = 0.0
        for t in tpost:
            pair = sum(math.exp(-(t - s) * dt / tc_pf) for s in tpre if s <= t)
            slow = sum(math.exp(-(t - 1 - u) * dt / tc_qs) for u in tpost if u <= t - 1)
            tot += a_post * pair * (1 + abs(b_post / a_post) * slow)
        for t in tpre:
            pair = sum(math.exp(-(t - u) * dt / tc_qf) for u in tpost if u <= t)
            slow = sum(math.exp(-(t - 1 - s2) * dt / tc_ps) for s2 in tpre if s2 <= t - 1)
            tot += a_pre * pair * (1 + abs(b_pre / a_pre) * slow)
        dw[o, i] += tot
    return dw


def per_cell_equivalence(cls, names, values, pre, post, step, extra=None, maxdelay=0.0, param="weight"):
    """relational oracle for the documented cell-by-cell override: a trainer built with `values` and a trainer built with
    decoys (opposite-sign learning rates, other time constants) whose cell is registered with `values` must change the
    weights identically over the same spike history"""
    T, B, I = pre.shape
    O = post.shape[2]
    out = []
    for per_cell in (False, True):
        if maxdelay:
            conn = LinearDense((I,), (O,), 1.0, synapse=DeltaCurrent.partialconstructor(1.0), delay=maxdelay, batch_size=B)
            conn.updater = conn.defaultupdater()
            conn.weight = torch.full((O, I), 0.5)
            conn.delay = torch.tensor([[0.0, 2.0, 0.5], [1.5, 2.0, 1.0]])[:O, :I].clone()
            neuron = ExactNeuron((O,), 1.0, rest_v=-60.0, thresh_v=-45.0, batch_size=B)
            layer = Serial(conn, neuron)
        else:
            conn, neuron, layer = build(I, O, B, 1.0, torch.zeros(O, I, dtype=torch.long), 0)
        if per_cell:
            decoy = [(-v if n.startswith("lr") else v + 2.5) for n, v in zip(names, values)]
            tr = cls(*decoy, batch_reduction=torch.amax, **(extra or {}))
            tr.register_cell("cell", layer.cell, batch_reduction=torch.sum, **dict(zip(names, values)))
        else:
            tr = cls(*values, batch_reduction=torch.sum, **(extra or {}))
            tr.register_cell("cell", layer.cell)
        w0 = getattr(conn, param).clone().double()
        with torch.no_grad():
            for t in range(T):
                layer(pre[t].float(), neuron_kwargs={"override": post[t]})
                step(tr, t)
            conn.update()
        out.append(getattr(conn, param).double() - w0)
    if not torch.allclose(out[0], out[1], atol=1e-6, rtol=1e-5):
        return {"what": f"{'C18' if maxdelay else 'C09'}/{cls.__name__}/per_cell_hyperparameters_differ_from_constructor_ones", "input": dict(trainer=cls.__name__, names=names, values=values, pre=pre.int().tolist(), post=post.int().tolist()), "expected": out[0].tolist(), "actual": out[1].tolist()}
    return None


def run_triplet(pre, post, dsteps, maxsteps, dt, a_post, b_post, a_pre, b_pre, delayed=True):
    T, B, I = pre.shape
    O = post.shape[2]
    conn, neuron, layer = build(I, O, B, dt, dsteps, maxsteps)
    tcs = dict(tc_post_fast=10.0, tc_post_slow=40.0, tc_pre_fast=8.0, tc_pre_slow=30.0)
    tr = TripletSTDP(lr_post_pair=a_post, lr_post_triplet=b_post, lr_pre_pair=a_pre, lr_pre_triplet=b_pre, delayed=delayed, interp_tolerance=1e-4, trace_mode="cumulative", batch_reduction=torch.sum, **tcs)
    tr.register_cell("cell", layer.cell)
    w0 = conn.weight.clone().double()
    inp = dict(trainer="TripletSTDP", pre=pre.int().tolist(), post=post.int().tolist(), delays=dsteps.tolist(), dt=dt, rates=[a_post, b_post, a_pre, b_pre], delayed=delayed)
    try:
        with torch.no_grad():
            for t in range(T):
                layer(pre[t].float(), neuron_kwargs={"override": post[t]})
                tr()
            conn.update()
    except Exception as e:
        return {"what": "C08/TripletSTDP/exception", "input": inp, "expected": "update", "actual": f"{type(e).__name__}: {e}"}
    actual = conn.weight.double() - w0
    exp = triplet_expected(pre, post, dsteps, dt, a_post, b_post, a_pre, b_pre, tcs["tc_pre_fast"], tcs["tc_pre_slow"], tcs["tc_post_fast"], tcs["tc_post_slow"])
    if not torch.allclose(actual, exp, atol=5e-4, rtol=1e-4):
        return {"what": "C08/TripletSTDP/triplet_sum", "input": inp, "expected": exp.tolist(), "actual": actual.tolist()}
    return None


def run_mstdp(pre, post, signal, scale, dt, lr_post, lr_pre, tc_post, tc_pre, per_sample):
    T, B, I = pre.shape
    O = post.shape[2]
    conn, neuron, layer = build(I, O, B, dt, torch.zeros(O, I, dtype=torch.long), 0)
    tr = MSTDP(lr_post, lr_pre, tc_post, tc_pre, batch_reduction=torch.sum)
    tr.register_cell("cell", layer.cell)
    w0 = conn.weight.clone().double()
    exp = torch.zeros(O, I, dtype=torch.float64)
    inp = dict(trainer="MSTDP", pre=pre.int().tolist(), post=post.int().tolist(), signal=[float(s) for s in signal], scale=scale, per_sample=per_sample)
    with torch.no_grad():
        for t in range(T):
            layer(pre[t].float(), neuron_kwargs={"override": post[t]})
            sig = torch.tensor([signal[(t + b) % len(signal)] for b in range(B)]) if per_sample else signal[t % len(signal)]
            tr(sig, scale)
            p, n = conn.updater.weight.pos, conn.updater.weight.neg
            for nm, x in (("pos", p), ("neg", n)):
                if x is not None and (x < -1e-9).any():
                    return {"what": f"C09/MSTDP/{nm}_negative", "input": dict(inp, step=t), "expected": ">=0", "actual": x.min().item()}
            for b in range(B):
                one = pair_expected(pre[: t + 1, b:b + 1], post[: t + 1, b:b + 1], torch.zeros(O, I, dtype=torch.long), dt, lr_post, lr_pre, tc_post, tc_pre, "cumulative") - (
                    pair_expected(pre[:t, b:b + 1], post[:t, b:b + 1], torch.zeros(O, I, dtype=torch.long), dt, lr_post, lr_pre, tc_post, tc_pre, "cumulative") if t else 0)
                s = float(sig[b]) if per_sample else float(sig)
                exp += one * s * scale
        conn.update()
    actual = conn.weight.double() - w0
    if not torch.allclose(actual, exp, atol=2e-4, rtol=1e-4):
        return {"what": "C08/MSTDP/signal_scaled_sum", "input": inp, "expected": exp.tolist(), "actual": actual.tolist()}
    return None


def run_da(pre, post, dsteps_frac, maxdelay, dt, lr_pos, lr_neg, tc_pos, tc_neg, override=None):
    """DelayAdjustedSTDP and DelayAdjustedKernelSTDP vs the formula on true last spike times."""
    T, B, I = pre.shape
    O = post.shape[2]
    res = {}
    inp = dict(pre=pre.int().tolist(), post=post.int().tolist(), delays=dsteps_frac.tolist(), dt=dt, lr_pos=lr_pos, lr_neg=lr_neg, override=override)
    for name in ("da", "kernel"):
        conn, neuron, layer = build(I, O, B, dt, torch.zeros(O, I), 0)
        conn = LinearDense((I,), (O,), dt, synapse=DeltaCurrent.partialconstructor(1.0), delay=maxdelay, batch_size=B)
        conn.updater = conn.defaultupdater()
        conn.weight = torch.full((O, I), 0.5)
        conn.delay = dsteps_frac.clone()
        neuron = ExactNeuron((O,), dt, rest_v=-60.0, thresh_v=-45.0, batch_size=B)
        layer = Serial(conn, neuron)
        base = dict(lr_pos=lr_pos, lr_neg=lr_neg, tc_pos=tc_pos, tc_neg=tc_neg)
        if override:
            ctor = dict(lr_pos=abs(lr_pos), lr_neg=-abs(lr_neg), tc_pos=tc_pos + 3, tc_neg=tc_neg + 2)
        else:
            ctor = base
        if name == "da":
            tr = DelayAdjustedSTDP(ctor["lr_pos"], ctor["lr_neg"], ctor["tc_pos"], ctor["tc_neg"], batch_reduction=torch.sum)
            tr.register_cell("cell", layer.cell, **(base if override else {}))
        else:
            # kernel hyper-parameters as TENSORS when `override` is set (documented as supported; they travel as buffers)
            wrap_ = (lambda v: torch.tensor(float(v))) if override else (lambda v: v)
            tr = DelayAdjustedKernelSTDP(F.exp_stdp_post_kernel, F.exp_stdp_pre_kernel, dict(learning_rate=wrap_(lr_pos), time_constant=wrap_(tc_pos)), dict(learning_rate=wrap_(lr_neg), time_constant=wrap_(tc_neg)), batch_reduction=torch.sum)
            tr.register_cell("cell", layer.cell)
        dws = []
        last_pre = [[None] * I for _ in range(B)]
        last_post = [[None] * O for _ in range(B)]
        with torch.no_grad():
            for t in range(T):
                layer(pre[t].float(), neuron_kwargs={"override": post[t]})
                for b in range(B):
                    for i in range(I):
                        if pre[t, b, i]:
                            last_pre[b][i] = t * dt
                    for o in range(O):
                        if post[t, b, o]:
                            last_post[b][o] = t * dt
                w0 = conn.weight.clone().double()
                tr()
                conn.update()
                dw = conn.weight.double() - w0
                exp = torch.zeros(O, I, dtype=torch.float64)
                for b, o, i in itertools.product(range(B), range(O), range(I)):
                    if last_pre[b][i] is None or last_post[b][o] is None:
                        continue
                    td = last_post[b][o] - last_pre[b][i] - float(dsteps_frac[o, i])
                    exp[o, i] += lr_pos * math.exp(-abs(td) / tc_pos) if td >= 0 else lr_neg * math.exp(-abs(td) / tc_neg)
                if not torch.allclose(dw, exp, atol=1e-4, rtol=1e-4):
                    return {"what": f"C18/{'DelayAdjustedSTDP' if name == 'da' else 'DelayAdjustedKernelSTDP'}/formula", "input": dict(inp, step=t), "expected": exp.tolist(), "actual": dw.tolist()}
                dws.append(dw)
        res[name] = dws
    for t, (a, b_) in enumerate(zip(res["da"], res["kernel"])):
        if not torch.allclose(a, b_, atol=1e-5):
            return {"what": "C18/kernel_vs_delay_adjusted", "input": dict(inp, step=t), "expected": a.tolist(), "actual": b_.tolist()}
    return None


def run_homeostasis(param, above):
    """rate above (below) target must move the parameter so that the rate falls (rises): weight/bias down (up),
    delay up (down); and both parts handed to the updater must be non-negative."""
    conn = LinearDense((3,), (2,), 1.0, synapse=DeltaCurrent.partialconstructor(1.0), bias=True, delay=2.0, batch_size=1)
    conn.updater = conn.defaultupdater()
    neuron = ExactNeuron((2,), 1.0, rest_v=-60.0, thresh_v=-45.0, batch_size=1)
    layer = Serial(conn, neuron)
    tr = LinearHomeostasis(0.1, 0.5, param, batch_reduction=torch.sum)
    tr.register_cell("cell", layer.cell)
    p0 = getattr(conn, param).detach().clone()
    inp = dict(param=param, above=above)
    with torch.no_grad():
        for t in range(10):
            post = torch.ones(1, 2, dtype=torch.bool) if above else torch.zeros(1, 2, dtype=torch.bool)
            layer(torch.ones(1, 3), neuron_kwargs={"override": post})
        tr()
        acc = getattr(conn.updater, param)
        for nm, x in (("pos", acc.pos), ("neg", acc.neg)):
            if x is not None and (x < -1e-9).any():
                return {"what": "C09/LinearHomeostasis/part_negative", "input": dict(inp, part=nm), "expected": ">=0", "actual": x.min().item()}
        conn.update()
    d = (getattr(conn, param).detach() - p0)
    want_up = (not above) if param != "delay" else above
    ok = (d >= -1e-9).all() if want_up else (d <= 1e-9).all()
    if not ok or d.abs().max() < 1e-9:
        return {"what": "C09/LinearHomeostasis/direction", "input": inp, "expected": "up" if want_up else "down", "actual": d.flatten().tolist()[:4]}
    return None


def rand_trains(rnd, T, B, I, O, p=0.3):
    pre = torch.tensor([[[rnd.random() < p for _ in range(I)] for _ in range(B)] for _ in range(T)])
    post = torch.tensor([[[rnd.random() < p for _ in range(O)] for _ in range(B)] for _ in range(T)])
    return pre, post


def trace_mode_cases():
    """every trace monitor a trainer registers follows the configured trace mode - as wired (reducer class) and as
    observed: driven with a spike at every step, a nearest-mode trace never exceeds its amplitude, a cumulative one does"""
    fails, n = [], 0
    specs = [
        ("STDP", lambda m: STDP(0.5, -0.3, 10.0, 8.0, trace_mode=m), {"trace_pre": 0.5, "trace_post": 0.3}),
        ("MSTDP", lambda m: MSTDP(0.5, -0.3, 10.0, 8.0, trace_mode=m), {"trace_pre": 0.5, "trace_post": 0.3}),
        ("MSTDPET", lambda m: MSTDPET(0.5, -0.3, 10.0, 8.0, 20.0, trace_mode=m), {"trace_pre": 0.5, "trace_post": 0.3}),
        ("TripletSTDP", lambda m: TripletSTDP(0.5, 0.25, -0.3, 0.15, 10.0, 30.0, 8.0, 24.0, trace_mode=m), None),
    ]
    for cls, mk, amps in specs:
        for mode in ("nearest", "cumulative"):
            n += 1
            conn, neuron, layer = build(3, 2, 1, 1.0, torch.zeros(2, 3, dtype=torch.long), 0)
            tr = mk(mode)
            tr.register_cell("cell", layer.cell)
            want = "NearestTraceReducer" if mode == "nearest" else "CumulativeTraceReducer"
            inp = dict(trainer=cls, trace_mode=mode)
            for (cell, name), mon in tr.named_monitors:
                if name.startswith("trace_") and type(mon.reducer).__name__ != want:
                    fails.append({"what": f"C08/{cls}/trace_monitor_ignores_trace_mode", "input": dict(inp, monitor=name), "expected": want, "actual": type(mon.reducer).__name__})
            with torch.no_grad():
                for _ in range(4):
                    layer(torch.ones(1, 3), neuron_kwargs={"override": torch.ones(1, 2, dtype=torch.bool)})
            for (cell, name), mon in tr.named_monitors:
                if amps and name in amps:
                    peak = float(mon.peek().abs().max())
                    ok = peak <= amps[name] + 1e-6 if mode == "nearest" else peak > amps[name] + 1e-6
                    if not ok:
                        fails.append({"what": f"C08/{cls}/trace_behaviour_ignores_trace_mode", "input": dict(inp, monitor=name), "expected": ("<= " if mode == "nearest" else "> ") + str(amps[name]), "actual": peak})
    uniq = []
    for f in fails:
        if not any(u["what"] == f["what"] for u in uniq):
            uniq.append(f)
    return uniq, n


def pooling_tag_cases():
    """two cells that share their postsynaptic population but are registered with DIFFERENT postsynaptic time constants
    (cell-by-cell override): their postsynaptic trace monitors must not be pooled and each decays with its own constant;
    with equal settings they are pooled"""
    from . import c15 as _c15

    fails = []
    for tc_b, pooled in ((20.0, True), (5.0, False)):
        lay = _c15.layer()
        tr = STDP(1e-2, -5e-3, 20.0, 15.0)
        tr.register_cell("a", lay.cells.c1.n)
        tr.register_cell("b", lay.cells.c2.n, tc_post=tc_b)
        ma, mb = tr.get_monitor("a", "trace_post"), tr.get_monitor("b", "trace_post")
        inp = dict(tc_post_a=20.0, tc_post_b=tc_b)
        if (ma is mb) != pooled:
            fails.append({"what": "C08/pooling_tags/pooled_iff_same_settings", "input": inp, "expected": pooled, "actual": ma is mb})
            continue
        if not pooled:
            with torch.no_grad():
                for t in range(6):
                    lay({"c1": (torch.ones(1, 3) * (1.0 if t < 2 else 0.0),), "c2": (torch.ones(1, 3) * (1.0 if t < 2 else 0.0),)})
            da, db = float(mb.reducer.decay), float(ma.reducer.decay)
            if abs(float(ma.reducer.time_constant) - 20.0) > 1e-9 or abs(float(mb.reducer.time_constant) - tc_b) > 1e-9:
                fails.append({"what": "C08/pooling_tags/each_cell_keeps_its_own_time_constant", "input": inp, "expected": [20.0, tc_b], "actual": [float(ma.reducer.time_constant), float(mb.reducer.time_constant)]})
    return fails, 2


def sweep_c08(tier, seed):
    failures, cases = [], 0
    rnd = random.Random(seed)

    def add(f):
        if f is not None and not any(x["what"] == f["what"] for x in failures):
            failures.append(f)

    L = 4 if tier == "quick" else 6
    # exhaustive 1x1 histories
    hists = list(itertools.product((0, 1), repeat=L))
    combos = list(itertools.product(hists, hists))
    if tier == "quick":
        combos = rnd.sample(combos, 60)
    for hp, hq in combos:
        pre = torch.tensor(hp, dtype=torch.bool).view(L, 1, 1)
        post = torch.tensor(hq, dtype=torch.bool).view(L, 1, 1)
        for cls, mode, (lp, lq), k in ((STDP, "cumulative", (0.4, -0.3), 0), (STDP, "nearest", (-0.4, 0.3), 1), (StableSTDP, "cumulative", (0.4, 0.3), 2), (StableSTDP, "nearest", (-0.2, -0.3), 0)):
            cases += 1
            add(run_pair(cls, pre, post, torch.tensor([[k]]), k, 1.0, lp, lq, 10.0, 8.0, mode))
    # random populations with heterogeneous delays incl. the maximum, delayed and delay-frozen modes
    for _ in range(6 if tier == "quick" else 60):
        pre, post = rand_trains(rnd, 14, 2, 3, 2)
        ds = torch.tensor([[0, 3, 1], [2, 3, 0]])
        for cls in (STDP, StableSTDP):
            for delayed in (True, False):
                cases += 1
                add(run_pair(cls, pre, post, ds, 3, rnd.choice([1.0, 0.5]), rnd.choice([0.5, -0.5]), rnd.choice([0.3, -0.3]), 12.0, 9.0, rnd.choice(["cumulative", "nearest"]), delayed=delayed))
        # hyper-parameters given per cell, decoys of the opposite sign on the trainer (all four sign modes)
        for lp, lq in ((0.5, 0.3), (-0.5, -0.3), (0.5, -0.3), (-0.5, 0.3)):
            cases += 2
            f = run_pair(STDP, pre, post, ds, 3, 1.0, lp, lq, 12.0, 9.0, "cumulative", per_cell=True)
            add(None if f is None else dict(f, what=f["what"] + "/per_cell"))
            f = run_pair(MSTDP, pre, post, ds, 3, 1.0, lp, lq, 12.0, 9.0, "cumulative", check_parts=False, per_cell=True, step=lambda tr: tr(-1.0, 1.0))
            # a reward of -1 flips the direction: expected is the negated pair sum
            if f is not None and f["what"].endswith("pair_sum"):
                neg = [[-v for v in row] for row in f["expected"]]
                f = None if all(abs(a - e) < 2e-4 + 1e-4 * abs(e) for ra, re_ in zip(f["actual"], neg) for a, e in zip(ra, re_)) else dict(f, expected=neg, what=f["what"].replace("/MSTDP/pair_sum", "/MSTDP/negative_reward_pair_sum/per_cell"))
            add(f)
        for lp, lq in ((0.5, 0.3), (-0.5, -0.3), (0.5, -0.3), (-0.5, 0.3)):
            for sig in (1.0, -0.75):
                cases += 2
                add(per_cell_equivalence(MSTDPET, ["lr_post", "lr_pre", "tc_post", "tc_pre", "tc_eligibility"], [lp, lq, 12.0, 9.0, 20.0], pre, post, lambda tr, t, sig=sig: tr(sig, 1.0)))
                add(per_cell_equivalence(MSTDP, ["lr_post", "lr_pre", "tc_post", "tc_pre"], [lp, lq, 12.0, 9.0], pre, post, lambda tr, t, sig=sig: tr(sig, 1.0)))
        cases += 4
        add(run_triplet(pre, post, ds, 3, 1.0, 0.6, 0.4, -0.5, 0.3, delayed=True))
        add(run_triplet(pre, post, torch.zeros(2, 3, dtype=torch.long), 0, 1.0, -0.6, 0.4, 0.5, 0.3, delayed=False))
        add(run_mstdp(pre, post, [0.7, -1.2, 0.0, 2.0], 0.5, 1.0, 0.4, -0.3, 10.0, 8.0, per_sample=False))
        add(run_mstdp(pre, post, [0.7, -1.2, 0.0, 2.0], 0.5, 1.0, 0.4, -0.3, 10.0, 8.0, per_sample=True))
        # per-sample rewards that leave one of the two groups (signal >= 0 / < 0) empty, in every sign mode
        for lp, lq in ((0.4, 0.3), (-0.4, -0.3), (0.4, -0.3), (-0.4, 0.3)):
            for sig in ([-0.7, -1.2, -0.4, -2.0], [0.7, 1.2, 0.0, 2.0]):
                cases += 1
                f = run_mstdp(pre, post, sig, 0.5, 1.0, lp, lq, 10.0, 8.0, per_sample=True)
                add(None if f is None else dict(f, what=f["what"] + "/one_sided_batch"))
        # reward-modulated rule with a unit reward is the pair rule: exercises its delayed / delay-frozen modes
        for delayed in (True, False):
            cases += 1
            f = run_pair(MSTDP, pre, post, ds, 3, 1.0, 0.5, -0.3, 12.0, 9.0, "cumulative", delayed=delayed, check_parts=False, step=lambda tr: tr(1.0, 1.0))
            add(None if f is None else dict(f, what=f["what"].replace("/MSTDP/pair_sum", "/MSTDP/pair_sum_with_delays")))
    fd, nd = trainer_defaults(only=("STDP", "MSTDP", "MSTDPET"), prefix="C08")
    failures.extend(fd)
    cases += nd
    fm, nm = trace_mode_cases()
    failures.extend(fm)
    cases += nm
    ft, nt = pooling_tag_cases()
    failures.extend(ft)
    cases += nt
    return failures, cases


def trainer_defaults(only=None, prefix="C18"):
    """real constructors with documented positional hyper-parameters: the per-cell state built by the real
    _build_cell_state carries each value under its own name and the documented default batch reduction (mean for the
    two-factor rules, sum for the reward-modulated ones) unless one is configured"""
    import inferno.learn as TR
    from inferno.functional import exp_stdp_post_kernel, exp_stdp_pre_kernel

    table = {
        "STDP": (["lr_post", "lr_pre", "tc_post", "tc_pre"], torch.mean),
        "MSTDP": (["lr_post", "lr_pre", "tc_post", "tc_pre"], torch.sum),
        "MSTDPET": (["lr_post", "lr_pre", "tc_post", "tc_pre", "tc_eligibility"], torch.sum),
        "DelayAdjustedSTDP": (["lr_pos", "lr_neg", "tc_pos", "tc_neg"], torch.mean),
        "DelayAdjustedSTDPD": (["lr_neg", "lr_pos", "tc_neg", "tc_pos"], torch.mean),
        "DelayAdjustedMSTDP": (["lr_pos", "lr_neg", "tc_pos", "tc_neg"], torch.sum),
        "DelayAdjustedMSTDPD": (["lr_neg", "lr_pos", "tc_neg", "tc_pos"], torch.sum),
        "KernelSTDP": (None, torch.mean),
        "DelayAdjustedKernelSTDP": (None, torch.mean),
        "DelayAdjustedKernelSTDPD": (None, torch.mean),
    }
    fails, n = [], 0
    for cls, (names, red) in table.items():
        if only and cls not in only:
            continue
        C = getattr(TR, cls, None)
        if C is None:
            continue
        n += 1
        if names is None:
            args = [exp_stdp_post_kernel, exp_stdp_pre_kernel, dict(learning_rate=0.5, time_constant=10.0), dict(learning_rate=-0.25, time_constant=12.0)]
            vals = {}
        else:
            vals = {nm: (0.5 + 0.125 * i if nm.startswith("lr_") else 10.0 + i) for i, nm in enumerate(names)}
            args = [vals[nm] for nm in names]
        try:
            tr = C(*args)
            st = tr._build_cell_state()
        except Exception as e:  # noqa: BLE001
            fails.append({"what": f"{prefix}/defaults/{cls}/constructor", "input": dict(trainer=cls), "expected": "constructs", "actual": f"{type(e).__name__}: {e}"})
            continue
        if st.batchreduce is not red:
            fails.append({"what": f"{prefix}/defaults/{cls}/batch_reduction", "input": dict(trainer=cls), "expected": red.__name__, "actual": getattr(st.batchreduce, "__name__", str(st.batchreduce))})
        for nm, v in vals.items():
            got = getattr(st, nm, None)
            if got is None or abs(float(got) - v) > 1e-12:
                fails.append({"what": f"{prefix}/defaults/{cls}/{nm}", "input": dict(trainer=cls), "expected": v, "actual": got})
                break
        if names is None:
            # one side's kernel arguments overridden for a cell: the other side keeps the trainer's
            for side, other, keep in (("post", "pre", dict(learning_rate=-0.25, time_constant=12.0)), ("pre", "post", dict(learning_rate=0.5, time_constant=10.0))):
                st2 = tr._build_cell_state(**{f"kernel_{side}_kwargs": dict(learning_rate=0.125, time_constant=3.0)})
                got_o = dict(getattr(st2, f"kernel_{other}_kwargs"))
                got_s = dict(getattr(st2, f"kernel_{side}_kwargs"))
                if got_o != keep or got_s != dict(learning_rate=0.125, time_constant=3.0):
                    fails.append({"what": f"{prefix}/defaults/{cls}/per_cell_kernel_override", "input": dict(trainer=cls, overridden=side), "expected": {side: dict(learning_rate=0.125, time_constant=3.0), other: keep}, "actual": {side: got_s, other: got_o}})
                    break
        custom = lambda x, dim=None, keepdim=False: x.sum(dim, keepdim=keepdim)  # noqa: E731
        if C(*args, batch_reduction=custom)._build_cell_state().batchreduce is not custom or tr._build_cell_state(batch_reduction=custom).batchreduce is not custom:
            fails.append({"what": f"{prefix}/defaults/{cls}/configured_reduction_ignored", "input": dict(trainer=cls), "expected": "custom", "actual": "other"})
    return fails, n


def kernel_tensor_kwargs_case(pre, post):
    """KernelSTDP with its kernel hyper-parameters given as tensors must change the weights exactly as with plain numbers"""
    T, B, I = pre.shape
    O = post.shape[2]
    out = []
    for as_t in (False, True):
        conn, neuron, layer = build(I, O, B, 1.0, torch.zeros(O, I, dtype=torch.long), 0)
        w = (lambda v: torch.tensor(float(v))) if as_t else (lambda v: v)
        tr = KernelSTDP(F.exp_stdp_post_kernel, F.exp_stdp_pre_kernel, dict(learning_rate=w(0.5), time_constant=w(15.0)), dict(learning_rate=w(-0.3), time_constant=w(7.0)), batch_reduction=torch.sum)
        tr.register_cell("cell", layer.cell)
        w0 = conn.weight.clone().double()
        with torch.no_grad():
            for t in range(T):
                layer(pre[t].float(), neuron_kwargs={"override": post[t]})
                tr()
            conn.update()
        out.append(conn.weight.double() - w0)
    if not torch.allclose(out[0], out[1], atol=1e-6, rtol=1e-5):
        return {"what": "C18/KernelSTDP/tensor_hyperparameters_differ_from_numbers", "input": dict(pre=pre.int().tolist(), post=post.int().tolist()), "expected": out[0].tolist(), "actual": out[1].tolist()}
    return None


def two_cells_one_layer_case():
    """two cells of ONE layer (two connections into one neuron group) on one delay-adjusted trainer: each cell's rule reads
    the spike times of ITS OWN connection - a cell whose presynaptic side has not spiked yet is not changed, whatever the
    other connection does"""
    from inferno.neural import Biclique
    from inferno.learn import DelayAdjustedSTDP, DelayAdjustedSTDPD

    fails, n = [], 0
    for cls, par in ((DelayAdjustedSTDP, "weight"), (DelayAdjustedSTDPD, "delay")):
        n += 1
        conns = {}
        for name in ("ca", "cb"):
            cn = LinearDense((3,), (2,), 1.0, synapse=DeltaCurrent.partialconstructor(1.0), delay=2.0, batch_size=1)
            cn.updater = cn.defaultupdater()
            cn.weight = torch.full((2, 3), 0.5)
            cn.delay = torch.tensor([[0.0, 2.0, 0.5], [1.5, 2.0, 1.0]])
            conns[name] = cn
        neuron = ExactNeuron((2,), 1.0, rest_v=-60.0, thresh_v=-45.0, batch_size=1)
        lay = Biclique([("ca", conns["ca"]), ("cb", conns["cb"])], [("n", neuron)])
        tr = cls(0.5, -0.4, 15.0, 11.0, batch_reduction=torch.sum)
        tr.register_cell("a", lay.cells.ca.n)
        tr.register_cell("b", lay.cells.cb.n)
        before = getattr(conns["cb"], par).clone()
        try:
            with torch.no_grad():
                for t in range(8):
                    post = torch.tensor([[t % 3 == 2, t % 4 == 3]])
                    lay({"ca": (torch.tensor([[1.0, float(t % 2), 0.0]]),), "cb": (torch.zeros(1, 3),)}, neuron_kwargs={"n": {"override": post}})
                    tr()
                conns["cb"].update()
        except Exception as e:  # noqa: BLE001
            fails.append({"what": f"C18/{cls.__name__}/two_cells_one_layer_exception", "input": dict(trainer=cls.__name__), "expected": "runs", "actual": f"{type(e).__name__}: {e}"})
            continue
        after = getattr(conns["cb"], par)
        if not torch.equal(before, after):
            fails.append({"what": f"C18/{cls.__name__}/silent_connection_changed_by_the_other_cells_spike_times", "input": dict(trainer=cls.__name__, scenario="Biclique ca, cb -> n; only ca receives presynaptic spikes"), "expected": before.tolist(), "actual": after.tolist()})
    return fails, n


def sweep_c18(tier, seed):
    failures, cases = [], 0
    rnd = random.Random(seed + 1)
    for _ in range(6 if tier == "quick" else 60):
        pre, post = rand_trains(rnd, 12, 1, 3, 2, 0.35)
        ds = torch.tensor([[0.0, 2.0, 0.5], [1.5, 2.0, 1.0]])
        for signs in ((0.5, -0.4), (-0.5, 0.4), (0.5, 0.3), (-0.5, -0.3)):
            for override in (None, True):
                cases += 1
                f = run_da(pre, post, ds, 2.0, 1.0, signs[0], signs[1], 15.0, 11.0, override=override)
                if f is not None and not any(x["what"] == f["what"] for x in failures):
                    failures.append(f)
    from inferno.learn import DelayAdjustedMSTDP, DelayAdjustedMSTDPD, DelayAdjustedSTDPD

    rnd3 = random.Random(seed + 13)
    for _ in range(2 if tier == "quick" else 10):
        pre, post = rand_trains(rnd3, 12, 1, 3, 2, 0.35)
        cases += 1
        f = kernel_tensor_kwargs_case(pre, post)
        if f is not None and not any(x["what"] == f["what"] for x in failures):
            failures.append(f)
    rnd2 = random.Random(seed + 7)
    for _ in range(3 if tier == "quick" else 20):
        pre, post = rand_trains(rnd2, 12, 1, 3, 2, 0.35)
        for lp, ln in ((0.5, -0.4), (-0.5, 0.4), (0.5, 0.3), (-0.5, -0.3)):
            for cls, names, vals, par, stp in (
                (DelayAdjustedSTDP, ["lr_pos", "lr_neg", "tc_pos", "tc_neg"], [lp, ln, 15.0, 11.0], "weight", lambda tr, t: tr()),
                (DelayAdjustedSTDPD, ["lr_neg", "lr_pos", "tc_neg", "tc_pos"], [ln, lp, 11.0, 15.0], "delay", lambda tr, t: tr()),
                (DelayAdjustedMSTDP, ["lr_pos", "lr_neg", "tc_pos", "tc_neg"], [lp, ln, 15.0, 11.0], "weight", lambda tr, t: tr(-0.75, 1.0)),
                (DelayAdjustedMSTDPD, ["lr_neg", "lr_pos", "tc_neg", "tc_pos"], [ln, lp, 11.0, 15.0], "delay", lambda tr, t: tr(0.5, 1.0)),
            ):
                cases += 1
                f = per_cell_equivalence(cls, names, vals, pre, post, stp, maxdelay=2.0, param=par)
                if f is not None and not any(x["what"] == f["what"] for x in failures):
                    failures.append(f)
    f2, n2 = two_cells_one_layer_case()
    failures.extend(f2)
    cases += n2
    fd, nd = trainer_defaults(only=("DelayAdjustedSTDP", "DelayAdjustedSTDPD", "DelayAdjustedMSTDP", "DelayAdjustedMSTDPD", "KernelSTDP", "DelayAdjustedKernelSTDP", "DelayAdjustedKernelSTDPD"))
    failures.extend(fd)
    cases += nd
    return failures, cases


def sweep_c09(tier, seed):
    f8, n8 = sweep_c08(tier, seed)
    failures = [x for x in f8 if x["what"].startswith("C09/")]
    # "the parts net to the signed rule": a reward-modulated step whose applied change differs from the rule is a C09 failure too
    failures += [dict(x, what="C09/net_is_signed_rule/" + x["what"].split("/", 1)[1]) for x in f8 if x["what"].startswith("C08/MSTDP/signal_scaled_sum") or x["what"].endswith("/per_cell")]
    failures += [x for x in f8 if "per_cell_hyperparameters" in x["what"] and x not in failures]
    cases = n8
    # the delay-adjusted rules split into potentiating / depressing parts by the PER-CELL learning-rate signs as well
    from inferno.learn import DelayAdjustedSTDPD

    rnd2 = random.Random(seed + 11)
    for _ in range(2 if tier == "quick" else 10):
        pre, post = rand_trains(rnd2, 12, 1, 3, 2, 0.35)
        for lp, ln in ((0.5, -0.4), (-0.5, 0.4), (0.5, 0.3), (-0.5, -0.3)):
            for cls, names, vals, par in ((DelayAdjustedSTDP, ["lr_pos", "lr_neg", "tc_pos", "tc_neg"], [lp, ln, 15.0, 11.0], "weight"), (DelayAdjustedSTDPD, ["lr_neg", "lr_pos", "tc_neg", "tc_pos"], [ln, lp, 11.0, 15.0], "delay")):
                cases += 1
                f = per_cell_equivalence(cls, names, vals, pre, post, lambda tr, t: tr(), maxdelay=2.0, param=par)
                if f is not None:
                    f = dict(f, what=f["what"].replace("C18/", "C09/"))
                    if not any(x["what"] == f["what"] for x in failures):
                        failures.append(f)
    for param in ("weight", "bias", "delay"):
        for above in (True, False):
            cases += 1
            f = run_homeostasis(param, above)
            if f is not None:
                failures.append(f)
    return failures, cases
