"""C06 native oracle (bounded): a delayed connection against an independently simulated UNDELAYED twin synapse whose
currents are shifted by the per-synapse delay (zero before the start / after clear); all four connection kinds x four
synapse kinds, heterogeneous and homogeneous delays, representable and non-representable step times (float32)."""
from __future__ import annotations

import itertools
import random

from .common import torch
from . import connections as cx


def case(ckind, skind, dt, maxk, hetero, B, seed, steps=None, clear_at=None, bias=True, raised_from=None):
    steps = steps or (2 * maxk + 6)
    dyadic = float(dt * 8).is_integer()
    # non-representable step times: the float32 product k*dt may exceed the double-precision maximum by one ulp,
    # so the supported maximum is one step larger than the largest delay used (delays stay "at most the maximum")
    delay = (maxk if dyadic else maxk + 1) * dt
    if raised_from is None:
        conn = cx.mkconn(ckind, skind, dt, B, bias, delay, seed)
    else:
        # the supported maximum is established AFTER construction: built with a smaller maximum, raised through synapse.delay
        conn = cx.mkconn(ckind, skind, dt, B, bias, raised_from * dt, seed)
        conn.synapse.delay = delay
    twin = cx.mkconn(ckind, skind, dt, B, bias, None, seed).synapse  # undelayed synapse, same parameters
    g = torch.Generator().manual_seed(seed + 7)
    w = conn.weight.detach()
    if hetero:
        dsteps = torch.randint(0, maxk + 1, tuple(w.shape), generator=g)
    else:
        dsteps = torch.full(tuple(w.shape), maxk)
    # delays are multiples of the step time in the arithmetic the library itself uses (float32 product k * dt)
    conn.delay = dsteps.to(torch.float32) * dt
    if ckind == "lateral":
        dsteps = dsteps * (1 - torch.eye(w.shape[0], dtype=torch.long))
    inp = dict(conn=ckind, syn=skind, dt=dt, max_delay_steps=maxk, heterogeneous=hetero, B=B, seed=seed, clear_at=clear_at, raised_from=raised_from)
    hist = []
    for t, x in enumerate(cx.drive(conn, B, steps, seed, rate=0.5)):
        if clear_at is not None and t == clear_at:
            conn.clear()
            twin.clear()
            hist = []
        out = conn(x)
        hist.append(twin(conn.like_synaptic(x)).clone())
        exp = cx.delayed_reference(ckind, conn, hist, len(hist) - 1, dsteps)
        if tuple(out.shape) != tuple(exp.shape) or not torch.allclose(out, exp, atol=1e-4, rtol=1e-4):
            err = (out - exp).abs().max().item() if tuple(out.shape) == tuple(exp.shape) else "shape"
            return {"what": f"C06/{ckind}/time_shift", "input": dict(inp, step=t), "expected": exp.flatten()[:6].tolist(), "actual": out.flatten()[:6].tolist(), "max_abs_err": err}
        # learning views show the same shifted values
        sc = conn.syncurrent
        if ckind in ("dense", "lateral"):
            k = (dsteps.t().unsqueeze(0).expand(B, -1, -1))  # (B, in, out)
            ref = torch.zeros_like(sc)
            for kk in range(int(dsteps.max().item()) + 1):
                if len(hist) - 1 - kk >= 0:
                    ref = torch.where(k == kk, hist[len(hist) - 1 - kk].unsqueeze(-1).expand_as(sc), ref)
            if not torch.allclose(sc, ref, atol=1e-4, rtol=1e-4):
                return {"what": f"C06/{ckind}/syncurrent_view", "input": dict(inp, step=t), "expected": ref.flatten()[:6].tolist(), "actual": sc.flatten()[:6].tolist()}
    return None


def zero_delay_case(ckind, skind, dt, seed):
    """a connection with delays enabled but all delays 0 is indistinguishable from one without delays"""
    a = cx.mkconn(ckind, skind, dt, 2, True, 3 * dt, seed)
    b = cx.mkconn(ckind, skind, dt, 2, True, None, seed)
    a.weight = b.weight.detach().clone()
    a.bias = b.bias.detach().clone()
    for t, x in enumerate(cx.drive(a, 2, 8, seed)):
        oa, ob = a(x), b(x)
        if not torch.allclose(oa, ob, atol=1e-5):
            return {"what": f"C06/{ckind}/zero_delay_differs_from_undelayed", "input": dict(conn=ckind, syn=skind, dt=dt, step=t), "expected": ob.flatten()[:6].tolist(), "actual": oa.flatten()[:6].tolist()}
    return None


def sweep(tier="quick", seed=0, unsupported=()):
    failures, cases = [], 0

    def add(f):
        if f is not None and not any(x["what"] == f["what"] for x in failures):
            failures.append(f)

    dts = (1.0, 1.3, 0.1, 0.7) if tier == "quick" else (1.0, 0.5, 1.3, 0.1, 0.7, 0.3, 2.6)
    maxks = (1, 4, 9, 17, 33) if tier == "quick" else (1, 2, 4, 7, 9, 13, 17, 25, 33, 47)
    for ckind, skind in itertools.product(cx.CONN, cx.SYN):
        for dt in dts:
            for maxk in maxks:
                for hetero in (True, False):
                    cases += 1
                    add(case(ckind, skind, dt, maxk, hetero, 2, seed + 3))
        cases += 4
        # maximum delay raised after construction (from 1 step and from 0)
        f = case(ckind, skind, 1.0, 4, True, 2, seed + 9, raised_from=1)
        add(None if f is None else dict(f, what=f["what"] + "/maximum_delay_raised_after_construction"))
        try:
            f = case(ckind, skind, 0.5, 3, True, 2, seed + 11, raised_from=0)
        except Exception as e:  # noqa: BLE001
            f = {"what": f"C06/{ckind}/exception", "input": dict(conn=ckind, syn=skind, raised_from=0), "expected": "runs", "actual": f"{type(e).__name__}: {e}"}
        add(None if f is None else dict(f, what=f["what"] + "/maximum_delay_raised_after_construction"))
        add(case(ckind, skind, 1.3, 4, True, 3, seed + 5, steps=16, clear_at=9))
        add(zero_delay_case(ckind, skind, 1.3, seed))
    return {"standins": [{"function": "delayed LinearDense/Direct/Lateral/Conv2D x 4 synapse kinds vs an undelayed twin synapse shifted by the per-synapse delay (zero before start / after clear), syncurrent view, all-zero delays vs no delay; float32 step times incl. 1.3, 0.1, 0.7", "domain": f"{cases} cases: dt in {dts}, max delay steps in {maxks}, heterogeneous/homogeneous", "cases": cases, "proved": False, "label": "bounded"}], "failures": failures}


def replay(contract, label, model, note=""):
    if contract.startswith("Conv2D.layouts"):
        from . import connections as _cx

        return _cx.replay_layouts(model)
    if "_at[" in contract or "current_at" in contract or "spike_at" in contract:
        # a delayed read of a synapse class (contract shared with C04): its own oracle drives the real synapse
        from . import c04 as _c04

        r4 = _c04.replay(contract, label, model, note)
        if r4.get("reproduced"):
            return r4
    r = sweep("quick", 0)
    if r["failures"]:
        return {"reproduced": True, "failure": r["failures"][0], "concrete": r["failures"][0]["input"]}
    return {"reproduced": False, "search": {"points_tried": r["standins"][0]["cases"]}}


def replay_native(rp):
    i = rp["input"]
    if "max_delay_steps" in i:
        f = case(i["conn"], i["syn"], i["dt"], i["max_delay_steps"], i["heterogeneous"], i["B"], i["seed"], clear_at=i.get("clear_at"), steps=16 if i.get("clear_at") else None, raised_from=i.get("raised_from"))
    else:
        f = zero_delay_case(i["conn"], i["syn"], i["dt"], 0)
    return {"reproduced": f is not None, "failure": f}
