"""C15 native oracle (bounded): random operation sequences on REAL trainers (STDP, MSTDPET, TripletSTDP, MSTDP) over
a real Biclique layer whose two cells share their neuron (plus a second, identically named layer), one or two
trainers, incl. dropping the second trainer + gc.collect().  A reference model (dict of registered cells / monitor
names, trainer and layer modes) predicts, for every layer step, how many observations every pooled monitor of every
still-registered cell must receive (counted with a forward hook on the monitor's reducer)."""
from __future__ import annotations

import gc
import random
import weakref

from .common import torch
from inferno.learn import MSTDP, MSTDPET, STDP, TripletSTDP
from inferno.neural import LIF, Biclique, DeltaCurrent, LinearDense
from inferno.observe import PassthroughReducer, StateMonitor


def conn(seed):
    torch.manual_seed(seed)
    c = LinearDense((3,), (2,), 1.0, synapse=DeltaCurrent.partialconstructor(30.0))
    c.updater = c.defaultupdater()
    return c


def layer():
    n = LIF((2,), 1.0, rest_v=-60.0, reset_v=-65.0, thresh_v=-55.0, refrac_t=1.0, time_constant=10.0, resistance=1.0)
    return Biclique([("c1", conn(1)), ("c2", conn(2))], [("n", n)])


def mk_trainer(kind):
    if kind == "stdp":
        return STDP(1e-2, -5e-3, 20.0, 15.0)
    if kind == "stdp_b":  # same monitor names, different settings
        return STDP(2e-2, -1e-3, 7.0, 9.0)
    if kind == "triplet":
        return TripletSTDP(1e-2, 1e-3, -5e-3, 1e-3, 20.0, 40.0, 15.0, 30.0)
    if kind == "mstdp":
        return MSTDP(1e-2, -5e-3, 20.0, 15.0)
    if kind == "mstdpet":
        return MSTDPET(1e-2, -5e-3, 20.0, 15.0, 25.0)
    raise ValueError(kind)


def call_trainer(kind, t):
    if kind in ("mstdp", "mstdpet"):
        t(1.0)
    else:
        t()


class Counter:
    def __init__(self):
        self.n = {}
        self.keep = {}

    def watch(self, m):
        if id(m) in self.n and self.keep[id(m)]() is m:
            return
        self.n[id(m)] = 0
        self.keep[id(m)] = weakref.ref(m)  # weak: dropped trainers' monitors must be collectable (ids may be reused)
        m.reducer.register_forward_hook(lambda mod, a, o, k=id(m): self.n.__setitem__(k, self.n[k] + 1))

    def of(self, m):
        return self.n[id(m)]


CELLS = {"a": (0, "c1"), "b": (0, "c2"), "z": (1, "c1")}


def run_seq(seed, length=14, kinds=None, forced=None):
    rnd = random.Random(seed)
    layers = [layer(), layer()]
    kinds = kinds or [rnd.choice(["stdp", "triplet", "mstdp", "mstdpet"]), rnd.choice(["stdp", "stdp_b", "mstdpet", None])]
    trainers = [mk_trainer(k) if k else None for k in kinds]
    alive = [t is not None for t in trainers]
    reg = [dict(), dict()]  # trainer -> cell name -> set of extra monitor names
    fresh = [set(), set()]  # cells that have seen no training step since (re)registration: trainer() may lack data
    cnt = Counter()
    ops = []
    tt = m = listed = pairs = None
    collided = False  # an eligibility-trace trainer and another trainer have shared a cell (D16 precondition)
    xs = lambda: {"c1": (torch.ones(1, 3),), "c2": (torch.ones(1, 3),)}  # noqa: E731

    def cell(name):
        L, cn = CELLS[name]
        return getattr(layers[L].cells, cn).n

    def watch_all():
        for ti, t in enumerate(trainers):
            if alive[ti]:
                for m in t.monitors:
                    cnt.watch(m)

    script = forced or []
    for i in range(length):
        if i < len(script):
            op = script[i]
        else:
            op = (rnd.choice(["register", "register", "del_cell", "del_monitor", "add_monitor", "train", "eval", "ltrain", "leval", "step", "step", "step", "tstep", "clear", "drop"]), rnd.randrange(2), rnd.choice(list(CELLS)), rnd.random() < 0.5)
        kind, ti, cname, flag = op
        ops.append(list(op))
        inp = dict(seed=seed, kinds=kinds, ops=[list(o) for o in ops])
        if not alive[ti] and kind not in ("ltrain", "leval", "step"):
            continue
        t = trainers[ti]
        try:
            if kind == "register":
                if cname not in reg[ti]:
                    t.register_cell(cname, cell(cname))
                    reg[ti][cname] = set()
                    fresh[ti].add(cname)
                    if cname in reg[1 - ti] and "mstdpet" in kinds:
                        collided = True
            elif kind == "del_cell":
                if cname in reg[ti]:
                    t.del_cell(cname)
                    del reg[ti][cname]
                    fresh[ti].discard(cname)
            elif kind == "add_monitor":
                if cname in reg[ti]:
                    t.add_monitor(cname, "extra", "neuron.spike", StateMonitor.partialconstructor(PassthroughReducer(1.0, duration=0.0), train_update=True, eval_update=False), flag, who="extra")
                    reg[ti][cname].add("extra")
            elif kind == "del_monitor":
                if cname in reg[ti] and "extra" in reg[ti][cname]:
                    t.del_monitor(cname, "extra")
                    reg[ti][cname].discard("extra")
            elif kind == "train":
                t.train()
            elif kind == "eval":
                t.eval()
            elif kind == "ltrain":
                layers[ti].train()
            elif kind == "leval":
                layers[ti].eval()
            elif kind == "clear":
                t.clear()
                fresh[ti] |= set(reg[ti])
            elif kind == "drop":
                if ti == 1:
                    trainers[1] = None
                    alive[1] = False
                    reg[1] = {}
                    # no stray strong reference may survive in this frame (loop variables of the checks below)
                    t = tt = m = listed = pairs = None
                    gc.collect()
            elif kind == "tstep":
                if t.training and reg[ti] and not (fresh[ti] & set(reg[ti])):
                    call_trainer(kinds[ti], t)
            elif kind == "step":
                L = ti
                watch_all()
                before = dict(cnt.n)
                layers[L](xs())
                for tj, tt in enumerate(trainers):
                    if not alive[tj]:
                        continue
                    for (cn, mn), m in tt.named_monitors:
                        exp = 1 if (CELLS[cn][0] == L and tt.training and layers[L].training) else 0
                        got = cnt.n[id(m)] - before[id(m)]
                        if got != exp:
                            return {"what": "C15/observation_count", "input": inp, "expected": exp, "actual": got, "monitor": [tj, cn, mn]}
                    if tt.training and layers[L].training:
                        fresh[tj] -= {cn for cn in reg[tj] if CELLS[cn][0] == L}
            # listings reflect exactly what is registered
            for tj, tt in enumerate(trainers):
                if not alive[tj]:
                    continue
                names = sorted(n for n, _ in tt.named_cells)
                if names != sorted(reg[tj]):
                    return {"what": "C15/cell_listing", "input": inp, "expected": sorted(reg[tj]), "actual": names}
                listed = list(tt.monitors)
                if len({id(m) for m in listed}) != len(listed):
                    return {"what": "C15/monitor_listed_twice", "input": inp, "expected": "distinct", "actual": len(listed)}
                pairs = {k for k, _ in tt.named_monitors}
                if {k[0] for k in pairs} - set(reg[tj]):
                    return {"what": "C15/monitor_of_unregistered_cell_listed", "input": inp, "expected": sorted(reg[tj]), "actual": sorted(pairs)}
                for cn, extra in reg[tj].items():
                    if (("extra" in extra) != ((cn, "extra") in pairs)):
                        return {"what": "C15/extra_monitor_listing", "input": inp, "expected": sorted(extra), "actual": sorted(pairs)}
                for (cn, mn), m in tt.named_monitors:
                    if m.registered != tt.training:
                        return {"what": "C15/registered_iff_training", "input": inp, "expected": tt.training, "actual": m.registered, "monitor": [tj, cn, mn]}
                # the cell-level name -> monitor map must still resolve this trainer's names to this trainer's monitors
                if kinds[tj] == "mstdpet":
                    for cn in reg[tj]:
                        for mn in ("trace_pre", "trace_post", "spike_pre", "spike_post"):
                            try:
                                same = cell(cn).monitors[mn] is tt.get_monitor(cn, mn)
                            except Exception as e:  # noqa: BLE001
                                same = False
                            if not same:
                                other = [k for k in range(2) if k != tj and cn in reg[k]] or "dropped"
                                return {"what": "C15/cell_monitor_map_redirected", "input": dict(inp, second_trainer_on_same_cell=True), "expected": "first trainer's monitor", "actual": f"other trainer's ({other})"}
        except Exception as e:  # noqa: BLE001
            msg = f"{type(e).__name__}: {e}"
            d16 = collided and isinstance(e, AttributeError) and ("('trace_p" in msg or "('spike_p" in msg)
            return {"what": "C15/exception_after_monitor_map_redirect" if d16 else "C15/exception", "input": dict(inp, second_trainer_on_same_cell=collided), "expected": "no exception", "actual": msg}
    return None


def scripted():
    """fixed single-trainer scenarios on two cells of one layer that share their neuron (so their postsynaptic monitors are
    pooled) but not their connection:
      S1  one cell deletes a pooled monitor: the other cell's (same) monitor keeps recording;
      S2  one cell re-adds a pooled name with unique=True: the other cell keeps its monitor, still recording;
      S3  monitors on the two DIFFERENT connections are not aliased and each records its own connection"""
    fails = []

    def setup():
        lay = layer()
        tr = STDP(1e-2, -5e-3, 20.0, 15.0)
        ca, cb = lay.cells.c1.n, lay.cells.c2.n
        tr.register_cell("a", ca)
        tr.register_cell("b", cb)
        return lay, tr

    def recorded(lay, mon, x1=1.0, x2=1.0):
        n = [0]
        h = mon.reducer.register_forward_hook(lambda m_, a_, o_: n.__setitem__(0, n[0] + 1))
        lay({"c1": (torch.full((1, 3), x1),), "c2": (torch.full((1, 3), x2),)})
        h.remove()
        return n[0]

    try:
        lay, tr = setup()
        ma, mb = tr.get_monitor("a", "spike_post"), tr.get_monitor("b", "spike_post")
        if ma is not mb:
            fails.append({"what": "C15/scripted/shared_neuron_monitor_not_pooled", "input": dict(scenario="S1"), "expected": "same object", "actual": "distinct"})
        tr.del_monitor("a", "spike_post")
        got = recorded(lay, mb)
        if got != 1 or not mb.registered:
            fails.append({"what": "C15/scripted/pooled_monitor_silenced_by_other_cells_delete", "input": dict(scenario="S1: register a, b; del_monitor(a, spike_post); layer step"), "expected": "b.spike_post records 1 observation and stays hooked", "actual": dict(observations=got, registered=mb.registered)})
    except Exception as e:  # noqa: BLE001
        fails.append({"what": "C15/scripted/exception", "input": dict(scenario="S1"), "expected": "no exception", "actual": f"{type(e).__name__}: {e}"})
    try:
        lay, tr = setup()
        mb = tr.get_monitor("b", "spike_post")
        tr.add_monitor("a", "spike_post", "neuron.spike", StateMonitor.partialconstructor(PassthroughReducer(1.0, duration=0.0), train_update=True, eval_update=False), True)
        got = recorded(lay, mb)
        if tr.get_monitor("b", "spike_post") is not mb or got != 1 or not mb.registered:
            fails.append({"what": "C15/scripted/pooled_monitor_silenced_by_other_cells_unique_readd", "input": dict(scenario="S2: register a, b; add_monitor(a, spike_post, unique=True); layer step"), "expected": "b keeps its monitor, 1 observation, hooked", "actual": dict(same=tr.get_monitor("b", "spike_post") is mb, observations=got, registered=mb.registered)})
    except Exception as e:  # noqa: BLE001
        fails.append({"what": "C15/scripted/exception", "input": dict(scenario="S2"), "expected": "no exception", "actual": f"{type(e).__name__}: {e}"})
    try:
        lay, tr = setup()
        pa, pb = tr.get_monitor("a", "spike_pre"), tr.get_monitor("b", "spike_pre")
        lay({"c1": (torch.ones(1, 3),), "c2": (torch.zeros(1, 3),)})
        va, vb = pa.peek(), pb.peek()
        if pa is pb or not bool(va.any()) or bool(vb.any()):
            fails.append({"what": "C15/scripted/monitors_of_different_connections_aliased", "input": dict(scenario="S3: cells a (connection c1, driven) and b (connection c2, silent)"), "expected": "distinct monitors: a sees spikes, b sees none", "actual": dict(same_object=pa is pb, a_any=bool(va.any()), b_any=bool(vb.any()))})
    except Exception as e:  # noqa: BLE001
        fails.append({"what": "C15/scripted/exception", "input": dict(scenario="S3"), "expected": "no exception", "actual": f"{type(e).__name__}: {e}"})
    try:
        lay, tr = setup()
        for (cn, mn), _m in list(tr.named_monitors):
            if cn == "a":
                tr.del_monitor("a", mn)
        tr.del_cell("a")
        tr.register_cell("a", lay.cells.c1.n)
        mb = tr.get_monitor("a", "spike_post")
        got = recorded(lay, mb)
        if got != 1:
            fails.append({"what": "C15/scripted/reregistered_cell_not_observed", "input": dict(scenario="S4"), "expected": 1, "actual": got})
    except Exception as e:  # noqa: BLE001
        fails.append({"what": "C15/scripted/cell_cannot_be_registered_again_after_its_monitors_were_deleted", "input": dict(scenario="S4: register a, b; delete every monitor of a; del_cell(a); register a again"), "expected": "accepted", "actual": f"{type(e).__name__}: {e}"})
    # S5  a trainer whose monitors were deregistered and registered again (eval / train cycle) is dropped: its hooks leave
    #     the layer with it (the finalizer of a re-registered hook is bound to the NEW handles) and the layer keeps stepping
    try:
        import gc

        def nhooks(lay_):
            return sum(len(m_._forward_hooks) + len(m_._forward_pre_hooks) for m_ in lay_.modules())

        lay = layer()
        h0 = nhooks(lay)
        tr = STDP(1e-2, -5e-3, 20.0, 15.0)
        tr.register_cell("a", lay.cells.c1.n)
        tr.register_cell("b", lay.cells.c2.n)
        h1 = nhooks(lay)
        tr.eval()
        tr.train()
        lay({"c1": (torch.ones(1, 3),), "c2": (torch.ones(1, 3),)})
        del tr
        gc.collect()
        h2 = nhooks(lay)
        err = None
        try:
            lay({"c1": (torch.ones(1, 3),), "c2": (torch.ones(1, 3),)})
        except Exception as e:  # noqa: BLE001
            err = f"{type(e).__name__}: {e}"
        if h1 <= h0 or h2 != h0 or err:
            fails.append({"what": "C15/scripted/dropped_trainer_leaves_hooks_after_eval_train_cycle", "input": dict(scenario="S5: register a, b; trainer.eval(); trainer.train(); layer step; drop the trainer; gc.collect(); layer step"), "expected": dict(hooks_before=h0, hooks_after_drop=h0, step="runs"), "actual": dict(hooks_with_trainer=h1, hooks_after_drop=h2, step=err or "runs")})
    except Exception as e:  # noqa: BLE001
        fails.append({"what": "C15/scripted/exception", "input": dict(scenario="S5"), "expected": "no exception", "actual": f"{type(e).__name__}: {e}"})
    return fails, 5


def d16():
    """fixed script: eligibility-trace trainer, then a plain STDP trainer on the same cell"""
    return run_seq(0, 3, ["mstdpet", "stdp_b"], [("register", 0, "a", False), ("register", 1, "a", False), ("step", 0, "a", False)])


def sweep(tier="quick", seed=0, unsupported=()):
    failures, cases = [], 0
    n = 120 if tier == "quick" else 3000
    for s in range(n):
        cases += 1
        f = run_seq(seed * 100003 + s)
        if f is not None and not any(x["what"] == f["what"] for x in failures):
            failures.append(f)
    cases += 1
    f = d16()
    if f is not None and not any(x["what"] == f["what"] for x in failures):
        failures.append(f)
    fs, ns = scripted()
    failures.extend(fs)
    cases += ns
    return {"standins": [{"function": "scripted pooled-monitor scenarios (delete / unique re-add by the other cell, no aliasing across connections); CellTrainer / MonitorPool / Observable / Monitor operation sequences on real STDP, TripletSTDP, MSTDP, MSTDPET trainers (register/del cell, add/del monitor, trainer and layer train/eval, layer step, trainer step, clear, drop second trainer + gc.collect()) over two layers and three cells, two of which share a neuron", "domain": f"{n} random sequences of length 14, one or two trainers", "cases": cases, "proved": False, "label": "bounded"}], "failures": failures}


def replay(contract, label, model, note=""):
    if "cell_monitor_accessor" in label:
        f = d16()
        return {"reproduced": f is not None, "failure": f, "concrete": f["input"] if f else None}
    r = sweep("quick", 0)
    # never the recorded finding D16 (two trainers sharing a cell's monitor map)
    fs = [f for f in r["failures"] if f["what"] not in ("C15/cell_monitor_map_redirected", "C15/exception_after_monitor_map_redirect")]
    if fs:
        return {"reproduced": True, "failure": fs[0], "concrete": fs[0]["input"]}
    return {"reproduced": False, "search": {"points_tried": r["standins"][0]["cases"]}}


def replay_native(rp):
    i = rp["input"]
    if str(rp.get("what", "")).startswith("C15/scripted"):
        fs, _ = scripted()
        hit = [f for f in fs if f["what"] == rp.get("what")]
        return {"reproduced": bool(hit), "failure": hit[0] if hit else None}
    f = run_seq(i["seed"], len(i["ops"]), i["kinds"], [tuple(o) for o in i["ops"]])
    return {"reproduced": f is not None, "failure": f}
