"""C15 native oracle (bounded): random operation sequences on REAL trainers (STDP, MSTDPET, TripletSTDP, MSTDP) over
a real Biclique layer whose two cells share their neuron (plus a second, identically named layer), one or two
trainers, incl. dropping the second trainer + gc.collect().  A reference model (dict of registered cells / monitor
names, trainer and layer modes) predicts, for every layer step, how many observations every pooled monitor of every
still-registered cell must receive (counted with a forward hook on the monitor's reducer)."""
from __future__ import annotations

import gc
import random
import weakref

from .common import torch
from inferno.learn import MSTDP, MSTDPET, STDP, TripletSTDP
from inferno.neural import LIF, Biclique, DeltaCurrent, LinearDense
from inferno.observe import PassthroughReducer, StateMonitor


def conn(seed):
    torch.manual_seed(seed)
    c = LinearDense((3,), (2,), 1.0, synapse=DeltaCurrent.partialconstructor(30.0))
    c.updater = c.defaultupdater()
    return c


def layer():
    n = LIF((2,), 1.0, rest_v=-60.0, reset_v=-65.0, thresh_v=-55.0, refrac_t=1.0, time_constant=10.0, resistance=1.0)
    return Biclique([("c1", conn(1)), ("c2", conn(2))], [("n", n)])


def mk_trainer(kind):
    if kind == "stdp":
        return STDP(1e-2, -5e-3, 20.0, 15.0)
    if kind == "stdp_b":  # same monitor names, different settings
        return STDP(2e-2, -1e-3, 7.0, 9.0)
    if kind == "triplet":
        return TripletSTDP(1e-2, 1e-3, -5e-3, 1e-3, 20.0, 40.0, 15.0, 30.0)
    if kind == "mstdp":
        return MSTDP(1e-2, -5e-3, 20.0, 15.0)
    if kind == "mstdpet":
        return MSTDPET(1e-2, -5e-3, 20.0, 15.0, 25.0)
    raise ValueError(kind)


def call_trainer(kind, t):
    if kind in ("mstdp", "mstdpet"):
        t(1.0)
    else:
        t()


class Counter:
    def __init__(self):
        self.n = {}
        self.keep = {}

    def watch(self, m):
        if id(m) in self.n and self.keep[id(m)]() is m:
            return
        self.n[id(m)] = 0
        self.keep[id(m)] = weakref.ref(m)  # weak: dropped trainers' monitors must be collectable (ids may be reused)
        m.reducer.register_forward_hook(lambda mod, a, o, k=id(m): self.n.__setitem__(k, self.n[k] + 1))

    def of(self, m):
        return self.n[id(m)]


CELLS = {"a": (0, "c1"), "b": (0, "c2"), "z": (1, "c1")}


def run_seq(seed, length=14, kinds=None, forced=None):
    rnd = random.Random(seed)
    layers = [layer(), layer()]
    kinds = kinds or [rnd.choice(["stdp", "triplet", "mstdp", "mstdpet"]), rnd.choice(["stdp", "stdp_b", "mstdpet", None])]
    trainers = [mk_trainer(k) if k else None for k in kinds]
    alive = [t is not None for t in trainers]
    reg = [dict(), dict()]  # trainer -> cell name -> set of extra monitor names
    fresh = [set(), set()]  # cells that have seen no training step since (re)registration: trainer() may lack data
    cnt = Counter()
    ops = []
    tt = m = listed = pairs = None
    collided = False  # an eligibility-trace trainer and another trainer have shared a cell (D16 precondition)
    xs = lambda: {"c1": (torch.ones(1, 3),), "c2": (torch.ones(1, 3),)}  # noqa: E731

    def cell(name):
        L, cn = CELLS[name]
        return getattr(layers[L].cells, cn).n

    def watch_all():
        for ti, t in enumerate(trainers):
            if alive[ti]:
                for m in t.monitors:
                    cnt.watch(m)

    script = forced or []
    for i in range(length):
        if i < len(script):
            op = script[i]
        else:
            op = (rnd.choice(["register", "register", "del_cell", "del_monitor", "add_monitor", "train", "eval", "ltrain", "leval", "step", "step", "step", "tstep", "clear", "drop"]), rnd.randrange(2), rnd.choice(list(CELLS)), rnd.random() < 0.5)
        kind, ti, cname, flag = op
        ops.append(list(op))
        inp = dict(seed=seed, kinds=kinds, ops=[list(o) for o in ops])
        if not alive[ti] and kind not in ("ltrain", "leval", "step"):
            continue
        t = trainers[ti]
        try:
            if kind == "register":
                if cname not in reg[ti]:
                    t.register_cell(cname, cell(cname))
                    reg[ti][cname] = set()
                    fresh[ti].add(cname)
                    if cname in reg[1 - ti] and "mstdpet" in kinds:
                        collided = True
            elif kind == "del_cell":
                if cname in reg[ti]:
                    t.del_cell(cname)
                    del reg[ti][cname]
                    fresh[ti].discard(cname)
            elif kind == "add_monitor":
                if cname in reg[ti]:
                    t.add_monitor(cname, "extra", "neuron.spike", StateMonitor.partialconstructor(PassthroughReducer(1.0, duration=0.0), train_update=True, eval_update=False), flag, who="extra")
                    reg[ti][cname].add("extra")
            elif kind == "del_monitor":
                if cname in reg[ti] and "extra" in reg[ti][cname]:
                    t.del_monitor(cname, "extra")
                    reg[ti][cname].discard("extra")
            elif kind == "train":
                t.train()
            elif kind == "eval":
                t.eval()
            elif kind == "ltrain":
                layers[ti].train()
            elif kind == "leval":
                layers[ti].eval()
            elif kind == "clear":
                t.clear()
                fresh[ti] |= set(reg[ti])
            elif kind == "drop":
                if ti == 1:
                    trainers[1] = None
                    alive[1] = False
                    reg[1] = {}
                    # no stray strong reference may survive in this frame (loop variables of the checks below)
                    t = tt = m = listed = pairs = None
                    gc.collect()
            elif kind == "tstep":
                if t.training and reg[ti] and not (fresh[ti] & set(reg[ti])):
                    call_trainer(kinds[ti], t)
            elif kind == "step":
                L = ti
                watch_all()
                before = dict(cnt.n)
                layers[L](xs())
                for tj, tt in enumerate(trainers):
                    if not alive[tj]:
                        continue
                    for (cn, mn), m in tt.named_monitors:
                        exp = 1 if (CELLS[cn][0] == L and tt.training and layers[L].training) else 0
                        got = cnt.n[id(m)] - before[id(m)]
                        if got != exp:
                            return {"what": "C15/observation_count", "input": inp, "expected": exp, "actual": got, "monitor": [tj, cn, mn]}
                    if tt.training and layers[L].training:
                        fresh[tj] -= {cn for cn in reg[tj] if CELLS[cn][0] == L}
            # listings reflect exactly what is registered
            for tj, tt in enumerate(trainers):
                if not alive[tj]:
                    continue
                names = sorted(n for n, _ in tt.named_cells)
                if names != sorted(reg[tj]):
                    return {"what": "C15/cell_listing", "input": inp, "expected": sorted(reg[tj]), "actual": names}
                listed = list(tt.monitors)
                if len({id(m) for m in listed}) != len(listed):
                    return {"what": "C15/monitor_listed_twice", "input": inp, "expected": "distinct", "actual": len(listed)}
                pairs = {k for k, _ in tt.named_monitors}
                if {k[0] for k in pairs} - set(reg[tj]):
                    return {"what": "C15/monitor_of_unregistered_cell_listed", "input": inp, "expected": sorted(reg[tj]), "actual": sorted(pairs)}
                for cn, extra in reg[tj].items():
                    if (("extra" in extra) != ((cn, "extra") in pairs)):
                        return {"what": "C15/extra_monitor_listing", "input": inp, "expected": sorted(extra), "actual": sorted(pairs)}
                for (cn, mn), m in tt.named_monitors:
                    if m.registered != tt.training:
                        return {"what": "C15/registered_iff_training", "input": inp, "expected": tt.training, "actual": m.registered, "monitor": [tj, cn, mn]}
                # the cell-level name -> monitor map must still resolve this trainer's names to this trainer's monitors
                if kinds[tj] == "mstdpet":
                    for cn in reg[tj]:
                        for mn in ("trace_pre", "trace_post", "spike_pre", "spike_post"):
                            try:
                                same = cell(cn).monitors[mn] is tt.get_monitor(cn, mn)
                            except Exception as e:  # noqa: BLE001
                                same = False
                            if not same:
                                other = [k for k in range(2) if k != tj and cn in reg[k]] or "dropped"
                                return {"what": "C15/cell_monitor_map_redirected", "input": dict(inp, second_trainer_on_same_cell=True), "expected": "first trainer's monitor", "actual": f"other trainer's ({other})"}
        except Exception as e:  # noqa: BLE001
            msg = f"{type(e).__name__}: {e}"
            d16 = collided and isinstance(e, AttributeError) and ("('trace_p" in msg or "('spike_p" in msg)
            return {"what": "C15/exception_after_monitor_map_redirect" if d16 else "C15/exception", "input": dict(inp, second_trainer_on_same_cell=collided), "expected": "no exception", "actual": msg}
    return None


def d16():
    """fixed script: eligibility-trace trainer, then a plain STDP trainer on the same cell"""
    return run_seq(0, 3, ["mstdpet", "stdp_b"], [("register", 0, "a", False), ("register", 1, "a", False), ("step", 0, "a", False)])


def sweep(tier="quick", seed=0, unsupported=()):
    failures, cases = [], 0
    n = 120 if tier == "quick" else 3000
    for s in range(n):
        cases += 1
        f = run_seq(seed * 100003 + s)
        if f is not None and not any(x["what"] == f["what"] for x in failures):
            failures.append(f)
    cases += 1
    f = d16()
    if f is not None and not any(x["what"] == f["what"] for x in failures):
        failures.append(f)
    return {"standins": [{"function": "CellTrainer / MonitorPool / Observable / Monitor operation sequences on real STDP, TripletSTDP, MSTDP, MSTDPET trainers (register/del cell, add/del monitor, trainer and layer train/eval, layer step, trainer step, clear, drop second trainer + gc.collect()) over two layers and three cells, two of which share a neuron", "domain": f"{n} random sequences of length 14, one or two trainers", "cases": cases, "proved": False, "label": "bounded"}], "failures": failures}


def replay(contract, label, model, note=""):
    if "cell_monitor_accessor" in label:
        f = d16()
        return {"reproduced": f is not None, "failure": f, "concrete": f["input"] if f else None}
    r = sweep("quick", 0)
    if r["failures"]:
        return {"reproduced": True, "failure": r["failures"][0], "concrete": r["failures"][0]["input"]}
    return {"reproduced": False, "search": {"points_tried": r["standins"][0]["cases"]}}


def replay_native(rp):
    i = rp["input"]
    f = run_seq(i["seed"], len(i["ops"]), i["kinds"], [tuple(o) for o in i["ops"]])
    return {"reproduced": f is not None, "failure": f}
