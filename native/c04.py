"""C04 native oracle (bounded): synapse currents vs impulse-response sums, delayed reads, overbound, inplace."""
from __future__ import annotations

import itertools
import math
import random

from .common import torch
from inferno.neural import DeltaCurrent, DeltaPlusCurrent, DoubleExponentialCurrent, SingleExponentialCurrent

Q = 1.5


def mk(kind, dt, delay, interp, cob, sob, inplace):
    kw = dict(delay=delay, interp_tol=1e-6, current_overbound=cob, spike_overbound=sob, inplace=inplace)
    if kind == "delta":
        return DeltaCurrent((2,), dt, spike_charge=Q, interp_mode=interp, **kw)
    if kind == "deltaplus":
        return DeltaPlusCurrent((2,), dt, spike_charge=Q, interp_mode=interp, **kw)
    if kind == "single":
        return SingleExponentialCurrent((2,), dt, spike_charge=Q, time_constant=4.0, spike_interp_mode=interp, **kw)
    return DoubleExponentialCurrent((2,), dt, spike_charge=Q, tc_decay=6.0, tc_rise=2.0, spike_interp_mode=interp, **kw)


def response(kind, train, inj, n, dt, age_extra=0.0):
    """current at step n (+ analytic continuation by age_extra) = sum over past spikes of the documented response"""
    tot = 0.0
    for f in range(n + 1):
        if not train[f]:
            continue
        age = (n - f) * dt + age_extra
        if kind == "single":
            tot += Q / 4.0 * math.exp(-age / 4.0)
        elif kind == "double":
            tot += Q / (6.0 - 2.0) * (math.exp(-age / 6.0) - math.exp(-age / 2.0))
    if kind in ("delta", "deltaplus"):
        tot = (Q / dt if train[n] else 0.0) + (inj[n] if kind == "deltaplus" else 0.0)
    return tot


def run(kind, train, dt, delay, interp, cob, sob, inplace, selectors, dt_built=None):
    # dt_built: the synapse is constructed with ANOTHER step time and brought to dt through the public setter
    syn = mk(kind, dt if dt_built is None else dt_built, delay, interp, cob, sob, inplace)
    if dt_built is not None:
        syn.dt = dt
    inj = [0.25 * ((i * 7) % 3) for i in range(len(train))]
    inp = dict(kind=kind, train=list(train), dt=dt, delay=delay, interp=interp, current_overbound=cob, spike_overbound=sob, inplace=inplace, dt_built=dt_built)
    for n, s in enumerate(train):
        x = torch.tensor([[float(s), 0.0]])
        out = syn(x, torch.tensor([[inj[n], 0.0]])) if kind == "deltaplus" else syn(x)
        exp = response(kind, train, inj, n, dt)
        if abs(out[0, 0].item() - exp) > 1e-5:
            return {"what": f"C04/{kind}/impulse_response_sum", "input": dict(inp, step=n), "expected": exp, "actual": out[0, 0].item()}
        if bool(syn.spike[0, 0]) != bool(s):
            return {"what": f"C04/{kind}/spike_record", "input": dict(inp, step=n), "expected": bool(s), "actual": bool(syn.spike[0, 0])}
        for sel in selectors:
            t = torch.full((1, 2, 1), float(sel))
            cur = syn.current_at(t).reshape(-1)[0].item()
            spk = syn.spike_at(t).reshape(-1)[0].item()
            beyond = sel > delay + 1e-6 or sel < -1e-6
            b = min(max(sel, 0.0), delay)
            k = b / dt
            kf = math.floor(k + 1e-9)
            ongrid = abs(k - round(k)) < 1e-9
            m = n - (round(k) if ongrid else kf + 1)  # older bracket index for off-grid
            if beyond and cob is not None:
                ecur = cob
            else:
                if ongrid:
                    mm = n - round(k)
                    ecur = response(kind, train, inj, mm, dt) if mm >= 0 else 0.0
                elif kind in ("single", "double"):
                    older = n - (kf + 1)
                    ecur = response(kind, train, inj, older, dt, age_extra=(kf + 1) * dt - b) if older >= 0 else 0.0
                else:
                    older, newer = n - (kf + 1), n - kf
                    pick = older if interp == "previous" else (newer if ((kf + 1) * dt - b) / dt > 0.5 else older)
                    ecur = response(kind, train, inj, pick, dt) if pick >= 0 else 0.0
            if abs(cur - ecur) > 1e-4:
                return {"what": f"C04/{kind}/current_at", "input": dict(inp, step=n, selector=sel), "expected": ecur, "actual": cur}
            if beyond and sob is not None:
                espk = float(sob)
            else:
                if ongrid:
                    mm = n - round(k)
                else:
                    older, newer = n - (kf + 1), n - kf
                    mm = older if interp == "previous" else (newer if ((kf + 1) * dt - b) / dt > 0.5 else older)
                espk = float(train[mm]) if mm >= 0 else 0.0
            if abs(float(spk) - espk) > 1e-6:
                return {"what": f"C04/{kind}/spike_at", "input": dict(inp, step=n, selector=sel), "expected": espk, "actual": float(spk)}
    # clear(): every record back at rest - present values and every delayed read within the supported delay
    syn.clear()
    if float(syn.current.abs().max()) != 0.0 or bool(syn.spike.any()):
        return {"what": f"C04/{kind}/clear_leaves_state", "input": inp, "expected": "zero current, no spike", "actual": [syn.current.flatten().tolist(), syn.spike.flatten().tolist()]}
    k = 0.0
    while k <= delay + 1e-9:
        t = torch.full((1, 2, 1), float(min(k, delay)))
        cur, spk = syn.current_at(t).reshape(-1)[0].item(), syn.spike_at(t).reshape(-1)[0].item()
        if abs(cur) > 1e-9 or bool(spk):
            return {"what": f"C04/{kind}/clear_leaves_history", "input": dict(inp, selector=k), "expected": "rest", "actual": [cur, bool(spk)]}
        k += dt
    return None


def tolerance_case(kind, train, dt, delay, tol):
    """the synapse's own interpolation tolerance decides what counts as on the grid: a delay within `tol` of k*dt reads
    the sample k steps back exactly (whatever the interpolation mode), also when tol is far from select's default"""
    kw = dict(delay=delay, interp_tol=tol, current_overbound=None, spike_overbound=None)
    if kind == "delta":
        syn = DeltaCurrent((2,), dt, spike_charge=Q, interp_mode="previous", **kw)
    elif kind == "deltaplus":
        syn = DeltaPlusCurrent((2,), dt, spike_charge=Q, interp_mode="previous", **kw)
    elif kind == "single":
        syn = SingleExponentialCurrent((2,), dt, spike_charge=Q, time_constant=4.0, spike_interp_mode="previous", **kw)
    else:
        syn = DoubleExponentialCurrent((2,), dt, spike_charge=Q, tc_decay=6.0, tc_rise=2.0, spike_interp_mode="previous", **kw)
    inp = dict(kind=kind, train=list(train), dt=dt, delay=delay, interp_tol=tol)
    kmax = int(delay / dt)
    for n, s_ in enumerate(train):
        x = torch.tensor([[float(s_), 0.0]])
        syn(x, torch.zeros(1, 2)) if kind == "deltaplus" else syn(x)
        for k in range(kmax + 1):
            for off in (0.8 * tol, -0.8 * tol):
                d = k * dt + off
                if d < 0 or d > delay:
                    continue
                spk = syn.spike_at(torch.full((1, 2, 1), float(d))).reshape(-1)[0].item()
                exp = float(train[n - k]) if n - k >= 0 else 0.0
                if abs(float(spk) - exp) > 1e-6:
                    return {"what": f"C04/{kind}/spike_at_within_tolerance_of_grid", "input": dict(inp, step=n, selector=d, k=k), "expected": exp, "actual": float(spk)}
    return None


def sweep(tier="quick", seed=0, unsupported=()):
    failures, cases = [], 0
    rnd = random.Random(seed)
    L = 6 if tier == "quick" else 8
    trains = list(itertools.product((0, 1), repeat=L))
    if tier == "quick":
        trains = rnd.sample(trains, 12)
    for kind in ("delta", "deltaplus", "single", "double"):
        for train in trains:
            for dt, delay in ((1.0, 0.0), (1.0, 2.5), (0.5, 1.0)):
                settings = [("previous", (-20.0, True), False), ("nearest", (None, None), True), ("previous", (0.0, False), True)]
                if delay:
                    # the two overbound values are independent settings: combinations where they disagree
                    settings += [("previous", (0.0, True), False), ("nearest", (-20.0, False), True), ("previous", (None, True), False), ("nearest", (5.0, None), False)]
                for interp, (cob, sob), inplace in settings:
                    sels = [0.0, delay] + ([0.25 * dt, dt, delay + 0.25, math.ceil(delay / dt) * dt if delay else 0.5, delay + 3.0] if delay else [0.5, 3.0])
                    cases += 1
                    f = run(kind, train, dt, delay, interp, cob, sob, inplace, sels)
                    if f is not None and not any(x["what"] == f["what"] for x in failures):
                        failures.append(f)
    for kind in ("delta", "deltaplus", "single", "double"):
        for train in trains[:4]:
            for dt, delay, built in ((0.5, 1.0, 1.0), (1.0, 2.0, 0.5)):
                cases += 1
                f = run(kind, train, dt, delay, "previous", 0.0, False, False, [0.0, dt, delay], dt_built=built)
                if f is not None and not any(x["what"] == f["what"] for x in failures):
                    failures.append(f)
    for kind in ("delta", "deltaplus", "single", "double"):
        for train in trains[:6]:
            for dt, delay, tol in ((1.0, 3.0, 0.25), (0.5, 1.5, 0.1)):
                cases += 1
                f = tolerance_case(kind, train, dt, delay, tol)
                if f is not None and not any(x["what"] == f["what"] for x in failures):
                    failures.append(f)
    return {"standins": [{"function": "4 synapse classes: current = impulse-response sum, spike record, current_at/spike_at on/off grid, at and beyond the supported delay, overbound value/None, inplace on/off", "domain": f"boolean spike trains of length {L} ({len(trains)} of them) x (dt,delay) in {{(1,0),(1,2.5),(0.5,1)}} x 3 interpolation/overbound settings", "cases": cases, "proved": False, "label": "bounded"}], "failures": failures}


def replay(contract, label, model, note=""):
    r = sweep("quick", 0)
    if r["failures"]:
        return {"reproduced": True, "failure": r["failures"][0], "concrete": r["failures"][0]["input"]}
    return {"reproduced": False, "search": {"points_tried": r["standins"][0]["cases"]}}


def replay_native(rp):
    i = rp["input"]
    if "interp_tol" in i:
        f = tolerance_case(i["kind"], i["train"], i["dt"], i["delay"], i["interp_tol"])
        return {"reproduced": f is not None, "failure": f}
    sel = [i["selector"]] if "selector" in i else [0.0]
    f = run(i["kind"], i["train"], i["dt"], i["delay"], i["interp"], i["current_overbound"], i["spike_overbound"], i["inplace"], sel, dt_built=i.get("dt_built"))
    return {"reproduced": f is not None, "failure": f}
