"""Native (real torch, real inferno) helpers for replay, cross-check and bounded stand-ins.
`import inferno` resolves to VERIF_REPO (default /repo) so the code that runs is the working tree."""
from __future__ import annotations

import os
import sys

REPO = os.environ.get("VERIF_REPO", "/repo")
if REPO not in sys.path:
    sys.path.insert(0, REPO)

import torch  # noqa: E402

torch.set_num_threads(1)
import inferno  # noqa: E402

assert os.path.realpath(os.path.dirname(os.path.dirname(inferno.__file__))) == os.path.realpath(REPO), (inferno.__file__, REPO)


def make_record(N, ptr, shape=(2,), dtype=torch.float32, values="distinct", dt=1.0):
    """Real RecordTensor with N slots on a real inferno.Module, storage filled with distinct values, pointer at ptr."""
    owner = inferno.Module()
    inferno.RecordTensor.create(owner, "x", dt, dt * (N - 1), None, inclusive=True)
    rec = owner.x
    assert rec.recordsz == N, (rec.recordsz, N)
    rec.initialize(shape, dtype=dtype)
    n = 1
    for s in shape:
        n *= s
    if values == "distinct":
        data = (torch.arange(N * n, dtype=torch.float64).reshape(N, *shape) + 1.0)
        if dtype == torch.bool:
            data = (data % 2 == 0) ^ (torch.arange(N).reshape(N, *([1] * len(shape))) % 3 == 0)
        data = data.to(dtype)
    else:
        data = values
    rec.value = data.clone()
    setattr(owner, "_x_pointer", int(ptr))
    assert rec.pointer == ptr
    return owner, rec, data


def view(rec):
    """list model: m[k] = observation k steps before the write position"""
    N = rec.recordsz
    d = rec.value
    p = rec.pointer
    return [d[(p - k) % N].clone() for k in range(N)]
