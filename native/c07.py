"""C07 native oracle: reducers vs closed forms over event histories (bounded stand-in + replay)."""
from __future__ import annotations

import itertools
import math
import random

from .common import torch
from inferno.observe import (CAReducer, CumulativeTraceReducer, EMAReducer, EventReducer, NearestTraceReducer,
                             PassthroughReducer)


def closed_cumulative(hist, A, tau, dt):
    n = len(hist) - 1
    return sum(A * math.exp(-(n - f) * dt / tau) for f, h in enumerate(hist) if h)


def closed_nearest(hist, A, tau, dt):
    n = len(hist) - 1
    last = max((f for f, h in enumerate(hist) if h), default=None)
    return 0.0 if last is None else A * math.exp(-(n - last) * dt / tau)


def closed_event(hist, dt, initial):
    n = len(hist) - 1
    last = max((f for f, h in enumerate(hist) if h), default=None)
    return initial + n * dt if last is None else (n - last) * dt


def run_history(hist, dt=1.0, tau=3.0, A=0.7, duration=3.0, inplace=False, clears=()):
    """Feed a boolean history (one element) to every reducer, with optional clear(keepshape) at given steps, and
    compare after each step with the closed form over the observations since the last clear."""
    reds = {
        "cumulative": CumulativeTraceReducer(dt, tau, A, True, duration=duration, inplace=inplace),
        "nearest": NearestTraceReducer(dt, tau, A, True, duration=duration, inplace=inplace),
        "event": EventReducer(dt, lambda x: x.bool(), "zero", duration=duration, inplace=inplace),
        "passthrough": PassthroughReducer(dt, duration=duration, inplace=inplace),
        "ema": EMAReducer(dt, 0.3, duration=duration, inplace=inplace),
        "ca": CAReducer(dt, duration=duration, inplace=inplace),
    }
    cl = dict(clears)
    since = []
    recs = {k: [] for k in reds}
    for step, h in enumerate(hist):
        if step in cl:
            for r in reds.values():
                r.clear(keepshape=cl[step])
            since = []
            recs = {k: [] for k in reds}
            for k, r in reds.items():
                if r.peek() is not None or r.dump() is not None or r.view(0.0) is not None:
                    return {"what": f"C07/{k}/clear_not_initial", "input": dict(hist=hist, clears=list(clears), step=step), "expected": None, "actual": "value"}
        since.append(h)
        x = torch.tensor([1.0 if h else 0.0])
        for k, r in reds.items():
            r(x.bool() if k in ("cumulative", "nearest") else x)
        vals = [1.0 if v else 0.0 for v in since]
        ema = vals[0]
        for v in vals[1:]:
            ema = 0.3 * v + 0.7 * ema
        exp = {
            "cumulative": closed_cumulative(since, A, tau, dt), "nearest": closed_nearest(since, A, tau, dt),
            "event": closed_event(since, dt, 0.0), "passthrough": vals[-1], "ema": ema, "ca": sum(vals) / len(vals),
        }
        for k, r in reds.items():
            got = float(r.peek()[0])
            recs[k].append(exp[k])
            if abs(got - exp[k]) > 1e-5:
                return {"what": f"C07/{k}/closed_form", "input": dict(hist=hist, clears=list(clears), step=step, dt=dt, tau=tau, A=A, duration=duration, inplace=inplace), "expected": exp[k], "actual": got}
            # dump newest first, fill for unwritten slots; view on the grid returns what was recorded then
            d = r.dump()
            N = d.shape[0]
            for j in range(min(N, len(recs[k]))):
                if abs(float(d[j][0]) - recs[k][-1 - j]) > 1e-5:
                    return {"what": f"C07/{k}/dump_order", "input": dict(hist=hist, clears=list(clears), step=step, j=j), "expected": recs[k][-1 - j], "actual": float(d[j][0])}
                if j * dt <= duration:
                    v = r.view(j * dt)
                    if abs(float(v[0]) - recs[k][-1 - j]) > 1e-5:
                        return {"what": f"C07/{k}/view_grid", "input": dict(hist=hist, clears=list(clears), step=step, j=j), "expected": recs[k][-1 - j], "actual": float(v[0])}
            # off-grid view: analytic decay for traces, elapsed time for events, previous value for passthrough
            if len(recs[k]) >= 2 and dt <= duration and k in ("cumulative", "nearest", "event", "passthrough"):
                t = 0.4 * dt
                v = float(r.view(t)[0])
                older = recs[k][-2]
                e = {"cumulative": older * math.exp(-(dt - t) / tau), "nearest": older * math.exp(-(dt - t) / tau), "event": older + (dt - t), "passthrough": older}[k]
                if abs(v - e) > 1e-5:
                    return {"what": f"C07/{k}/view_offgrid", "input": dict(hist=hist, clears=list(clears), step=step, t=t), "expected": e, "actual": v}
    return None


def scaled_history(hist, values, dt=1.0, tau=3.0, A=0.7, scale=-1.5, clear_at=None, keepshape=True):
    """the four scaled / conditional trace reducers on two elements - element 0 follows `hist` (matching events with
    observed `values`), element 1 NEVER matches - against closed forms over the events since the last clear:
    nearest: (scale*x_last + A) * decay^age, 0 before the first event; cumulative: the sum over events"""
    from inferno.observe import (ConditionalCumulativeTraceReducer, ConditionalNearestTraceReducer, ScaledCumulativeTraceReducer,
                                 ScaledNearestTraceReducer)

    crit = lambda x: x > 0.5  # noqa: E731
    reds = {
        "scaled_nearest": ScaledNearestTraceReducer(dt, tau, A, scale, crit),
        "scaled_cumulative": ScaledCumulativeTraceReducer(dt, tau, A, scale, crit),
        "conditional_nearest": ConditionalNearestTraceReducer(dt, tau, A, scale),
        "conditional_cumulative": ConditionalCumulativeTraceReducer(dt, tau, A, scale),
    }
    since = []
    inp = dict(hist=list(hist), values=list(values), dt=dt, tau=tau, A=A, scale=scale, clear_at=clear_at, keepshape=keepshape)
    for step, (h, v) in enumerate(zip(hist, values)):
        if clear_at is not None and step == clear_at:
            for r in reds.values():
                r.clear(keepshape=keepshape)
            since = []
        x0 = v if h else 0.25 * v  # a matching observation is > 0.5, a non-matching one <= 0.5 (values are in (0.5, 2])
        since.append((h, x0))
        obs = torch.tensor([x0, 0.125])
        cond = torch.tensor([bool(h), False])
        for k, r in reds.items():
            if k.startswith("conditional"):
                r(obs, cond)
            else:
                r(obs)
        n = len(since) - 1
        ev = [(f, xv) for f, (hh, xv) in enumerate(since) if hh]
        near = 0.0 if not ev else (scale * ev[-1][1] + A) * math.exp(-(n - ev[-1][0]) * dt / tau)
        cum = sum((scale * xv + A) * math.exp(-(n - f) * dt / tau) for f, xv in ev)
        for k, r in reds.items():
            got = r.peek()
            e0 = near if k.endswith("nearest") else cum
            if abs(float(got[0]) - e0) > 1e-5:
                return {"what": f"C07/{k}/closed_form", "input": dict(inp, step=step), "expected": e0, "actual": float(got[0])}
            if abs(float(got[1])) > 1e-7:
                return {"what": f"C07/{k}/nonzero_before_the_first_event", "input": dict(inp, step=step), "expected": 0.0, "actual": float(got[1])}
    return None


def tolerance_history(values, target=0.5, tol=0.2, dt=1.0, tau=3.0, A=0.7):
    """cumulative and nearest trace reducers with a matching TOLERANCE on real-valued observations: an observation within
    `tol` of the target is an event, against the closed forms over those events"""
    reds = {"cumulative": CumulativeTraceReducer(dt, tau, A, target, tol), "nearest": NearestTraceReducer(dt, tau, A, target, tol)}
    hist = []
    inp = dict(values=list(values), target=target, tolerance=tol, dt=dt, tau=tau, A=A)
    for step, v in enumerate(values):
        hist.append(abs(v - target) <= tol)
        for k, r in reds.items():
            r(torch.tensor([v]))
            exp = closed_cumulative(hist, A, tau, dt) if k == "cumulative" else closed_nearest(hist, A, tau, dt)
            got = float(r.peek()[0])
            if abs(got - exp) > 1e-5:
                return {"what": f"C07/{k}/closed_form_with_tolerance", "input": dict(inp, step=step), "expected": exp, "actual": got}
    return None


def ctor_flag_cases():
    """every reducer class built with all four (inclusive, inplace) combinations: the history has ceil(duration/dt) +
    inclusive slots (so view(duration) is readable exactly when inclusive), and the reducer reports the in-place flag given"""
    from inferno.observe import (ConditionalCumulativeTraceReducer, ConditionalNearestTraceReducer, ScaledCumulativeTraceReducer,
                                 ScaledNearestTraceReducer)

    crit = lambda x: x > 0.5  # noqa: E731
    mks = {
        "ema": lambda **k: EMAReducer(1.0, 0.3, **k), "ca": lambda **k: CAReducer(1.0, **k), "passthrough": lambda **k: PassthroughReducer(1.0, **k),
        "event": lambda **k: EventReducer(1.0, lambda x: x.bool(), "zero", **k),
        "nearest": lambda **k: NearestTraceReducer(1.0, 3.0, 0.7, True, **k), "cumulative": lambda **k: CumulativeTraceReducer(1.0, 3.0, 0.7, True, **k),
        "scaled_nearest": lambda **k: ScaledNearestTraceReducer(1.0, 3.0, 0.7, 1.5, crit, **k), "scaled_cumulative": lambda **k: ScaledCumulativeTraceReducer(1.0, 3.0, 0.7, 1.5, crit, **k),
        "conditional_nearest": lambda **k: ConditionalNearestTraceReducer(1.0, 3.0, 0.7, 1.5, **k), "conditional_cumulative": lambda **k: ConditionalCumulativeTraceReducer(1.0, 3.0, 0.7, 1.5, **k),
    }
    fails, n = [], 0
    for name, mk in mks.items():
        for incl in (False, True):
            for inplace in (False, True):
                n += 1
                r = mk(duration=2.0, inclusive=incl, inplace=inplace)
                inp = dict(reducer=name, inclusive=incl, inplace=inplace, duration=2.0, dt=1.0)
                want = 2 + int(incl)
                if r.data_.recordsz != want or bool(r.data_.inclusive) != incl or bool(r.inplace) != inplace:
                    fails.append({"what": f"C07/{name}/constructor_flags", "input": inp, "expected": dict(slots=want, inclusive=incl, inplace=inplace), "actual": dict(slots=r.data_.recordsz, inclusive=bool(r.data_.inclusive), inplace=bool(r.inplace))})
    uniq = []
    for f in fails:
        if not any(u["what"] == f["what"] for u in uniq):
            uniq.append(f)
    return uniq, n


def sweep(tier="quick", seed=0, unsupported=()):
    L = 5 if tier == "quick" else 7
    failures, cases = [], 0
    rnd = random.Random(seed)

    def add(f):
        if f is not None and not any(x["what"] == f["what"] for x in failures):
            failures.append(f)

    for hist in itertools.product((0, 1), repeat=L):
        for duration, inplace in ((0.0, False), (3.0, True), (2.0, False)):
            cases += 1
            add(run_history(list(hist), duration=duration, inplace=inplace))
    for _ in range(40 if tier == "quick" else 300):
        n = rnd.randint(4, 10)
        hist = [rnd.random() < 0.4 for _ in range(n)]
        clears = tuple(sorted({rnd.randrange(1, n): rnd.random() < 0.5 for _ in range(2)}.items()))
        cases += 1
        add(run_history(hist, dt=rnd.choice([1.0, 0.5, 1.3]), tau=rnd.choice([2.0, 7.5]), duration=rnd.choice([0.0, 2.0, 3.9]), inplace=rnd.random() < 0.5, clears=clears))
    fc, nc = ctor_flag_cases()
    for f_ in fc:
        add(f_)
    cases += nc
    for _ in range(20 if tier == "quick" else 200):
        cases += 1
        add(tolerance_history([rnd.choice([0.5, 0.62, 0.31, 0.9, 0.05, 0.7]) for _ in range(rnd.randint(3, 8))], tol=rnd.choice([0.2, 0.125])))
    for _ in range(30 if tier == "quick" else 200):
        n = rnd.randint(3, 8)
        hist = [rnd.random() < 0.4 for _ in range(n)]
        vals = [rnd.choice([0.75, 1.0, 1.5, 2.0]) for _ in range(n)]
        cases += 1
        add(scaled_history(hist, vals, dt=rnd.choice([1.0, 0.5]), tau=rnd.choice([2.0, 7.5]), A=rnd.choice([0.7, -1.5]), scale=rnd.choice([-1.5, 0.5, 0.0]), clear_at=rnd.choice([None, 1, 2]), keepshape=rnd.random() < 0.5))
    return {"standins": [{"function": "4 scaled / conditional trace reducers vs closed forms on a matching and a never-matching element (0 before the first event, also after clear); 6 reducer classes vs closed forms (sum over events, most recent event, elapsed time, identity, EMA, mean) incl. dump/view/clear", "domain": f"all boolean histories of length {L} x 3 (duration,inplace) configs + random histories with interleaved clear(keepshape T/F)", "cases": cases, "proved": False, "label": "bounded"}], "failures": failures}


def replay(contract, label, model, note=""):
    if contract.startswith("RecordTensor.select"):
        # the select contract shared from C02: its own oracle drives the real RecordTensor
        from . import c02 as _c02

        r2 = _c02.replay(contract, label, model, note)
        if r2.get("reproduced"):
            return r2
    rnd = random.Random(1)
    tried = 0
    for _ in range(60):
        n = rnd.randint(3, 8)
        hist = [rnd.random() < 0.5 for _ in range(n)]
        clears = tuple(sorted({rnd.randrange(1, n): rnd.random() < 0.5}.items()))
        for duration in (0.0, 2.0):
            tried += 1
            f = run_history(hist, dt=float(model.get("dt", 1.0)) or 1.0, duration=duration, inplace=bool(model.get("inplace", False)), clears=clears)
            if f:
                return {"reproduced": True, "failure": f, "concrete": f["input"], "search": {"points_tried": tried}}
    r = sweep("quick", 0)  # the bounded oracle's own grid (longer durations, every history of the quick length)
    if r["failures"]:
        return {"reproduced": True, "failure": r["failures"][0], "concrete": r["failures"][0]["input"], "search": {"points_tried": tried + r["standins"][0]["cases"]}}
    return {"reproduced": False, "search": {"points_tried": tried + r["standins"][0]["cases"]}}


def replay_native(rp):
    inp = rp["input"]
    if "reducer" in inp and "inclusive" in inp:
        fs, _ = ctor_flag_cases()
        hit = [f for f in fs if f["what"] == rp.get("what")]
        return {"reproduced": bool(hit), "failure": hit[0] if hit else None}
    if "tolerance" in inp:
        f = tolerance_history(inp["values"], inp["target"], inp["tolerance"], inp["dt"], inp["tau"], inp["A"])
        return {"reproduced": f is not None, "failure": f}
    if "values" in inp:
        f = scaled_history(inp["hist"], inp["values"], dt=inp["dt"], tau=inp["tau"], A=inp["A"], scale=inp["scale"], clear_at=inp.get("clear_at"), keepshape=inp.get("keepshape", True))
        return {"reproduced": f is not None, "failure": f}
    f = run_history(inp["hist"], dt=inp.get("dt", 1.0), tau=inp.get("tau", 3.0), A=inp.get("A", 0.7), duration=inp.get("duration", 3.0), inplace=inp.get("inplace", False), clears=tuple(tuple(x) for x in inp.get("clears", [])))
    return {"reproduced": f is not None, "failure": f}
