"""C10 native oracle (bounded): random interleavings of contributions / reads / update / clear on the real Updater."""
from __future__ import annotations

import random

from .common import torch
import inferno
from inferno import functional as F
from inferno.neural import DeltaCurrent, LinearDense
from inferno.neural.modeling import Updater


def mkconn():
    return LinearDense((3,), (2,), 1.0, synapse=DeltaCurrent.partialconstructor(1.0))


def _halfsum(x, dim):
    return 0.5 * torch.sum(x, dim)


# custom reductions: mean is the identity on a stack of one part, the scaled sum is not (a reduction is applied to
# EVERY non-empty side, also when it holds a single part)
REDS = {"mean": torch.mean, "halfsum": _halfsum}


def run_sequence(seed, steps=12, bound=None, reduction=None, order_shuffle=False):
    if isinstance(reduction, str):
        reduction = REDS[reduction]
    rname = None if reduction is None else ("halfsum" if reduction is _halfsum else "mean")
    rnd = random.Random(seed)
    torch.manual_seed(seed)
    c = mkconn()
    u = Updater(c, "weight", "bias") if reduction is None else Updater(c, "weight", "bias", reduction=reduction)
    c.updater = u
    red = (lambda xs: torch.stack(xs, 0).sum(0)) if reduction is None else (lambda xs: reduction(torch.stack(xs, 0), 0))
    lim = (1.5, -1.5)
    if bound == "mult":
        # the two half bounds are configured in an order that depends on the seed (up,lo / lo,up / up,lo,up / lo,up,lo): each
        # keeps its own function and limit whatever the order
        for which in (("up", "lo"), ("lo", "up"), ("up", "lo", "up"), ("lo", "up", "lo"))[seed % 4]:
            if which == "up":
                u.weight.upperbound(F.bound_upper_multiplicative, lim[0])
            else:
                u.weight.lowerbound(F.bound_lower_multiplicative, lim[1])
    elif bound == "full_sharp":
        u.weight.fullbound(F.bound_sharp, lim[0], lim[1])
    pos, neg = [], []
    ops = []
    for t in range(steps):
        op = rnd.choice(["contrib", "contrib_pos", "contrib_neg", "read", "update", "update_noclear", "clear", "contrib_none"])
        ops.append(op)
        inp = dict(seed=seed, ops=list(ops), bound=bound, reduction=rname)
        if op == "contrib":
            p, n = torch.rand(2, 3) * 0.2, torch.rand(2, 3) * 0.2
            u.weight = (p, n)
            pos.append(p)
            neg.append(n)
        elif op == "contrib_pos":
            p = torch.rand(2, 3) * 0.2
            u.weight = p
            pos.append(p)
        elif op == "contrib_neg":
            # a depressing part only (what a depression-only trainer step hands over)
            n = torch.rand(2, 3) * 0.2
            u.weight = (None, n)
            neg.append(n)
        elif op == "contrib_none":
            u.weight = None
        elif op == "read":
            got = u.weight.neg
            exp = red(neg) if neg else None
            if (got is None) != (exp is None) or (got is not None and not torch.allclose(got, exp)):
                return {"what": "C10/read_neg", "input": inp, "expected": None if exp is None else exp.tolist(), "actual": None if got is None else got.tolist()}
            got = u.weight.pos
            exp = red(pos) if pos else None
            if (got is None) != (exp is None) or (got is not None and not torch.allclose(got, exp)):
                return {"what": "C10/read_pos", "input": inp, "expected": None if exp is None else exp.tolist(), "actual": None if got is None else got.tolist()}
        elif op in ("update", "update_noclear"):
            w0 = c.weight.detach().clone()
            b0 = c.bias.detach().clone() if c.biased else None
            P = red(pos) if pos else None
            N = red(neg) if neg else None
            if bound == "mult":
                dp = F.bound_upper_multiplicative(w0, P, lim[0]) if P is not None else 0
                dn = F.bound_lower_multiplicative(w0, N, lim[1]) if N is not None else 0
                exp = w0 + dp - dn
            elif bound == "full_sharp":
                exp = w0 if (P is None and N is None) else w0 + F.bound_sharp(w0, P if P is not None else torch.zeros_like(N), N if N is not None else torch.zeros_like(P), lim[0], lim[1])
            else:
                exp = w0 + (P if P is not None else 0) - (N if N is not None else 0)
            c.update(clear=(op == "update"))
            if not torch.allclose(c.weight, exp, atol=1e-6):
                return {"what": "C10/apply_formula", "input": inp, "expected": exp.tolist(), "actual": c.weight.tolist()}
            if op == "update":
                pos, neg = [], []
                w1 = c.weight.detach().clone()
                c.update()
                if not torch.equal(c.weight, w1):
                    return {"what": "C10/second_apply_after_clear", "input": inp, "expected": w1.tolist(), "actual": c.weight.tolist()}
        elif op == "clear":
            c.clear() if hasattr(c, "clear") else None
            u.clear()
            pos, neg = [], []
    return None


def stay_in_range(seed, steps=400):
    torch.manual_seed(seed)
    c = mkconn()
    c.updater = Updater(c, "weight")
    mx, mn = 1.0, -1.0
    c.weight = torch.rand(2, 3) * 2 - 1
    kinds = [("mult", F.bound_multiplicative, {}, 1.0), ("smult", F.bound_scaled_multiplicative, {}, 2.0), ("spow", F.bound_scaled_power, dict(upper_power=2.0, lower_power=1.5), 2.0)]
    for name, fn, kw, mag in kinds:
        c.weight = torch.rand(2, 3) * 2 - 1
        c.updater.weight.fullbound(fn, mx, mn, **kw)
        for t in range(steps):
            c.updater.weight = (torch.rand(2, 3) * mag, torch.rand(2, 3) * mag)
            c.update()
            if (c.weight > mx + 1e-5).any() or (c.weight < mn - 1e-5).any():
                return {"what": f"C10/stay_in_range/{name}", "input": dict(seed=seed, step=t), "expected": [mn, mx], "actual": [c.weight.min().item(), c.weight.max().item()]}
    return None


def updatesome_cases():
    """Updatable.updatesome on a real biased connection: the named parameters are applied and (by default) cleared - a
    second application changes nothing - and the unnamed ones keep their accumulated parts"""
    fails, n = [], 0
    for sel in (("weight",), ("bias",), ("weight", "bias"), ("bias", "weight")):
        for clear in (True, False):
            n += 1
            torch.manual_seed(1)
            c = LinearDense((3,), (2,), 1.0, synapse=DeltaCurrent.partialconstructor(1.0), bias=True)
            c.updater = c.defaultupdater()
            w0, b0 = c.weight.clone(), c.bias.clone()
            dw, db = torch.full((2, 3), 0.25), torch.full((2,), 0.5)
            c.updater.weight = (dw, None)
            c.updater.bias = (db, None)
            inp = dict(selected=list(sel), clear=clear)
            c.updatesome(*sel, clear=clear)
            exp_w = w0 + dw if "weight" in sel else w0
            exp_b = b0 + db if "bias" in sel else b0
            if not torch.allclose(c.weight, exp_w) or not torch.allclose(c.bias, exp_b):
                fails.append({"what": "C10/updatesome/first_application", "input": inp, "expected": [exp_w.flatten().tolist(), exp_b.tolist()], "actual": [c.weight.flatten().tolist(), c.bias.tolist()]})
                continue
            c.update()  # applies whatever is still accumulated: selected ones only if they were NOT cleared
            exp_w2 = exp_w + dw if ("weight" not in sel or not clear) else exp_w
            exp_b2 = exp_b + db if ("bias" not in sel or not clear) else exp_b
            if not torch.allclose(c.weight, exp_w2) or not torch.allclose(c.bias, exp_b2):
                fails.append({"what": "C10/updatesome/second_application", "input": inp, "expected": [exp_w2.flatten().tolist(), exp_b2.tolist()], "actual": [c.weight.flatten().tolist(), c.bias.tolist()]})
    uniq = []
    for f in fails:
        if not any(u["what"] == f["what"] for u in uniq):
            uniq.append(f)
    return uniq, n


def sweep(tier="quick", seed=0, unsupported=()):
    failures, cases = [], 0
    n = 150 if tier == "quick" else 1500
    for s in range(n):
        for bound in (None, "mult", "full_sharp"):
            cases += 1
            f = run_sequence(seed * 10007 + s, bound=bound, reduction=(("mean", "halfsum")[(s // 3) % 2] if s % 3 == 0 else None))
            if f is not None and not any(x["what"] == f["what"] for x in failures):
                failures.append(f)
    for s in range(3 if tier == "quick" else 20):
        cases += 1
        f = stay_in_range(seed + s)
        if f is not None and not any(x["what"] == f["what"] for x in failures):
            failures.append(f)
    fu, nu = updatesome_cases()
    failures.extend(fu)
    cases += nu
    names = [n for n in dir(F) if n.startswith("bound_")]
    for nm in names:
        for pv in (-1.5, -1.0, -0.5, 0.0, 0.5, 1.0, 1.5):
            for L in ((1.0, -1.0) if ("upper" in nm or "lower" in nm) else (None,)):
                cases += 1
                m = {"p": pv, "u": 0.75, "pos": 0.75, "neg": 0.5, "max": 1.0, "min": -1.0, "rng": 2.0, "q": 2.0, "qu": 2.0, "ql": 3.0}
                if L is not None:
                    m["L"] = L
                r = replay_bounding(nm, m)
                if r["reproduced"] and not any(x["what"] == r["failure"]["what"] for x in failures):
                    failures.append(r["failure"])
    return {"standins": [{"function": "bound_* functions vs documented formulas on a grid that includes parameters exactly on a limit; Updater/Accumulator on a real connection: random interleavings of contributions, reads, update(clear T/F), clear; half/full bounds; custom reduction; 400-step stay-in-range runs", "domain": f"{n} random op sequences of length 12 x 3 bounding modes", "cases": cases, "proved": False, "label": "bounded"}], "failures": failures}



def _fr(v, default=0.0):
    """model value (int / float / 'a/b' string) -> float"""
    from fractions import Fraction

    if v is None:
        return default
    try:
        return float(Fraction(str(v)))
    except Exception:
        try:
            return float(v)
        except Exception:
            return default


def replay_bounding(name, model):
    """replays a counter-model of a `bounding.<function>` kernel contract on the REAL function (float64) against the
    documented formula evaluated in Python, at the model's point and at the model's point moved onto each limit"""
    fn = getattr(F, name)
    half = "upper" in name or "lower" in name
    P0 = _fr(model.get("p"))
    pts = [P0]
    if half:
        L = _fr(model.get("L"), 1.0)
        pts += [L]
    else:
        mx, mn = _fr(model.get("max"), 1.0), _fr(model.get("min"), -1.0)
        pts += [mx, mn]
    th = lambda x: 1.0 if x > 0 else 0.0  # noqa: E731   Theta of the sharp bounds as implemented: 0 at the limit itself
    for pv in pts:
        pt = torch.tensor([pv], dtype=torch.float64)
        if half:
            u = _fr(model.get("u"), 0.5)
            kw, rng, q = {}, _fr(model.get("rng"), 2.0), _fr(model.get("q"), 2.0)
            d = (L - pv) if "upper" in name else (pv - L)
            if "scaled" in name:
                kw["range"] = rng
                d = d / rng
            if "power" in name:
                kw["power"] = q
                if d < 0:
                    continue
                ref = d**q * u
            elif "sharp" in name:
                ref = th(d) * u
            else:
                ref = d * u
            got = fn(pt, torch.tensor([u], dtype=torch.float64), L, **kw).item()
            inp = dict(function=name, param=pv, update=u, limit=L, **kw)
        else:
            pos, neg = abs(_fr(model.get("pos"), 0.5)), abs(_fr(model.get("neg"), 0.25))
            kw = {}
            rng = mx - mn
            du, dl = mx - pv, pv - mn
            if "scaled" in name:
                du, dl = du / rng, dl / rng
            if "power" in name:
                kw = dict(upper_power=max(1.0, _fr(model.get("qu"), 2.0)), lower_power=max(1.0, _fr(model.get("ql"), 2.0)))
                if du < 0 or dl < 0:
                    continue
                ref = du ** kw["upper_power"] * pos - dl ** kw["lower_power"] * neg
            elif "sharp" in name:
                ref = th(du) * pos - th(dl) * neg
            else:
                ref = du * pos - dl * neg
            got = fn(pt, torch.tensor([pos], dtype=torch.float64), torch.tensor([neg], dtype=torch.float64), mx, mn, **kw).item()
            inp = dict(function=name, param=pv, pos=pos, neg=neg, max=mx, min=mn, **kw)
        if abs(got - ref) > 1e-9 * max(1.0, abs(ref)):
            return {"reproduced": True, "failure": {"what": f"C10/bounding/{name}", "input": inp, "expected": ref, "actual": got}, "concrete": inp}
    return {"reproduced": False, "search": {"points_tried": len(pts)}}


def replay(contract, label, model, note=""):
    if contract.startswith("Accumulator.") or contract.startswith("Updater."):
        for s_ in range(40):
            f = run_sequence(s_, bound="mult", reduction=("halfsum" if "reduction" in contract or "reduction" in label else None))
            if f:
                return {"reproduced": True, "failure": f, "concrete": f["input"], "search": {"points_tried": s_ + 1}}
    if contract.startswith("Updatable."):
        fu, nu = updatesome_cases()
        if fu:
            return {"reproduced": True, "failure": fu[0], "concrete": fu[0]["input"], "search": {"points_tried": nu}}
    if contract.startswith("bounding."):
        try:
            r = replay_bounding(contract.split(".", 1)[1], model or {})
            if r["reproduced"]:
                return r
        except Exception:
            pass
    tried = 0
    for s in range(300):
        for bound in (None, "mult", "full_sharp"):
            tried += 1
            f = run_sequence(s, bound=bound, reduction=(("mean", "halfsum")[(s // 2) % 2] if s % 2 else None))
            if f:
                return {"reproduced": True, "failure": f, "concrete": f["input"], "search": {"points_tried": tried}}
    f = stay_in_range(0)
    if f:
        return {"reproduced": True, "failure": f, "concrete": f["input"]}
    # direct bounding-function calls (argument binding)
    try:
        p, u = torch.tensor([0.5]), torch.tensor([0.1])
        F.bound_power(p, u, u, 1.0, 0.0, upper_power=2.0, lower_power=2.0)
        F.bound_scaled_power(p, u, u, 1.0, 0.0, upper_power=2.0, lower_power=2.0)
        F.bound_scaled_multiplicative(p, u, u, 1.0, 0.0)
    except Exception as e:
        return {"reproduced": True, "failure": {"what": "C10/bounding_call", "actual": f"{type(e).__name__}: {e}"}, "concrete": {}}
    return {"reproduced": False, "search": {"points_tried": tried}}


def replay_native(rp):
    i = rp["input"]
    if str(rp.get("what", "")).startswith("C10/updatesome"):
        fu, _ = updatesome_cases()
        hit = [f for f in fu if f["what"] == rp.get("what")]
        return {"reproduced": bool(hit), "failure": hit[0] if hit else None}
    if "function" in i:
        m = {"p": i["param"], "u": i.get("update"), "pos": i.get("pos"), "neg": i.get("neg"), "L": i.get("limit"), "max": i.get("max"), "min": i.get("min"), "rng": i.get("range"), "q": i.get("power"), "qu": i.get("upper_power"), "ql": i.get("lower_power")}
        r = replay_bounding(i["function"], {k: v for k, v in m.items() if v is not None})
        return {"reproduced": r["reproduced"], "failure": r.get("failure")}
    if "ops" in i:
        for bound in (i.get("bound"),):
            f = run_sequence(i["seed"], bound=bound, reduction=(i.get("reduction") or None))
            return {"reproduced": f is not None, "failure": f}
    f = stay_in_range(i.get("seed", 0))
    return {"reproduced": f is not None, "failure": f}
