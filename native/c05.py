"""C05 native oracle (bounded): real connections x real synapses against the documented linear map computed from a
twin synapse; Conv2D against torch.nn.functional.conv2d over a geometry grid; lateral diagonal under assignment
histories and trainer updates; reshape-helper round trips."""
from __future__ import annotations

import itertools
import random

from .common import torch
import torch.nn.functional as F
from inferno.neural import Conv2D, DeltaCurrent, LinearLateral
from . import connections as cx


def forward_case(ckind, skind, bias, B, seed, steps=5):
    dt = 1.0
    conn = cx.mkconn(ckind, skind, dt, B, bias, None, seed)
    twin = cx.mkconn(ckind, skind, dt, B, bias, None, seed).synapse
    inp = dict(conn=ckind, syn=skind, bias=bias, B=B, seed=seed)
    for t, x in enumerate(cx.drive(conn, B, steps, seed)):
        out = conn(x)
        cur = twin(conn.like_synaptic(x)).clone()
        exp = cx.reference_map(ckind, conn, cur)
        if tuple(out.shape) != (B, *conn.outshape):
            return {"what": f"C05/{ckind}/output_shape", "input": dict(inp, step=t), "expected": [B, *conn.outshape], "actual": list(out.shape)}
        if not torch.allclose(out, exp, atol=1e-5):
            return {"what": f"C05/{ckind}/linear_map", "input": dict(inp, step=t), "expected": exp.flatten()[:6].tolist(), "actual": out.flatten()[:6].tolist()}
        if not torch.allclose(conn.synapse.current, cur, atol=1e-6):
            return {"what": f"C05/{ckind}/synapse_state_modified", "input": dict(inp, step=t), "expected": cur.flatten()[:6].tolist(), "actual": conn.synapse.current.flatten()[:6].tolist()}
    return None


def conv_case(H, W, C, Fn, k, s, p, d, bias, seed):
    oh = (H + 2 * p[0] - d[0] * (k[0] - 1) - 1) // s[0] + 1
    ow = (W + 2 * p[1] - d[1] * (k[1] - 1) - 1) // s[1] + 1
    if oh < 1 or ow < 1:
        return None
    inp = dict(H=H, W=W, C=C, F=Fn, kernel=k, stride=s, padding=p, dilation=d, bias=bias)
    torch.manual_seed(seed)
    try:
        conn = Conv2D(H, W, C, Fn, 1.0, k, stride=s, padding=p, dilation=d, synapse=DeltaCurrent.partialconstructor(2.0), bias=bias, batch_size=2)
    except Exception as e:  # noqa: BLE001
        return {"what": "C05/conv/constructor_exception", "input": inp, "expected": "ok", "actual": f"{type(e).__name__}: {e}"}
    if tuple(conn.outshape) != (Fn, oh, ow):
        return {"what": "C05/conv/outshape", "input": inp, "expected": [Fn, oh, ow], "actual": list(conn.outshape)}
    x = (torch.rand(2, C, H, W) < 0.5).float()
    out = conn(x)
    exp = F.conv2d(x * 2.0, conn.weight.detach(), conn.bias.detach() if bias else None, stride=s, padding=p, dilation=d)
    if tuple(out.shape) != tuple(exp.shape) or not torch.allclose(out, exp, atol=1e-4):
        return {"what": "C05/conv/cross_correlation", "input": inp, "expected": list(exp.shape), "actual": list(out.shape)}
    # like_input(like_synaptic(x)) returns x on every position some kernel tap reads
    y = torch.rand(2, C, H, W) + 0.5
    back = conn.like_input(conn.like_synaptic(y))
    cover = F.fold(F.unfold(torch.ones(1, C, H, W), k, dilation=d, padding=p, stride=s), (H, W), k, dilation=d, padding=p, stride=s) > 0
    cover = cover.expand(2, -1, -1, -1)
    if not torch.allclose(back[cover], y[cover], atol=1e-5):
        return {"what": "C05/conv/like_input_roundtrip", "input": inp, "expected": "identity on read positions", "actual": (back[cover] - y[cover]).abs().max().item()}
    # receptive views broadcast against the weight
    pre = conn.presyn_receptive(conn.like_synaptic(y))
    post = conn.postsyn_receptive(out)
    try:
        r = pre * post * conn.weight.detach().unsqueeze(-1)
        ok = tuple(r.shape) == (2, Fn, C, k[0], k[1], oh * ow)
    except Exception:  # noqa: BLE001
        ok = False
    if not ok:
        return {"what": "C05/conv/receptive_broadcast", "input": inp, "expected": [2, Fn, C, k[0], k[1], oh * ow], "actual": [list(pre.shape), list(post.shape)]}
    # the receptive view of an input is the value the kernel tap (c, kh, kw) sees at output position l
    for l in sorted({0, oh * ow - 1, (oh * ow) // 2}):
        oy, ox = divmod(l, ow)
        for c_ in range(C):
            for a in range(k[0]):
                for b_ in range(k[1]):  # EVERY kernel tap: a swapped (kh, kw) decomposition only shows on interior taps
                    iy, ix = oy * s[0] - p[0] + a * d[0], ox * s[1] - p[1] + b_ * d[1]
                    v = y[0, c_, iy, ix].item() if 0 <= iy < H and 0 <= ix < W else 0.0
                    if abs(pre[0, 0, c_, a, b_, l].item() - v) > 1e-6:
                        return {"what": "C05/conv/presyn_receptive_value", "input": dict(inp, tap=[c_, a, b_], position=l), "expected": v, "actual": pre[0, 0, c_, a, b_, l].item()}
    return None


def linear_helpers(ckind, seed):
    conn = cx.mkconn(ckind, "delta", 1.0, 2, True, None, seed)
    inp = dict(conn=ckind)
    y = torch.rand(2, *conn.inshape)
    back = conn.like_input(conn.like_synaptic(y))
    if tuple(back.shape) != tuple(y.shape) or not torch.equal(back, y):
        return {"what": f"C05/{ckind}/like_input_roundtrip", "input": inp, "expected": "identity", "actual": list(back.shape)}
    out = conn(y)
    pre, post = conn.presyn_receptive(conn.like_synaptic(y)), conn.postsyn_receptive(out)
    w = conn.weight.detach()
    # documented: pre (B x [N|1] x M x 1) and post (B x N x 1 x 1) multiply to B x <weight shape> x receptive axis
    try:
        r = (pre * post).sum(-1)
    except Exception as e:  # noqa: BLE001
        return {"what": f"C05/{ckind}/receptive_broadcast", "input": inp, "expected": "broadcastable", "actual": str(e)[:80]}
    want = (2,) + tuple(w.shape)
    if tuple(r.shape) != want:
        return {"what": f"C05/{ckind}/receptive_broadcast", "input": inp, "expected": list(want), "actual": list(r.shape)}
    flat = conn.like_synaptic(y)
    if ckind == "direct":
        ok = torch.equal(pre[:, :, 0], flat) and torch.equal(post[:, :, 0], out.reshape(2, -1))
    else:
        ok = torch.equal(pre[:, 0, :, 0], flat) and torch.equal(post[:, :, 0, 0], out.reshape(2, -1))
    if not ok:
        return {"what": f"C05/{ckind}/receptive_values", "input": inp, "expected": "pre indexed by input, post by output", "actual": "mismatch"}
    b = conn.like_bias(torch.rand(*conn.bias.shape, *([1] * (w.dim() - 1))) if ckind != "direct" else torch.rand(*conn.bias.shape))
    if tuple(b.shape) != tuple(conn.bias.shape):
        return {"what": f"C05/{ckind}/like_bias", "input": inp, "expected": list(conn.bias.shape), "actual": list(b.shape)}
    return None


def lateral_history(seed, length=12):
    from inferno.learn import STDP
    from inferno.neural import LIF, Serial

    rnd = random.Random(seed)
    torch.manual_seed(seed)
    conn = LinearLateral((2, 2), 1.0, synapse=DeltaCurrent.partialconstructor(30.0), delay=3.0, bias=True, weight_init=lambda w: w + 5.0, delay_init=lambda d: d + 2.0)
    conn.updater = conn.defaultupdater()
    neu = LIF((2, 2), 1.0, rest_v=-60.0, reset_v=-65.0, thresh_v=-55.0, refrac_t=1.0, time_constant=10.0, resistance=1.0)
    layer = Serial(conn, neu)
    tr = STDP(0.5, -0.3, 10.0, 10.0)
    tr.register_cell("c", layer.cell)
    ops = []
    eye = torch.eye(4, dtype=torch.bool)

    def bad():
        return bool((conn.weight.detach()[eye] != 0).any() or (conn.delay.detach()[eye] != 0).any())

    if bad():
        return {"what": "C05/lateral/self_weight_after_construction", "input": dict(seed=seed, ops=ops), "expected": "zero diagonal", "actual": conn.weight.detach()[eye].tolist()}
    for _ in range(length):
        op = rnd.choice(["assign_w", "assign_d", "step", "step", "update"])
        ops.append(op)
        if op == "assign_w":
            conn.weight = torch.rand(4, 4) + 1.0
        elif op == "assign_d":
            conn.delay = torch.rand(4, 4) * 3.0
        elif op == "step":
            layer((torch.rand(1, 2, 2) < 0.7).float())
            tr()
        else:
            conn.update()
        if bad():
            return {"what": "C05/lateral/self_weight_or_delay", "input": dict(seed=seed, ops=list(ops)), "expected": "zero diagonal", "actual": [conn.weight.detach()[eye].tolist(), conn.delay.detach()[eye].tolist()]}
    return None


def sweep(tier="quick", seed=0, unsupported=()):
    failures, cases = [], 0

    def add(f):
        if f is not None and not any(x["what"] == f["what"] for x in failures):
            failures.append(f)

    for ckind, skind, bias in itertools.product(cx.CONN, cx.SYN, (False, True)):
        for B in ((1, 3) if tier == "quick" else (1, 2, 5)):
            cases += 1
            add(forward_case(ckind, skind, bias, B, seed + 1))
    rnd = random.Random(seed)
    grid = []
    for _ in range(60 if tier == "quick" else 1500):
        grid.append(dict(H=rnd.randint(1, 7), W=rnd.randint(1, 7), C=rnd.randint(1, 3), Fn=rnd.randint(1, 3), k=(rnd.randint(1, 3), rnd.randint(1, 3)), s=(rnd.randint(1, 3), rnd.randint(1, 3)), p=(rnd.randint(0, 2), rnd.randint(0, 2)), d=(rnd.randint(1, 2), rnd.randint(1, 2)), bias=rnd.random() < 0.5))
    for g in grid:
        if g["p"][0] > g["k"][0] * g["d"][0] // 2 + 1:
            pass
        cases += 1
        add(conv_case(seed=seed, **g))
    for ckind in ("dense", "direct", "lateral"):
        cases += 1
        add(linear_helpers(ckind, seed))
    for s in range(10 if tier == "quick" else 200):
        cases += 1
        add(lateral_history(seed * 1009 + s))
    return {"standins": [{"function": "LinearDense/Direct/Lateral/Conv2D forward vs documented map from a twin synapse (4 synapse kinds, bias, batch), Conv2D vs F.conv2d over a random geometry grid, like_input/like_synaptic round trip on read positions, receptive views broadcast + values, lateral diagonal under assignment/STDP-update histories", "domain": f"{cases} cases", "cases": cases, "proved": False, "label": "bounded"}], "failures": failures}


def replay(contract, label, model, note=""):
    if contract.startswith("Conv2D.layouts"):
        from . import connections as _cx

        return _cx.replay_layouts(model)
    r = sweep("quick", 0)
    want = contract.split(".")[0].replace("Linear", "").lower()
    fs = [f for f in r["failures"] if want in f["what"]] or r["failures"]
    if fs:
        return {"reproduced": True, "failure": fs[0], "concrete": fs[0]["input"]}
    return {"reproduced": False, "search": {"points_tried": r["standins"][0]["cases"]}}


def replay_native(rp):
    r = sweep("quick", 0)
    fs = [f for f in r["failures"] if f["what"] == rp.get("what")]
    return {"reproduced": bool(fs), "failure": fs[0] if fs else None}
