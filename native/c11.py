"""C11 native oracle (bounded): a batched run against independent single-sample runs of identically parameterised
batch-size-1 copies - 8 neuron classes (adaptation frozen), 4 synapses (delayed reads included), 4 connections with and
without delays, Serial / Biclique / RecurrentSerial layers - and, for every shipped trainer with batch_reduction=sum, a
batched training step against the sum of the per-sample steps."""
from __future__ import annotations

import itertools

from .common import torch
from . import c03 as n3
from . import connections as cx
from .c04 import mk as mksyn


def _sparse_inputs(shape, steps, B, seed, rate):
    """per-sample sequences with long silent stretches (whole-batch-silent steps occur only in single-sample runs)"""
    g = torch.Generator().manual_seed(seed)
    xs = []
    for t in range(steps):
        x = (torch.rand(B, *shape, generator=g) < rate).float()
        for b in range(B):
            if (t + 3 * b) % 7 in (2, 3, 4, 5):
                x[b] = 0
        xs.append(x)
    return xs


def neuron_case(cls, B, seed, via_setter=False):
    torch.manual_seed(seed)
    if via_setter:
        # the batched neuron is a batch-size-1 neuron that has run and is then resized; the copies are resized down
        big = n3.mk(cls, 1.0, 2.0, B=1)
        big(torch.full((1, 3), 40.0), **({"adapt": False} if cls in ("ALIF", "GLIF2", "Izhikevich", "AdEx") else {}))
        big.batchsz = B
        small = [n3.mk(cls, 1.0, 2.0, B=B) for _ in range(B)]
        for s_ in small:
            s_.batchsz = 1
    else:
        big = n3.mk(cls, 1.0, 2.0, B=B)
        small = [n3.mk(cls, 1.0, 2.0, B=1) for _ in range(B)]
    # training mode with adaptation explicitly frozen (adapt=False): the frozen flag must win over the module mode
    big.train()
    for s in small:
        s.train()
    g = torch.Generator().manual_seed(seed)
    for t in range(25):
        x = torch.rand(B, 3, generator=g) * 60.0 - 10.0
        kw = {"adapt": False} if cls in ("ALIF", "GLIF2", "Izhikevich", "AdEx") else {}
        out = big(x, **kw)
        for b in range(B):
            ob = small[b](x[b:b + 1], **kw)
            chk = [("spike", out[b:b + 1], ob), ("voltage", big.voltage[b:b + 1], small[b].voltage), ("refrac", big.refrac[b:b + 1], small[b].refrac)]
            for an in ("threshold_adaptation", "current_adaptation"):
                if hasattr(big, an):
                    chk.append((an, getattr(big, an), getattr(small[b], an)))  # frozen: stays what the constructor made it
            for name, a, c_ in chk:
                if not torch.equal(a, c_):
                    return {"what": f"C11/neuron/{name}", "input": dict(cls=cls, B=B, seed=seed, step=t, sample=b, via_setter=via_setter), "expected": c_.flatten().tolist(), "actual": a.flatten().tolist()}
    return None


def synapse_case(kind, B, seed, inplace):
    dt, delay = 1.0, 3.0
    mk = lambda bsz: _resize(mksyn(kind, dt, delay, "previous", 0.0, False, inplace), bsz)  # noqa: E731
    big, small = mk(B), [mk(1) for _ in range(B)]
    sel = torch.tensor([0.0, 1.0, 2.0, 3.0, 1.5]).view(1, 1, -1)
    for t, x in enumerate(_sparse_inputs((2,), 30, B, seed, 0.5)):
        args = lambda z: (z, 0.3 * z) if kind == "deltaplus" else (z,)  # noqa: E731
        out = big(*args(x))
        for b in range(B):
            ob = small[b](*args(x[b:b + 1]))
            chk = [("current", out[b:b + 1], ob), ("spike", big.spike[b:b + 1], small[b].spike),
                   ("current_at", big.current_at(sel.expand(B, 2, -1))[b:b + 1], small[b].current_at(sel.expand(1, 2, -1))),
                   ("spike_at", big.spike_at(sel.expand(B, 2, -1))[b:b + 1], small[b].spike_at(sel.expand(1, 2, -1)))]
            for name, a, c_ in chk:
                if not torch.allclose(a.float(), c_.float(), atol=1e-6):
                    return {"what": f"C11/synapse/{name}", "input": dict(kind=kind, B=B, seed=seed, inplace=inplace, step=t, sample=b), "expected": c_.flatten().tolist(), "actual": a.flatten().tolist()}
    return None


def _resize(syn, B):
    syn.batchsz = B
    return syn


def connection_case(ckind, skind, delayed, B, seed):
    dt = 1.0
    delay = 3.0 if delayed else None
    big = cx.mkconn(ckind, skind, dt, B, True, delay, seed)
    small = [cx.mkconn(ckind, skind, dt, 1, True, delay, seed) for _ in range(B)]
    if delayed:
        g = torch.Generator().manual_seed(seed + 1)
        d = torch.randint(0, 4, tuple(big.weight.shape), generator=g).float()
        big.delay = d.clone()
        for s in small:
            s.delay = d.clone()
    for t, x in enumerate(_sparse_inputs(cx.inshape(big), 30, B, seed, 0.5)):
        out = big(x)
        for b in range(B):
            ob = small[b](x[b:b + 1])
            chk = [("output", out[b:b + 1], ob), ("syncurrent", big.syncurrent[b:b + 1], small[b].syncurrent), ("synspike", big.synspike[b:b + 1].float(), small[b].synspike.float())]
            for name, a, c_ in chk:
                if not torch.allclose(a, c_, atol=1e-5):
                    return {"what": f"C11/connection/{name}", "input": dict(conn=ckind, syn=skind, delayed=delayed, B=B, seed=seed, step=t, sample=b), "expected": c_.flatten()[:6].tolist(), "actual": a.flatten()[:6].tolist()}
    return None


def layer_case(kind, B, seed):
    from inferno.neural import LIF, Biclique, RecurrentSerial, Serial

    def lif(bsz):
        return LIF((2, 2), 1.0, rest_v=-60.0, reset_v=-65.0, thresh_v=-55.0, refrac_t=2.0, time_constant=10.0, resistance=1.0, batch_size=bsz)

    def build(bsz):
        if kind == "serial":
            return Serial(cx.mkconn("dense", "single", 1.0, bsz, True, 2.0, seed), lif(bsz))
        if kind == "biclique":
            return Biclique([("a", cx.mkconn("dense", "single", 1.0, bsz, True, None, seed)), ("b", cx.mkconn("dense", "delta", 1.0, bsz, False, 2.0, seed + 1))], [("x", lif(bsz)), ("y", lif(bsz))])
        from inferno.neural import DeltaCurrent, LinearDense, LinearLateral

        torch.manual_seed(seed)
        ff = cx.mkconn("dense", "single", 1.0, bsz, True, None, seed)
        lat = LinearLateral((2, 2), 1.0, synapse=DeltaCurrent.partialconstructor(20.0), batch_size=bsz)
        fb = LinearDense((2, 2), (2, 2), 1.0, synapse=DeltaCurrent.partialconstructor(20.0), batch_size=bsz)
        return RecurrentSerial(ff, lat, fb, lif(bsz), lif(bsz))

    big, small = build(B), [build(1) for _ in range(B)]
    for t, x in enumerate(_sparse_inputs((2, 3), 25, B, seed, 0.6)):
        feed = (lambda z: {"a": (z,), "b": (z,)}) if kind == "biclique" else (lambda z: z)
        out = big(feed(x))
        for b in range(B):
            ob = small[b](feed(x[b:b + 1]))
            pairs = [(out[k][b:b + 1], ob[k]) for k in out] if isinstance(out, dict) else ([(o[b:b + 1], p) for o, p in zip(out, ob)] if isinstance(out, tuple) else [(out[b:b + 1], ob)])
            for a, c_ in pairs:
                if not torch.equal(a, c_):
                    return {"what": f"C11/layer/{kind}", "input": dict(kind=kind, B=B, seed=seed, step=t, sample=b), "expected": c_.flatten().tolist(), "actual": a.flatten().tolist()}
    return None


def trainer_case(tname, B, seed):
    from inferno.learn import MSTDP, MSTDPET, STDP, TripletSTDP
    from inferno.neural import LIF, Serial

    def build(bsz):
        conn = cx.mkconn("dense", "delta", 1.0, bsz, False, None, seed)
        conn.updater = conn.defaultupdater()
        neu = LIF((2, 2), 1.0, rest_v=-60.0, reset_v=-65.0, thresh_v=-58.0, refrac_t=1.0, time_constant=10.0, resistance=12.0, batch_size=bsz)
        layer = Serial(conn, neu)
        if tname == "stdp":
            tr = STDP(0.01, -0.02, 10.0, 15.0, batch_reduction=torch.sum)
        elif tname == "triplet":
            tr = TripletSTDP(0.01, 0.002, -0.02, 0.003, 10.0, 20.0, 15.0, 30.0, batch_reduction=torch.sum)
        elif tname == "mstdp":
            tr = MSTDP(0.01, -0.02, 10.0, 15.0, batch_reduction=torch.sum)
        elif tname == "mstdp_tensor":
            # potentiation-only rates with PER-SAMPLE rewards of both signs: a punished sample contributes a depressing part
            # only - alone (batch size 1) exactly as inside a batch whose other samples are rewarded
            tr = MSTDP(0.01, 0.02, 10.0, 15.0, batch_reduction=torch.sum)
        elif tname == "kernel":
            # a kernel whose SIGN depends on the spike-time difference: different samples push one synapse in opposite directions,
            # so splitting into potentiating / depressing parts must happen per sample, before the batch reduction
            from inferno.learn import KernelSTDP

            hat = lambda diff, a, tc: torch.nan_to_num(a * torch.cos(diff * (3.0 / tc)), nan=0.0)  # noqa: E731
            hat2 = lambda diff, a, tc: torch.nan_to_num(a * torch.sin(diff * (2.0 / tc)), nan=0.0)  # noqa: E731
            tr = KernelSTDP(hat, hat2, dict(a=0.05, tc=4.0), dict(a=-0.03, tc=6.0), batch_reduction=torch.sum)
        else:
            tr = MSTDPET(0.01, -0.02, 10.0, 15.0, 20.0, batch_reduction=torch.sum)
        tr.register_cell("c", layer.cell)
        return layer, tr, conn

    big, small = build(B), [build(1) for _ in range(B)]
    fired = 0
    call = (lambda tr: tr(0.7)) if tname in ("mstdp", "mstdpet") else (lambda tr: tr())
    rewards = torch.tensor([0.7 if b % 2 == 0 else -0.7 for b in range(B)])
    for t, x in enumerate(_sparse_inputs((2, 3), 12, B, seed, 0.7)):
        fired += int(big[0](x).sum())
        if tname == "mstdp_tensor":
            big[1](rewards)
        else:
            call(big[1])
        for b in range(B):
            small[b][0](x[b:b + 1])
            if tname == "mstdp_tensor":
                small[b][1](rewards[b:b + 1])
            else:
                call(small[b][1])
        pos_b, neg_b = big[2].updater.weight.pos, big[2].updater.weight.neg
        for name, whole, parts in (("pos", pos_b, [s[2].updater.weight.pos for s in small]), ("neg", neg_b, [s[2].updater.weight.neg for s in small])):
            tot = sum(p for p in parts if p is not None) if any(p is not None for p in parts) else None
            if (whole is None) != (tot is None) or (whole is not None and not torch.allclose(whole, tot, atol=1e-5)):
                return {"what": f"C11/trainer/{name}_not_sum_of_samples", "input": dict(trainer=tname, B=B, seed=seed, step=t), "expected": None if tot is None else tot.flatten()[:6].tolist(), "actual": None if whole is None else whole.flatten()[:6].tolist()}
    if fired == 0:
        return {"what": "C11/trainer/vacuous_oracle_post_side_never_fired", "input": dict(trainer=tname, B=B, seed=seed), "expected": "> 0 postsynaptic spikes", "actual": 0}
    return None


def sweep(tier="quick", seed=0, unsupported=()):
    failures, cases = [], 0

    def add(f):
        if f is not None and not any(x["what"] == f["what"] for x in failures):
            failures.append(f)

    Bs = (3,) if tier == "quick" else (2, 3, 5)
    for cls, B in itertools.product(["LIF", "ALIF", "GLIF1", "GLIF2", "QIF", "Izhikevich", "EIF", "AdEx"], Bs):
        cases += 2
        add(neuron_case(cls, B, seed))
        add(neuron_case(cls, B, seed, via_setter=True))
    for kind, B, inplace in itertools.product(["delta", "deltaplus", "single", "double"], Bs, (False, True)):
        cases += 1
        add(synapse_case(kind, B, seed, inplace))
    for ck, sk, delayed, B in itertools.product(cx.CONN, cx.SYN, (False, True), Bs):
        cases += 1
        add(connection_case(ck, sk, delayed, B, seed))
    for kind, B in itertools.product(["serial", "biclique", "recurrent"], Bs):
        cases += 1
        add(layer_case(kind, B, seed))
    for tname, B in itertools.product(["stdp", "triplet", "mstdp", "mstdpet", "kernel", "mstdp_tensor"], Bs):
        cases += 1
        add(trainer_case(tname, B, seed))
    return {"standins": [{"function": "batched run vs per-sample batch-size-1 runs: 8 neuron classes (adaptation frozen), 4 synapses incl. delayed reads, 4 connections x 4 synapses with/without delays, Serial/Biclique/RecurrentSerial; STDP/TripletSTDP/MSTDP/MSTDPET/KernelSTDP (sign-changing kernel) with batch_reduction=sum vs sum of per-sample steps", "domain": f"{cases} cases, 12-30 steps each, sparse per-sample spike sequences", "cases": cases, "proved": False, "label": "bounded"}], "failures": failures}


def replay(contract, label, model, note=""):
    if "keyword_arguments_reach" in label or "kwargs_routed" in label:
        from . import c17

        f = c17.recurrent_kwargs_case()
        return {"reproduced": f is not None, "failure": f, "concrete": f["input"] if f else None}
    r = sweep("quick", 0)
    if r["failures"]:
        return {"reproduced": True, "failure": r["failures"][0], "concrete": r["failures"][0]["input"]}
    return {"reproduced": False, "search": {"points_tried": r["standins"][0]["cases"]}}


def replay_native(rp):
    r = sweep("quick", 0)
    fs = [f for f in r["failures"] if f["what"] == rp.get("what")]
    return {"reproduced": bool(fs), "failure": fs[0] if fs else None}
