"""C12 native oracle (bounded): real save -> torch.save/load -> restore into a fresh or dirty twin at every step k."""
from __future__ import annotations

import json

import io
import itertools

from .common import torch
from inferno.extra import ExactNeuron
from inferno.learn import STDP, MaxRateClassifier
from inferno.neural import ALIF, DeltaCurrent, DoubleExponentialCurrent, LIF, LinearDense, RecurrentSerial, Serial, SingleExponentialCurrent
from inferno.observe import CAReducer, CumulativeTraceReducer, EMAReducer, EventReducer, PassthroughReducer


def roundtrip(sd):
    buf = io.BytesIO()
    torch.save(sd, buf)
    buf.seek(0)
    return torch.load(buf, weights_only=False)


def build(kind, seed, inplace=False):
    torch.manual_seed(seed)
    syn = {"delta": DeltaCurrent.partialconstructor(20.0, inplace=inplace), "single": SingleExponentialCurrent.partialconstructor(20.0, 5.0, inplace=inplace), "double": DoubleExponentialCurrent.partialconstructor(30.0, 6.0, 2.0, inplace=inplace)}
    mkn = lambda: LIF((2,), 1.0, rest_v=-60.0, reset_v=-65.0, thresh_v=-55.0, refrac_t=2.0, time_constant=10.0, batch_size=2)  # noqa: E731
    if kind.startswith("serial"):
        s = kind.split("-")[1]
        c = LinearDense((3,), (2,), 1.0, synapse=syn[s], delay=2.0, batch_size=2)
        c.delay = torch.tensor([[0.0, 1.0, 2.0], [2.0, 0.5, 1.0]])
        n = mkn() if "alif" not in kind else ALIF((2,), 1.0, rest_v=-60.0, reset_v=-65.0, thresh_eq_v=-55.0, refrac_t=2.0, tc_membrane=10.0, tc_adaptation=20.0, spike_increment=1.0, batch_size=2)
        return Serial(c, n)
    if kind == "recurrent":
        mk = lambda i, o: LinearDense((i,), (o,), 1.0, synapse=syn["delta"], batch_size=2)  # noqa: E731
        return RecurrentSerial(mk(3, 2), mk(2, 2), mk(2, 2), mkn(), mkn())
    raise ValueError(kind)


def state_of(layer):
    out = {}
    for k, v in layer.state_dict().items():
        out[k] = v.clone() if torch.is_tensor(v) else repr(v)
    return out


def layer_case(kind, k, dirty, inplace, T=7):
    g = torch.Generator().manual_seed(3)
    xs = [(torch.rand(2, 3, generator=g) < 0.6).float() for _ in range(T)]
    a = build(kind, 1, inplace)
    a.eval()
    outs = []
    sd = None
    for t, x in enumerate(xs):
        if t == k:
            sd = roundtrip(a.state_dict())
        outs.append(a(x))
    b = build(kind, 2, inplace)
    b.eval()
    g2 = torch.Generator().manual_seed(9)
    for _ in range(max(1, dirty)):  # lazily shaped recorders must have seen one step
        b((torch.rand(2, 3, generator=g2) < 0.5).float())
    inp = dict(kind=kind, k=k, dirty=dirty, inplace=inplace)
    if kind == "recurrent" and k >= 1 and not any(key.endswith("feedback_spikes") for key in sd):
        return {"what": "C12/recurrent_state_missing_from_state_dict", "input": inp, "expected": "feedback_spikes saved once the layer has run", "actual": sorted(sd)[:8]}
    try:
        b.load_state_dict(sd)
    except Exception as e:
        return {"what": "C12/load_exception", "input": inp, "expected": "ok", "actual": f"{type(e).__name__}: {str(e)[:200]}"}
    if kind == "recurrent" and k >= 1 and not torch.equal(b.feedback_spikes, roundtrip(a.state_dict()) and sd[[key for key in sd if key.endswith("feedback_spikes")][0]]):
        return {"what": "C12/recurrent_state_not_restored", "input": inp, "expected": "feedback spikes of the checkpoint", "actual": "the target's own"}
    for t in range(k, T):
        o = b(xs[t])
        ref = outs[t]
        same = all(torch.equal(p, q) for p, q in zip(o, ref)) if isinstance(o, tuple) else torch.equal(o, ref)
        if not same:
            return {"what": "C12/future_differs_after_restore", "input": dict(inp, step=t), "expected": str(ref)[:120], "actual": str(o)[:120]}
    sa, sb = state_of(a), state_of(b)
    for key in sa:
        va, vb = sa[key], sb.get(key)
        if (torch.is_tensor(va) and not (torch.is_tensor(vb) and va.shape == vb.shape and torch.equal(va, vb))) or (not torch.is_tensor(va) and va != vb):
            return {"what": "C12/final_state_differs", "input": dict(inp, key=key), "expected": str(va)[:120], "actual": str(vb)[:120]}
    return None


def reducer_case(mk, k, dirty, T=8):
    g = torch.Generator().manual_seed(4)
    xs = [torch.rand(2, generator=g) for _ in range(T)]
    a = mk()
    sd = None
    hist = []
    for t, x in enumerate(xs):
        if t == k:
            sd = roundtrip(a.state_dict())
        a(x)
        hist.append(a.dump().clone())
    b = mk()
    for i in range(max(1, dirty)):
        b(torch.full((2,), float(i)))
    try:
        b.load_state_dict(sd)
    except Exception as e:
        return {"what": "C12/reducer_load_exception", "input": dict(k=k, dirty=dirty), "expected": "ok", "actual": f"{type(e).__name__}: {str(e)[:200]}"}
    for t in range(k, T):
        b(xs[t])
        if not torch.equal(b.dump(), hist[t]):
            return {"what": "C12/reducer_future_differs", "input": dict(cls=type(a).__name__, k=k, dirty=dirty, step=t), "expected": hist[t].tolist(), "actual": b.dump().tolist()}
    return None


def classifier_case(seed):
    torch.manual_seed(seed)
    a = MaxRateClassifier((3,), 4)
    for _ in range(3):
        a(torch.rand(5, 3), torch.randint(0, 4, (5,)), logits=None)
    b = MaxRateClassifier((3,), 4)
    b.load_state_dict(roundtrip(a.state_dict()))
    for n in ("assignments", "occurrences", "proportions", "rates"):
        if not torch.equal(getattr(a, n), getattr(b, n)):
            return {"what": "C12/classifier_derived_buffer", "input": dict(buffer=n, seed=seed), "expected": getattr(a, n).tolist(), "actual": getattr(b, n).tolist()}
    x = torch.rand(6, 3)
    if not torch.equal(a.classify(x), b.classify(x)):
        return {"what": "C12/classifier_predictions", "input": dict(seed=seed), "expected": a.classify(x).tolist(), "actual": b.classify(x).tolist()}
    # a target in an arbitrary prior state: trained on other data AND already used for inference (logits, proportional or
    # not) before the checkpoint is loaded into it
    d = MaxRateClassifier((3,), 4)
    for _ in range(2):
        d(torch.rand(5, 3) * 3.0, torch.randint(0, 4, (5,)), logits=None)
    d.regress(x, True), d.regress(x, False), d.classify(x)
    d.load_state_dict(roundtrip(a.state_dict()))
    for prop in (True, False):
        if not torch.equal(a.regress(x, prop), d.regress(x, prop)):
            return {"what": "C12/classifier_inference_after_load_into_a_used_target", "input": dict(seed=seed, proportional=prop), "expected": a.regress(x, prop).tolist(), "actual": d.regress(x, prop).tolist()}
    return None


def trainer_case(k, dirty, T=7):
    def mk(seed):
        torch.manual_seed(seed)
        c = LinearDense((3,), (2,), 1.0, synapse=DeltaCurrent.partialconstructor(1.0), delay=2.0, batch_size=1)
        c.delay = torch.tensor([[0.0, 1.0, 2.0], [2.0, 1.0, 0.0]])
        c.updater = c.defaultupdater()
        lay = Serial(c, ExactNeuron((2,), 1.0, rest_v=-60.0, thresh_v=-45.0, batch_size=1))
        tr = STDP(0.4, -0.3, 10.0, 8.0, delayed=True, interp_tolerance=1e-4, batch_reduction=torch.sum)
        tr.register_cell("cell", lay.cell)
        return lay, tr, c

    g = torch.Generator().manual_seed(5)
    pre = [(torch.rand(1, 3, generator=g) < 0.5) for _ in range(T)]
    post = [(torch.rand(1, 2, generator=g) < 0.5) for _ in range(T)]
    la, ta, ca = mk(1)
    ws = []
    sds = None
    for t in range(T):
        if t == k:
            sds = roundtrip((la.state_dict(), ta.state_dict()))
        la(pre[t].float(), neuron_kwargs={"override": post[t]})
        ta()
        ca.update()
        ws.append(ca.weight.detach().clone())
    lb, tb, cb = mk(2)
    for i in range(max(1, dirty)):
        lb(torch.ones(1, 3), neuron_kwargs={"override": torch.ones(1, 2, dtype=torch.bool)})
        tb()
        cb.update()
    try:
        lb.load_state_dict(sds[0])
        tb.load_state_dict(sds[1])
    except Exception as e:
        return {"what": "C12/trainer_load_exception", "input": dict(k=k, dirty=dirty), "expected": "ok", "actual": f"{type(e).__name__}: {str(e)[:200]}"}
    for t in range(k, T):
        lb(pre[t].float(), neuron_kwargs={"override": post[t]})
        tb()
        cb.update()
        if not torch.equal(cb.weight, ws[t]):
            return {"what": "C12/trainer_update_differs", "input": dict(k=k, dirty=dirty, step=t), "expected": ws[t].tolist(), "actual": cb.weight.tolist()}
    return None


def sweep(tier="quick", seed=0, unsupported=()):
    failures, cases = [], 0

    def add(f):
        key = lambda x: (x["what"], x["input"].get("kind"), x["input"].get("k") == 0)  # noqa: E731
        if f is not None and not any(key(x) == key(f) for x in failures):
            failures.append(f)

    kinds = ["serial-delta", "serial-single", "serial-double", "serial-delta-alif", "recurrent"]
    for kind in kinds:
        for k in range(0, 7):
            for dirty, inplace in (((0, False), (3, True)) if tier == "quick" else itertools.product((0, 1, 3, 5), (False, True))):
                cases += 1
                add(layer_case(kind, k, dirty, inplace))
    reds = [lambda: PassthroughReducer(1.0, duration=2.0), lambda: CumulativeTraceReducer(1.0, 5.0, 0.5, 1.0, duration=3.0), lambda: EMAReducer(1.0, 0.3, duration=2.0), lambda: CAReducer(1.0, duration=2.0), lambda: EventReducer(1.0, lambda x: x > 0.5, "zero", duration=2.0)]
    for mk in reds:
        for k in range(1, 8):
            for dirty in (1, 2, 4):
                cases += 1
                add(reducer_case(mk, k, dirty))
    for k in range(1, 7):
        for dirty in (1, 2, 4):
            cases += 1
            add(trainer_case(k, dirty))
    cases += 1
    add(classifier_case(seed))
    return {"standins": [{"function": "state_dict -> torch.save/load -> load_state_dict into a fresh or dirty twin at every step k, then bit-exact comparison of all future outputs / histories / weights", "domain": "Serial x {delta,single,double exponential, ALIF} with heterogeneous delays, RecurrentSerial; 5 reducer classes; STDP trainer (delayed) + layer; MaxRateClassifier; all k in a run of 7-8 steps; fresh and dirty targets; in-place on/off", "cases": cases, "proved": False, "label": "bounded"}], "failures": failures}


def replay(contract, label, model, note=""):
    r = sweep("quick", 0)
    # never the recorded finding D24 (RecurrentSerial checkpoint before its first step); prefer failures of the class the
    # obligation is about
    fs = [f for f in r["failures"] if not (f["what"] == "C12/load_exception" and f.get("input", {}).get("kind") == "recurrent" and f.get("input", {}).get("k") == 0)]
    want = contract.split("[")[0].split(".")[0].lower()
    pref = [f for f in fs if want and want in json.dumps(f, default=str).lower()]
    fs = pref or fs
    if fs:
        return {"reproduced": True, "failure": fs[0], "concrete": fs[0]["input"]}
    return {"reproduced": False, "search": {"points_tried": r["standins"][0]["cases"]}}


def replay_native(rp):
    r = sweep("quick", 0)
    hit = [f for f in r["failures"] if f["what"] == rp.get("what")]
    return {"reproduced": bool(hit), "failure": hit[0] if hit else None}
