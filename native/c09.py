from __future__ import annotations

from . import trainers as tr

_DOM = {"c08": "pair/stable STDP: sampled 1x1 histories of length 4 (all 256 pairs in thorough, length 6) x cumulative/nearest x sign modes x delay 0..2 steps; random 3x2 populations with heterogeneous delays incl. the maximum in delayed and delay-frozen modes; MSTDP scalar and per-sample signals",
        "c09": "every trainer step of the C08 sweep: parts handed to the updater are >= 0; LinearHomeostasis on weight/bias/delay with the rate above and below target"}


def _routing(seed):
    """pos goes through the upper bound and neg through the lower bound when the accumulated update is applied (real
    Accumulator with half and full bounds): shares the C10 sequence oracle"""
    from . import c10

    out, n = [], 0
    for s in range(25):
        for bound in (None, "mult", "full_sharp"):
            n += 1
            f = c10.run_sequence(seed * 7919 + s, bound=bound)
            if f is not None:
                f = dict(f, what="C09/routing/" + f["what"].split("/", 1)[-1])
                if not any(x["what"] == f["what"] for x in out):
                    out.append(f)
    return out, n


def sweep(tier="quick", seed=0, unsupported=()):
    f, n = tr.sweep_c09(tier, seed)
    f = [x for x in f if x["what"].startswith("C09/")]
    f2, n2 = _routing(seed)
    f, n = f + f2, n + n2
    return {"standins": [{"function": "real trainers on real cells vs brute-force sums over spike times", "domain": _DOM["c09"], "cases": n, "proved": False, "label": "bounded"}], "failures": f}


def replay(contract, label, model, note=""):
    if contract.startswith("Conv2D.layouts"):
        from . import connections as _cx

        return _cx.replay_layouts(model)
    f, n = tr.sweep_c09("quick", 0)
    f8, n8 = tr.sweep_c08("quick", 0)
    want = contract.split(".")[0].split("[")[0]
    if want in ("Accumulator", "Updater"):
        fr, nr = _routing(0)
        if fr:
            return {"reproduced": True, "failure": fr[0], "concrete": fr[0]["input"], "search": {"points_tried": nr}}
    f = [x for x in f + f8 if f"/{want}/" in x["what"]] or [x for x in f if x["what"].startswith("C09/") and "Homeostasis" not in x["what"]]
    if f:
        return {"reproduced": True, "failure": f[0], "concrete": f[0]["input"], "search": {"points_tried": n}}
    return {"reproduced": False, "search": {"points_tried": n}}


def replay_native(rp):
    f, n = tr.sweep_c09("quick", 0)
    hit = [x for x in f if x["what"] == rp.get("what")]
    return {"reproduced": bool(hit), "failure": hit[0] if hit else None}
